// Package polcase turns abstract policy cases exported by TLC (CompileGen.tla)
// into real seccomp.Policy values and real seccomp_data events, and back:
// it owns the concretisation maps of DESIGN.md 3.1/3.2.
package polcase

import (
	"encoding/json"
	"fmt"
	"math/rand"
	"sort"
	"strings"
	"unicode"

	seccomp "github.com/elastic/go-seccomp-bpf"
	"github.com/elastic/go-seccomp-bpf/arch"
)

// ---- abstract side (JSON written by TLC)

type Cond struct {
	Arg int64  `json:"arg"`
	Op  string `json:"op"`
	Val int64  `json:"val"`
}

type Entry struct {
	Num   int    `json:"num"`
	Conds []Cond `json:"conds"`
}

type Group struct {
	Names []int   `json:"names"`
	Conds []Entry `json:"conds"`
	Act   string  `json:"act"`
}

type Policy struct {
	Def    string  `json:"def"`
	X86    bool    `json:"x86"`
	Groups []Group `json:"groups"`
}

type Event struct {
	Arch string           `json:"arch"`
	Nr   int              `json:"nr"`
	Args map[string]int64 `json:"-"`
	Raw  json.RawMessage  `json:"args"`
}

// TLC serialises a function with domain {0,1} as a JSON array (1-based
// sequence semantics do not apply: domain 0.. comes out as an object or an
// array depending on the domain); accept both.
func (e *Event) Decode() error {
	e.Args = map[string]int64{}
	var m map[string]int64
	if err := json.Unmarshal(e.Raw, &m); err == nil {
		e.Args = m
		return nil
	}
	var a []int64
	if err := json.Unmarshal(e.Raw, &a); err == nil {
		return fmt.Errorf("event args serialised as array %v: domain unknown", a)
	}
	return fmt.Errorf("cannot decode event args %s", string(e.Raw))
}

type ModelInst struct {
	K  string          `json:"k"`
	C  string          `json:"c"`
	V  json.RawMessage `json:"v"`
	St int             `json:"st"`
	Sf int             `json:"sf"`
}

type Model struct {
	Err  string      `json:"err"`
	Le   bool        `json:"le"`
	Prog []ModelInst `json:"prog"`
}

type Case struct {
	Pol    Policy   `json:"pol"`
	Reject bool     `json:"reject"`
	Ideal  []string `json:"ideal"`
	// IdealX32: the decisions when the same policy is compiled for arch.X32 (x86 policies only)
	IdealX32 []string `json:"ideal_x32"`
	Model    Model    `json:"model"`
}

type Header struct {
	Scope  string  `json:"scope"`
	W      int     `json:"w"`
	X32Bit int     `json:"x32bit"`
	NSys   int     `json:"nsys"`
	Events []Event `json:"events"`
	Total  int     `json:"total"`
	// Compile!KernelObserves: decision -> what the calling thread observes on the running kernel
	Observes map[string]string `json:"observes"`
}

// ---- actions

var actionConst = map[string]uint32{
	"kill_thread":  uint32(seccomp.ActionKillThread),
	"kill_process": uint32(seccomp.ActionKillProcess),
	"trap":         uint32(seccomp.ActionTrap),
	"errno":        uint32(seccomp.ActionErrno),
	"trace":        uint32(seccomp.ActionTrace),
	"log":          uint32(seccomp.ActionLog),
	"allow":        uint32(seccomp.ActionAllow),
	"user_notif":   uint32(seccomp.ActionUserNotify),
	"unnamed":      0x12340000,
	"errno+2":      uint32(seccomp.ActionErrno) | 2,
	"errno+13":     uint32(seccomp.ActionErrno) | 13,
	"errno+38":     uint32(seccomp.ActionErrno) | 38,
	"errno+4094":   uint32(seccomp.ActionErrno) | 4094,
	"trace+42":     uint32(seccomp.ActionTrace) | 42,
	"trap+6":       uint32(seccomp.ActionTrap) | 6,
}

// Kernel UAPI values, independent of the package under test.
var retConst = map[string]uint32{
	"kill_thread":  0x00000000,
	"kill_process": 0x80000000,
	"trap":         0x00030000,
	"errno|EPERM":  0x00050001,
	"errno|ENOSYS": 0x00050026,
	"trace":        0x7ff00000,
	"log":          0x7ffc0000,
	"allow":        0x7fff0000,
	"user_notif":   0x7fc00000,
	"unnamed":      0x12340000,
	"errno+2":      0x00050002,
	"errno+13":     0x0005000d,
	"errno+38":     0x00050026,
	"errno+4094":   0x00050ffe,
	"trace+42":     0x7ff0002a,
	"trap+6":       0x00030006,
}

func RetValue(name string) (uint32, bool) { v, ok := retConst[name]; return v, ok }

// ---- embeddings of W-bit words into 32-bit words

type Embedding struct {
	Name string
	// HomAnd: strictly monotone and AND-homomorphic (usable with bit operations)
	HomAnd bool
	F      func(x uint32, w int) uint32
}

func blockEmbed(x uint32, w int, lo, hi func(i int) int) uint32 {
	var r uint32
	for i := 0; i < w; i++ {
		if x&(1<<uint(i)) != 0 {
			for b := lo(i); b <= hi(i); b++ {
				r |= 1 << uint(b)
			}
		}
	}
	return r
}

var Embeddings = []Embedding{
	{"low", true, func(x uint32, w int) uint32 { return x }},
	{"high", true, func(x uint32, w int) uint32 { return x << uint(32-w) }},
	{"spread", true, func(x uint32, w int) uint32 {
		if w == 1 {
			return x << 31
		}
		return blockEmbed(x, w, func(i int) int { return i * 31 / (w - 1) }, func(i int) int { return i * 31 / (w - 1) })
	}},
	{"replicate", true, func(x uint32, w int) uint32 {
		bl := 32 / w
		return blockEmbed(x, w, func(i int) int { return i * bl }, func(i int) int {
			if i == w-1 {
				return 31
			}
			return i*bl + bl - 1
		})
	}},
	// order-only: the signedness boundary; only for policies without bit operations and W <= 2
	{"signedge", false, func(x uint32, w int) uint32 {
		switch w {
		case 1:
			return []uint32{0x7FFFFFFF, 0x80000000}[x]
		case 2:
			return []uint32{0, 0x7FFFFFFF, 0x80000000, 0xFFFFFFFF}[x]
		}
		return x
	}},
}

// ---- concretisation

type SysPair struct {
	Name string
	Nr   int
}

type Conc struct {
	// Unknown: the spelling used for the abstract "unknown syscall" (empty: UnknownName)
	Unknown string
	// ParseOps: operations reach the policy through Operation.Unpack from a spelling in random letter case (as a configuration
	// file may spell them), not as the exported constants
	ParseOps bool
	rngOps   *rand.Rand
	Arch     *arch.Info
	Sys      []SysPair // abstract syscall id -> real syscall
	Pos      [6]int    // abstract argument position -> real position
	Hi, Lo   Embedding
	LE       bool
	// HostOrder: the byte order is the one the package determined for itself when it was initialised (no override), and
	// the record is laid out the way this host's kernel lays it out
	HostOrder bool
	// ArchVia: how the policy gets its architecture: "" = the exported variable (arch.X86_64, ...), "name" = what arch.GetInfo
	// returns for the architecture's name, "default" = not set at all (Assemble resolves the host's; only when Arch is the host's)
	ArchVia string
	// Domain: the execution domain (personality) of the thread that compiles: "" or "PER_LINUX32"
	Domain string
	// Pad (SetPadTable): every name of the real table that the concretisation does not use. Groups that list every abstract
	// syscall by name (and nothing else) list these too: the policy then names the architecture's whole syscall table, and
	// "unlisted" events are numbers outside the table only
	Pad    []string
	padNrs map[uint32]bool
	W      int
	X32Bit int
	NSys   int
}

func (c *Conc) Describe() map[string]interface{} {
	names := []string{}
	for _, s := range c.Sys {
		names = append(names, fmt.Sprintf("%s=%d", s.Name, s.Nr))
	}
	return map[string]interface{}{"arch": c.Arch.Name, "syscalls": names, "positions": c.Pos,
		"hi_embedding": c.Hi.Name, "lo_embedding": c.Lo.Name, "little_endian": c.LE, "host_order": c.HostOrder, "arch_via": c.ArchVia, "execution_domain": c.Domain, "padded_to_whole_table": len(c.Pad), "w": c.W}
}

func (c *Conc) Embed64(v int64) uint64 {
	b := int64(1) << uint(c.W)
	hi, lo := uint32(v/b), uint32(v%b)
	return uint64(c.Hi.F(hi, c.W))<<32 | uint64(c.Lo.F(lo, c.W))
}

func HasBitOp(p *Policy) bool {
	for _, g := range p.Groups {
		for _, e := range g.Conds {
			for _, c := range e.Conds {
				if c.Op == "BitsSet" || c.Op == "BitsNotSet" {
					return true
				}
			}
		}
	}
	return false
}

const UnknownName = "verif_no_such_syscall"

func (c *Conc) sysName(id int) string {
	if id >= 0 && id < len(c.Sys) {
		return c.Sys[id].Name
	}
	if c.Unknown != "" {
		return c.Unknown
	}
	return UnknownName
}

// PickUnknown chooses what "a name unknown to the target architecture" is for this concretisation: a name no table has, a
// name another architecture's table has but this one does not (uselib for x32, socketcall for x86_64, ...), or a name of
// this table in another letter case (syscall names are case sensitive).
func (c *Conc) PickUnknown(rng *rand.Rand) {
	switch rng.Intn(3) {
	case 0:
		c.Unknown = ""
	case 1:
		var foreign []string
		others := []*arch.Info{arch.X86_64, arch.X32, arch.I386, arch.ARM, arch.AARCH64}
		// every second time from the nearest relative only (the other ABI of the same machine: its table is the one a lookup is
		// most likely to fall back to or be confused with, and the names it has in addition are few)
		sibling := map[*arch.Info]*arch.Info{arch.X32: arch.X86_64, arch.X86_64: arch.X32, arch.I386: arch.X86_64, arch.ARM: arch.AARCH64, arch.AARCH64: arch.ARM}
		if sib := sibling[c.Arch]; sib != nil && rng.Intn(2) == 0 {
			others = []*arch.Info{sib}
		}
		for _, o := range others {
			for n := range o.SyscallNames {
				if _, ok := c.Arch.SyscallNames[n]; !ok {
					foreign = append(foreign, n)
				}
			}
		}
		sort.Strings(foreign)
		if len(foreign) > 0 {
			c.Unknown = foreign[rng.Intn(len(foreign))]
		}
	default:
		var own []string
		for n := range c.Arch.SyscallNames {
			own = append(own, n)
		}
		sort.Strings(own)
		for try := 0; try < 20; try++ {
			n := own[rng.Intn(len(own))]
			v := strings.ToUpper(n[:1]) + n[1:]
			if rng.Intn(2) == 0 {
				v = strings.ToUpper(n)
			}
			if _, ok := c.Arch.SyscallNames[v]; !ok && v != n {
				c.Unknown = v
				break
			}
		}
	}
}

// Build makes the real policy value.
var canonicalOps = map[string]bool{"Equal": true, "NotEqual": true, "GreaterThan": true, "GreaterOrEqual": true, "LessThan": true, "LessOrEqual": true,
	"BitsSet": true, "BitsNotSet": true}

// SetParseOps makes Build obtain operations through the parser (seeded letter case).
func (c *Conc) SetParseOps(rng *rand.Rand) { c.ParseOps, c.rngOps = true, rng }

// SetPadTable prepares the whole-table variant (see Pad).
func (c *Conc) SetPadTable() {
	used := map[int]bool{}
	for _, s := range c.Sys {
		used[s.Nr] = true
	}
	nums := make([]int, 0, len(c.Arch.SyscallNumbers))
	for n := range c.Arch.SyscallNumbers {
		nums = append(nums, n)
	}
	sort.Ints(nums)
	c.padNrs = map[uint32]bool{}
	for _, n := range nums {
		name := c.Arch.SyscallNumbers[n]
		if !used[n] && c.Arch.SyscallNames[name] == n {
			c.Pad = append(c.Pad, name)
			c.padNrs[uint32(n)] = true
		}
	}
}

// WholeList: the group lists every abstract syscall by name and has no conditional entries.
func WholeList(g *Group, nsys int) bool {
	if len(g.Conds) != 0 || len(g.Names) != nsys {
		return false
	}
	seen := map[int]bool{}
	for _, n := range g.Names {
		if n < 0 || n >= nsys || seen[n] {
			return false
		}
		seen[n] = true
	}
	return true
}

// HasWholeList: some group of the policy is a WholeList.
func HasWholeList(p *Policy, nsys int) bool {
	for i := range p.Groups {
		if WholeList(&p.Groups[i], nsys) {
			return true
		}
	}
	return false
}

func (c *Conc) Build(p *Policy) seccomp.Policy {
	pol := seccomp.Policy{DefaultAction: seccomp.Action(actionConst[p.Def])}
	for gi, g := range p.Groups {
		sg := seccomp.SyscallGroup{Action: seccomp.Action(actionConst[g.Act])}
		for _, n := range g.Names {
			sg.Names = append(sg.Names, c.sysName(n))
		}
		if len(c.Pad) > 0 && WholeList(&p.Groups[gi], c.NSys) {
			sg.Names = append(sg.Names, c.Pad...)
		}
		for ei, e := range g.Conds {
			nc := seccomp.NameWithConditions{Name: c.sysName(e.Num)}
			if len(e.Conds) == 0 && (gi+ei)%2 == 1 {
				nc.Conditions = []seccomp.Condition{} // (an entry without conditions: nil or empty)
			}
			for _, cd := range e.Conds {
				arg := uint32(cd.Arg)
				if cd.Arg >= 0 && cd.Arg <= 5 {
					arg = uint32(c.Pos[cd.Arg])
				}
				op := seccomp.Operation(cd.Op)
				if c.ParseOps && c.rngOps != nil && canonicalOps[cd.Op] {
					b := []byte(cd.Op)
					for i := range b {
						if c.rngOps.Intn(2) == 0 {
							b[i] = byte(unicode.ToLower(rune(b[i])))
						} else {
							b[i] = byte(unicode.ToUpper(rune(b[i])))
						}
					}
					var parsed seccomp.Operation
					if err := parsed.Unpack(string(b)); err == nil {
						op = parsed
					}
				}
				nc.Conditions = append(nc.Conditions, seccomp.Condition{
					Argument: arg, Operation: op, Value: c.Embed64(cd.Val)})
			}
			sg.NamesWithCondtions = append(sg.NamesWithCondtions, nc)
		}
		pol.Syscalls = append(pol.Syscalls, sg)
	}
	c.SetArch(&pol)
	return pol
}

// SetArch gives the policy its architecture the way c.ArchVia says.
func (c *Conc) SetArch(pol *seccomp.Policy) {
	switch c.ArchVia {
	case "name":
		if a, err := arch.GetInfo(c.Arch.Name); err == nil {
			seccomp.VerifSetArch(pol, a)
			return
		}
	case "default":
		if a, err := arch.GetInfo(""); err == nil && a.Name == c.Arch.Name {
			return
		}
	}
	seccomp.VerifSetArch(pol, c.Arch)
}

// AuditArch ids the package knows (for "other" architecture words).
func OtherArchWords(own uint32) []uint32 {
	seen := map[uint32]bool{own: true}
	var out []uint32
	add := func(v uint32) {
		if !seen[v] {
			seen[v] = true
			out = append(out, v)
		}
	}
	for _, a := range []*arch.Info{arch.ARM, arch.AARCH64, arch.I386, arch.X86_64, arch.PPC, arch.PPC64, arch.PPC64LE,
		arch.S390, arch.S390X, arch.MIPS, arch.MIPSEL, arch.MIPS64, arch.MIPS64N32, arch.MIPSEL64, arch.MIPSEL64N32} {
		add(uint32(a.ID))
	}
	add(0)
	add(0xFFFFFFFF)
	add(own + 1)
	add(own - 1)
	add(own ^ 0x80000000)
	add(own ^ 0x40000000)
	return out
}

// NrClass expands an abstract syscall number into real ones.
func (c *Conc) NrClass(nr int, x86pol bool) []uint32 {
	listed := map[uint32]bool{}
	for _, s := range c.Sys {
		listed[uint32(s.Nr)] = true
	}
	for n := range c.padNrs {
		listed[n] = true
	}
	if nr < c.NSys {
		return []uint32{uint32(c.Sys[nr].Nr)}
	}
	var out []uint32
	add := func(v uint32) {
		if !listed[v] {
			out = append(out, v)
		}
	}
	x32 := func() []uint32 {
		r := []uint32{0x40000000, 0x80000000, 0xFFFFFFFF, 0x7FFFFFFF, 0x40000000 | 0x3FFFFFFF, 0xC0000000}
		for _, s := range c.Sys {
			r = append(r, 0x40000000|uint32(s.Nr), 0x80000000|uint32(s.Nr))
		}
		return r
	}
	if nr >= c.X32Bit && x86pol {
		k := nr - c.X32Bit
		if k < c.NSys {
			// the x32 twin of a listed syscall first
			return append([]uint32{0x40000000 | uint32(c.Sys[k].Nr)}, x32()...)
		}
		return x32()
	}
	// unlisted, own architecture, no x32 bit (or a policy for another architecture)
	max := 0
	for n := range c.Arch.SyscallNumbers {
		if n > max {
			max = n
		}
	}
	for _, s := range c.Sys {
		add(uint32(s.Nr) + 1)
		if s.Nr > 0 {
			add(uint32(s.Nr) - 1)
		}
		add(uint32(s.Nr) + 256)
		add(uint32(s.Nr) | 0x100)
		add(uint32(s.Nr) | 0x10000)
	}
	add(uint32(max))
	add(uint32(max) + 1)
	add(0x3FFFFFFF)
	add(254)
	add(255)
	add(256)
	add(0xFFFF)
	if !x86pol {
		for _, v := range x32() {
			add(v)
		}
	}
	return out
}

// PickSyscalls chooses nsys real syscalls of the architecture. mode "ident"
// takes the numbers 0..nsys-1 (so that small argument words coincide with
// syscall numbers), otherwise a seeded choice mixing low, high and boundary
// numbers.
func PickSyscalls(a *arch.Info, nsys int, mode string, rng *rand.Rand) ([]SysPair, error) {
	nums := make([]int, 0, len(a.SyscallNumbers))
	for n := range a.SyscallNumbers {
		nums = append(nums, n)
	}
	sort.Ints(nums)
	var out []SysPair
	unambiguous := func(n int) bool { return a.SyscallNames[a.SyscallNumbers[n]] == n }
	if mode == "ident" {
		for i := 0; i < nsys; i++ {
			name, ok := a.SyscallNumbers[i]
			if !ok || !unambiguous(i) {
				out = nil
				break
			}
			out = append(out, SysPair{name, i})
		}
		if out != nil {
			return out, nil
		}
		mode = "sorted"
	}
	if nsys > 16 || mode == "sorted" {
		// real-scale scopes: the first nsys numbers in order, or a seeded injective choice in shuffled order
		var cand []int
		for _, n := range nums {
			if unambiguous(n) {
				cand = append(cand, n)
			}
		}
		if len(cand) < nsys {
			return nil, fmt.Errorf("%s has only %d usable syscalls, %d needed", a.Name, len(cand), nsys)
		}
		if mode != "sorted" {
			rng.Shuffle(len(cand), func(i, j int) { cand[i], cand[j] = cand[j], cand[i] })
		}
		for _, n := range cand[:nsys] {
			out = append(out, SysPair{a.SyscallNumbers[n], n})
		}
		return out, nil
	}
	used := map[int]bool{}
	for len(out) < nsys {
		var n int
		switch rng.Intn(4) {
		case 0:
			n = nums[0]
		case 1:
			n = nums[len(nums)-1]
		case 2:
			// around 255/256
			n = nums[sort.SearchInts(nums, 250+rng.Intn(12))%len(nums)]
		default:
			n = nums[rng.Intn(len(nums))]
		}
		if used[n] {
			continue
		}
		// the name must map back to this number (ambiguous tables are C12's business)
		if a.SyscallNames[a.SyscallNumbers[n]] != n {
			continue
		}
		used[n] = true
		out = append(out, SysPair{a.SyscallNumbers[n], n})
	}
	return out, nil
}
