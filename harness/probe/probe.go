// Package probe holds the harmless probe syscalls of the harness: table
// entries of x86_64 the kernel answers with ENOSYS for any six arguments, so
// that EPERM (filtered) and ENOSYS (let through) separate deny from allow.
package probe

import (
	"bufio"
	"fmt"
	"os"
	"strconv"
	"strings"
	"syscall"
)

type Sys struct {
	Name string
	Nr   uintptr
}

// amd64 only (the host); the order is the abstract filter / syscall id.
var Syscalls = []Sys{
	{"tuxcall", 184}, {"security", 185}, {"afs_syscall", 183}, {"getpmsg", 181}, {"putpmsg", 182},
	{"vserver", 236}, {"create_module", 174}, {"get_kernel_syms", 177}, {"query_module", 178},
	{"nfsservctl", 180}, {"epoll_ctl_old", 214}, {"epoll_wait_old", 215}, {"uselib", 134}, {"_sysctl", 156},
}

// Call issues the probe with six raw register values and returns the errno.
func Call(nr uintptr, a [6]uint64) syscall.Errno {
	_, _, e := syscall.RawSyscall6(nr, uintptr(a[0]), uintptr(a[1]), uintptr(a[2]), uintptr(a[3]), uintptr(a[4]), uintptr(a[5]))
	return e
}

func Gettid() int {
	r, _, _ := syscall.RawSyscall(syscall.SYS_GETTID, 0, 0, 0)
	return int(r)
}

type Status struct {
	Tid     int `json:"tid"`
	Seccomp int `json:"seccomp"`
	Filters int `json:"filters"`
	NNP     int `json:"nnp"`
}

// ReadStatus reads Seccomp, Seccomp_filters and NoNewPrivs of a thread.
func ReadStatus(tid int) (Status, error) {
	st := Status{Tid: tid, Seccomp: -1, Filters: -1, NNP: -1}
	f, err := os.Open(fmt.Sprintf("/proc/self/task/%d/status", tid))
	if err != nil {
		return st, err
	}
	defer f.Close()
	sc := bufio.NewScanner(f)
	for sc.Scan() {
		line := sc.Text()
		get := func(prefix string, dst *int) {
			if strings.HasPrefix(line, prefix) {
				v, _ := strconv.Atoi(strings.TrimSpace(line[len(prefix):]))
				*dst = v
			}
		}
		get("Seccomp:", &st.Seccomp)
		get("Seccomp_filters:", &st.Filters)
		get("NoNewPrivs:", &st.NNP)
	}
	return st, sc.Err()
}

// Tasks lists the thread ids of the process.
func Tasks() ([]int, error) {
	ents, err := os.ReadDir("/proc/self/task")
	if err != nil {
		return nil, err
	}
	var out []int
	for _, e := range ents {
		if v, err := strconv.Atoi(e.Name()); err == nil {
			out = append(out, v)
		}
	}
	return out, nil
}
