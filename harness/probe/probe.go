// Package probe holds the harmless probe syscalls of the harness: table
// entries of x86_64 the kernel answers with ENOSYS for any six arguments, so
// that EPERM (filtered) and ENOSYS (let through) separate deny from allow.
package probe

import (
	"bufio"
	"fmt"
	"os"
	"runtime"
	"strconv"
	"strings"
	"syscall"
	"unsafe"
)

type Sys struct {
	Name string
	Nr   uintptr
}

// amd64 only (the host); the order is the abstract filter / syscall id.
var Syscalls = []Sys{
	{"tuxcall", 184}, {"security", 185}, {"afs_syscall", 183}, {"getpmsg", 181}, {"putpmsg", 182},
	{"vserver", 236}, {"create_module", 174}, {"get_kernel_syms", 177}, {"query_module", 178},
	{"nfsservctl", 180}, {"epoll_ctl_old", 214}, {"epoll_wait_old", 215}, {"uselib", 134}, {"_sysctl", 156},
}

// Call issues the probe with six raw register values and returns the errno.
func Call(nr uintptr, a [6]uint64) syscall.Errno {
	_, _, e := syscall.RawSyscall6(nr, uintptr(a[0]), uintptr(a[1]), uintptr(a[2]), uintptr(a[3]), uintptr(a[4]), uintptr(a[5]))
	return e
}

// BlockSeccompSyscall installs, on the calling thread only and without the library under test, a filter that answers
// the seccomp(2) system call with ERRNO(ENOSYS) and allows everything else - what a container profile that predates
// seccomp(2) does. It sets no_new_privs first (needed without CAP_SYS_ADMIN).
func BlockSeccompSyscall() error {
	if _, _, e := syscall.RawSyscall6(syscall.SYS_PRCTL, 38 /* PR_SET_NO_NEW_PRIVS */, 1, 0, 0, 0, 0); e != 0 {
		return e
	}
	prog := []syscall.SockFilter{
		{Code: 0x20, K: 0},                 // ld nr
		{Code: 0x15, Jt: 0, Jf: 1, K: 317}, // jeq __NR_seccomp (x86_64)
		{Code: 0x06, K: 0x00050000 | 38},   // ret ERRNO(ENOSYS)
		{Code: 0x06, K: 0x7fff0000},        // ret ALLOW
	}
	fprog := syscall.SockFprog{Len: uint16(len(prog)), Filter: &prog[0]}
	if _, _, e := syscall.RawSyscall6(syscall.SYS_PRCTL, 22 /* PR_SET_SECCOMP */, 2 /* SECCOMP_MODE_FILTER */, uintptr(unsafe.Pointer(&fprog)), 0, 0, 0); e != 0 {
		return e
	}
	return nil
}

// BlockSeccompSyscallAs is BlockSeccompSyscall for a starter that sets no_new_privs only if it has to (setNNP: the caller lacks
// CAP_SYS_ADMIN): the thread's bit then says nothing about the enclosing filter (Loader!BlockSeccomp).
func BlockSeccompSyscallAs(setNNP bool) error {
	if setNNP {
		return BlockSeccompSyscall()
	}
	prog := []syscall.SockFilter{
		{Code: 0x20, K: 0},
		{Code: 0x15, Jt: 0, Jf: 1, K: 317},
		{Code: 0x06, K: 0x00050000 | 38},
		{Code: 0x06, K: 0x7fff0000},
	}
	fprog := syscall.SockFprog{Len: uint16(len(prog)), Filter: &prog[0]}
	if _, _, e := syscall.RawSyscall6(syscall.SYS_PRCTL, 22 /* PR_SET_SECCOMP */, 2 /* SECCOMP_MODE_FILTER */, uintptr(unsafe.Pointer(&fprog)), 0, 0, 0); e != 0 {
		return e
	}
	return nil
}

// OldKernelAllThreads puts every thread under an enclosing filter that answers seccomp(2) with EINVAL when its flags argument has
// a bit the kernels before 5.7 do not know (SECCOMP_FILTER_FLAG_TSYNC_ESRCH, 1 << 4, and above): to the process the kernel is an
// older one. A caller that only uses the flags the package names never notices. Root only (no no_new_privs is set).
func OldKernelAllThreads() error {
	prog := []syscall.SockFilter{
		{Code: 0x20, K: 0},                        // ld nr
		{Code: 0x15, Jt: 0, Jf: 3, K: 317},        // jeq seccomp ? next : allow
		{Code: 0x20, K: 24},                       // ld args[1] (low word; little endian): flags
		{Code: 0x45, Jt: 0, Jf: 1, K: 0xfffffff0}, // jset ~0xf ? einval : allow
		{Code: 0x06, K: 0x00050000 | 22},          // ret ERRNO(EINVAL)
		{Code: 0x06, K: 0x7fff0000},               // ret ALLOW
	}
	fprog := syscall.SockFprog{Len: uint16(len(prog)), Filter: &prog[0]}
	if _, _, e := syscall.RawSyscall(317 /* seccomp */, 1 /* SET_MODE_FILTER */, 1 /* TSYNC */, uintptr(unsafe.Pointer(&fprog))); e != 0 {
		return e
	}
	return nil
}

// BlockSeccompAllThreads does what BlockSeccompSyscall does for every thread of the process (thread-sync), so that a goroutine
// meets the enclosing filter whichever thread it runs on: to the process, seccomp(2) does not exist.
func BlockSeccompAllThreads() error {
	if _, _, e := syscall.RawSyscall6(syscall.SYS_PRCTL, 38 /* PR_SET_NO_NEW_PRIVS */, 1, 0, 0, 0, 0); e != 0 {
		return e
	}
	prog := []syscall.SockFilter{
		{Code: 0x20, K: 0},
		{Code: 0x15, Jt: 0, Jf: 1, K: 317},
		{Code: 0x06, K: 0x00050000 | 38},
		{Code: 0x06, K: 0x7fff0000},
	}
	fprog := syscall.SockFprog{Len: uint16(len(prog)), Filter: &prog[0]}
	if _, _, e := syscall.RawSyscall(317 /* seccomp */, 1 /* SET_MODE_FILTER */, 1 /* TSYNC */, uintptr(unsafe.Pointer(&fprog))); e != 0 {
		return e
	}
	return nil
}

// DenyPrctlSyscall installs, on the calling thread only and without the library under test, a filter that answers
// prctl(2) with ERRNO(EPERM) and allows everything else. A privileged caller installs it as it is (no_new_privs stays
// clear); an unprivileged one has to set no_new_privs first.
func DenyPrctlSyscall(setNNP bool) error {
	if setNNP {
		if _, _, e := syscall.RawSyscall6(syscall.SYS_PRCTL, 38 /* PR_SET_NO_NEW_PRIVS */, 1, 0, 0, 0, 0); e != 0 {
			return e
		}
	}
	prog := []syscall.SockFilter{
		{Code: 0x20, K: 0},                 // ld nr
		{Code: 0x15, Jt: 0, Jf: 1, K: 157}, // jeq __NR_prctl (x86_64)
		{Code: 0x06, K: 0x00050000 | 1},    // ret ERRNO(EPERM)
		{Code: 0x06, K: 0x7fff0000},        // ret ALLOW
	}
	fprog := syscall.SockFprog{Len: uint16(len(prog)), Filter: &prog[0]}
	if _, _, e := syscall.RawSyscall6(syscall.SYS_PRCTL, 22 /* PR_SET_SECCOMP */, 2 /* SECCOMP_MODE_FILTER */, uintptr(unsafe.Pointer(&fprog)), 0, 0, 0); e != 0 {
		return e
	}
	return nil
}

func Gettid() int {
	r, _, _ := syscall.RawSyscall(syscall.SYS_GETTID, 0, 0, 0)
	return int(r)
}

// MigrateAway tries to make the calling goroutine resume on another OS thread: a helper goroutine wires itself to the
// current thread and keeps it. It has no effect on a goroutine that is itself wired to its thread (runtime.LockOSThread).
func MigrateAway() bool {
	old := Gettid()
	for try := 0; try < 20; try++ {
		got := make(chan bool)
		go func() {
			runtime.LockOSThread()
			ok := Gettid() == old
			got <- ok
			if ok {
				select {}
			}
			runtime.UnlockOSThread()
		}()
		<-got
		if Gettid() != old {
			return true
		}
	}
	return false
}

type Status struct {
	Tid     int `json:"tid"`
	Seccomp int `json:"seccomp"`
	Filters int `json:"filters"`
	NNP     int `json:"nnp"`
}

// procFD: a descriptor of /proc taken before Jail changed the root (-1: the path /proc is used).
var procFD = -1

// Jail changes the root of the process to an empty directory: no /proc, no /dev, no files at all - what a service that
// confines itself sees. The harness keeps a descriptor of /proc for its own observations; the code under test gets nothing.
func Jail(dir string) error {
	fd, err := syscall.Open("/proc", syscall.O_RDONLY|syscall.O_DIRECTORY|syscall.O_CLOEXEC, 0)
	if err != nil {
		return err
	}
	if err := syscall.Chroot(dir); err != nil {
		return err
	}
	procFD = fd
	return syscall.Chdir("/")
}

func openProc(rel string) (*os.File, error) {
	if procFD < 0 {
		return os.Open("/proc/" + rel)
	}
	fd, err := syscall.Openat(procFD, rel, syscall.O_RDONLY|syscall.O_CLOEXEC, 0)
	if err != nil {
		return nil, err
	}
	return os.NewFile(uintptr(fd), "/proc/"+rel), nil
}

// ReadStatus reads Seccomp, Seccomp_filters and NoNewPrivs of a thread.
func ReadStatus(tid int) (Status, error) {
	st := Status{Tid: tid, Seccomp: -1, Filters: -1, NNP: -1}
	f, err := openProc(fmt.Sprintf("self/task/%d/status", tid))
	if err != nil {
		return st, err
	}
	defer f.Close()
	sc := bufio.NewScanner(f)
	for sc.Scan() {
		line := sc.Text()
		get := func(prefix string, dst *int) {
			if strings.HasPrefix(line, prefix) {
				v, _ := strconv.Atoi(strings.TrimSpace(line[len(prefix):]))
				*dst = v
			}
		}
		get("Seccomp:", &st.Seccomp)
		get("Seccomp_filters:", &st.Filters)
		get("NoNewPrivs:", &st.NNP)
	}
	return st, sc.Err()
}

// Tasks lists the thread ids of the process.
func Tasks() ([]int, error) {
	d, err := openProc("self/task")
	if err != nil {
		return nil, err
	}
	ents, err := d.ReadDir(-1)
	d.Close()
	if err != nil {
		return nil, err
	}
	var out []int
	for _, e := range ents {
		if v, err := strconv.Atoi(e.Name()); err == nil {
			out = append(out, v)
		}
	}
	return out, nil
}
