// Package watch bounds calls into the library under test. "Terminates" (C16) and "is accepted / returns an error" (C07) are
// statements about calls that return; a call that does not return is neither. Do runs f on a goroutine of its own; if f has not
// returned after `first`, it is run once more, from scratch, with the limit `second`: only a call that exceeds both limits is
// reported as not terminating (the limits are four orders of magnitude above what the calls take, and the second run tells a
// hanging call from a machine that was busy once). A goroutine that hangs cannot be stopped; after MaxHangs confirmed hangs
// Stop is set and the harnesses' case loops end early, so that the run ends with what it found instead of running into the
// driver's time limit.
package watch

import (
	"fmt"
	"sync/atomic"
	"time"
)

// Hang is what a wrapper returns in place of a recovered panic value when the call did not return.
type Hang string

const MaxHangs = 3

var (
	hangs int32
	// First and Second are the two limits.
	First  = 20 * time.Second
	Second = 60 * time.Second
)

// Stop reports whether MaxHangs calls have been found hanging.
func Stop() bool { return atomic.LoadInt32(&hangs) >= MaxHangs }

// Hangs is the number of confirmed hangs so far.
func Hangs() int { return int(atomic.LoadInt32(&hangs)) }

func once[T any](limit time.Duration, f func() T) (T, bool) {
	ch := make(chan T, 1)
	go func() { ch <- f() }()
	t := time.NewTimer(limit)
	defer t.Stop()
	select {
	case v := <-ch:
		return v, false
	case <-t.C:
		var zero T
		return zero, true
	}
}

// Do returns f's result, or hung = true and a description if two runs of f both exceeded their limits.
func Do[T any](f func() T) (v T, hung Hang) {
	v, late := once(First, f)
	if !late {
		return v, ""
	}
	v, late = once(Second, f)
	if !late {
		return v, ""
	}
	atomic.AddInt32(&hangs, 1)
	return v, Hang(fmt.Sprintf("the call did not return within %v, and a second call from scratch not within %v", First, Second))
}

// Text renders what a wrapper recovered: a panic value or a Hang.
func Text(p interface{}) string {
	if h, ok := p.(Hang); ok {
		return "does not terminate: " + string(h)
	}
	return fmt.Sprint("panic: ", p)
}
