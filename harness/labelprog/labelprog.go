// Package labelprog holds the harness's notion of a label-level program (the
// input of the public builder of assembler.go) and the oracle of C06: the
// assembled instruction list must be path-equivalent to the label program.
//
// Equivalence is decided on the unfoldings of the two programs. Conditions
// are uninterpreted (every original jump carries a unique operand), so two
// programs behave identically on every input iff their unfoldings from
// instruction 0 are the same tree, where
//
//	ret v            -> Leaf(v)
//	ld off           -> Node(ld, off, next)
//	jif c v (t, f)   -> Node(c, v, unfold(t), unfold(f))
//	ja k             -> unfold(target)           (bridges are transparent)
//
// Trees are hash-consed bottom-up so that the comparison is linear.
package labelprog

import (
	"fmt"

	"golang.org/x/net/bpf"
)

// Inst is one label-level instruction. Targets are 0-based indices of later
// instructions.
type Inst struct {
	K string `json:"k"` // "ld", "ret", "jif"
	V uint32 `json:"v"` // ld: word slot 4..15; ret: abstract value
	T int    `json:"t"` // jif: true target
	F int    `json:"f"` // jif: false target
}

type key struct {
	kind    int
	a, b    uint32
	t, f    int
	cond    bpf.JumpTest
	hasCond bool
}

// Interner hash-conses unfolding trees; ids are comparable across programs
// interned by the same Interner.
type Interner struct {
	ids map[key]int
}

func NewInterner() *Interner { return &Interner{ids: map[key]int{}} }

func (in *Interner) id(k key) int {
	if v, ok := in.ids[k]; ok {
		return v
	}
	v := len(in.ids) + 1
	in.ids[k] = v
	return v
}

// canonical (cond, operand, swap) so that "jne x: t,f" equals "jeq x: f,t" etc.
func canon(c bpf.JumpTest) (bpf.JumpTest, bool) {
	switch c {
	case bpf.JumpNotEqual:
		return bpf.JumpEqual, true
	case bpf.JumpLessThan:
		return bpf.JumpGreaterOrEqual, true
	case bpf.JumpLessOrEqual:
		return bpf.JumpGreaterThan, true
	case bpf.JumpBitsNotSet:
		return bpf.JumpBitsSet, true
	}
	return c, false
}

// Jump describes how a label-level jump is realised through the builder.
type Jump struct {
	Cond bpf.JumpTest
	Val  uint32
}

// UnfoldLabel returns the class id of every instruction of the label program.
// jumpOf gives condition and operand of the jump at original index i; retOf
// the concrete return value of the ret at index i; offOf the load offset.
func (in *Interner) UnfoldLabel(p []Inst, jumpOf func(i int) Jump, retOf func(i int) uint32, offOf func(i int) uint32) ([]int, error) {
	cls := make([]int, len(p)+1)
	for i := len(p) - 1; i >= 0; i-- {
		x := p[i]
		switch x.K {
		case "ret":
			cls[i] = in.id(key{kind: 1, a: retOf(i)})
		case "ld":
			if i+1 >= len(p) {
				return nil, fmt.Errorf("label program falls off the end at %d", i)
			}
			cls[i] = in.id(key{kind: 2, a: offOf(i), t: cls[i+1]})
		case "jif":
			if x.T <= i || x.F <= i || x.T >= len(p) || x.F >= len(p) {
				return nil, fmt.Errorf("label program: jump %d has a non-forward or out-of-range target", i)
			}
			j := jumpOf(i)
			c, swap := canon(j.Cond)
			t, f := cls[x.T], cls[x.F]
			if swap {
				t, f = f, t
			}
			cls[i] = in.id(key{kind: 3, cond: c, hasCond: true, a: j.Val, t: t, f: f})
		default:
			return nil, fmt.Errorf("label program: unknown kind %q", x.K)
		}
	}
	return cls, nil
}

// UnfoldOut returns the class id of every instruction of an assembled program.
func (in *Interner) UnfoldOut(out []bpf.Instruction) ([]int, error) {
	cls := make([]int, len(out))
	get := func(i, from int) (int, error) {
		if i <= from || i >= len(out) {
			return 0, fmt.Errorf("instruction %d continues at %d, outside (%d, %d)", from, i, from, len(out))
		}
		return cls[i], nil
	}
	for i := len(out) - 1; i >= 0; i-- {
		switch x := out[i].(type) {
		case bpf.RetConstant:
			cls[i] = in.id(key{kind: 1, a: x.Val})
		case bpf.LoadAbsolute:
			n, err := get(i+1, i)
			if err != nil {
				return nil, err
			}
			cls[i] = in.id(key{kind: 2, a: x.Off, t: n})
		case bpf.Jump:
			n, err := get(i+1+int(x.Skip), i)
			if err != nil {
				return nil, err
			}
			cls[i] = n
		case bpf.JumpIf:
			t, err := get(i+1+int(x.SkipTrue), i)
			if err != nil {
				return nil, err
			}
			f, err := get(i+1+int(x.SkipFalse), i)
			if err != nil {
				return nil, err
			}
			c, swap := canon(x.Cond)
			if swap {
				t, f = f, t
			}
			cls[i] = in.id(key{kind: 3, cond: c, hasCond: true, a: x.Val, t: t, f: f})
		default:
			return nil, fmt.Errorf("instruction %d has unexpected type %T", i, out[i])
		}
	}
	return cls, nil
}
