// histreplay replays histories of library calls exported from Hist.tla (HistGen) on the real library: one fresh process per
// history, every call's outcome compared with the outcome of the same call made as the only call of a fresh, ordinary
// process (Hist!Fresh), plus what the statements say about the call directly:
//
//	compile / text   the outcome is the fresh one (C13: equal policies compile to identical programs across calls and
//	                 processes; the text form is a function of the value)
//	resolve          a name is known or unknown to a table whatever was resolved before (C13)
//	load             every program hook H2 sees is the program the policy compiles to in a fresh process (C08), the flag
//	                 word is the caller's (C10), the thread's no_new_privs bit afterwards is what was requested (C11; the
//	                 thread is wired, created before any load and carries nothing)
//	getinfo / table  the answer is the fresh one, and an entry of the name table maps back (C12)
//	parse            a name parses to the same value, and a word that is no name is rejected, whatever was parsed before (C14)
//	dump             compared as well, reported as a note (no statement speaks about Dump)
//
// A history runs in a process that is ordinary, "bare" (root changed to an empty directory before the first call) or
// "noseccomp" (every thread under an enclosing filter that answers seccomp(2) with ENOSYS).
package main

import (
	"bytes"
	"crypto/sha256"
	"encoding/json"
	"flag"
	"fmt"
	"os"
	"os/exec"
	"runtime"
	"sync"
	"syscall"

	seccomp "github.com/elastic/go-seccomp-bpf"
	"github.com/elastic/go-seccomp-bpf/arch"
	"golang.org/x/net/bpf"

	"verifharness/probe"
	"verifharness/watch"
)

type pol struct {
	Shape string `json:"shape"`
	Act   string `json:"act"`
	Val   uint64 `json:"val"`
}

type call struct {
	Op   string `json:"op"`
	Pol  *pol   `json:"pol,omitempty"`
	Pol2 *pol   `json:"pol2,omitempty"`
	Arch string `json:"arch,omitempty"`
	NNP  bool   `json:"nnp,omitempty"`
	Name string `json:"name,omitempty"`
	Act  string `json:"act,omitempty"`
	Text string `json:"text,omitempty"`
}

type outcome struct {
	Out   string   `json:"out"`             // what is compared with the fresh outcome
	Progs []string `json:"progs,omitempty"` // load: digests of the programs hook H2 saw
	Flags []uint32 `json:"flags,omitempty"` // load: the flag words hook H2 saw
	NNP   int      `json:"nnp"`             // load: the thread's no_new_privs bit afterwards
	NNP0  int      `json:"nnp_before"`      // load: ... and before the call
	Back  string   `json:"back,omitempty"`  // table: what the number found maps back to
}

type job struct {
	Bare  string `json:"bare"`  // directory to change the root to, "" for an ordinary process
	Block bool   `json:"block"` // every thread under an enclosing filter that answers seccomp(2) with ENOSYS
	Calls []call `json:"calls"`
}

func action(s string) seccomp.Action {
	switch s {
	case "errno":
		return seccomp.ActionErrno
	case "errno|1":
		return seccomp.ActionErrno | 1
	case "errno|2":
		return seccomp.ActionErrno | 2
	case "trace|1":
		return seccomp.ActionTrace | 1
	case "trace|2":
		return seccomp.ActionTrace | 2
	case "log":
		return seccomp.ActionLog
	}
	panic("action " + s)
}

func info(s string) *arch.Info {
	if s == "aarch64" {
		return arch.AARCH64
	}
	return arch.X86_64
}

// policy concretises an abstract policy value. Policies that are LOADED name harmless probe syscalls only (the process goes on
// working under them); compiled ones use everyday names.
func policy(p *pol, load bool) seccomp.Policy {
	n1, n2, n3, n4 := "read", "write", "ioctl", "close"
	if load {
		n1, n2, n3, n4 = probe.Syscalls[0].Name, probe.Syscalls[1].Name, probe.Syscalls[2].Name, probe.Syscalls[3].Name
	}
	g := seccomp.SyscallGroup{Action: action(p.Act)}
	if p.Shape == "names" {
		g.Names = []string{n1, n2}
	} else {
		g.NamesWithCondtions = []seccomp.NameWithConditions{{Name: n3, Conditions: []seccomp.Condition{{Argument: 1, Operation: seccomp.Equal, Value: p.Val}}}}
	}
	second := seccomp.SyscallGroup{Action: seccomp.ActionErrno | 7, Names: []string{n4}}
	if p.Shape == "names" && p.Val == 8 {
		second.Names = append(second.Names, n3)
	}
	return seccomp.Policy{DefaultAction: seccomp.ActionAllow, Syscalls: []seccomp.SyscallGroup{g, second}}
}

func digest(b []byte) string { return fmt.Sprintf("%x", sha256.Sum256(b))[:16] }

func compileDigest(p *seccomp.Policy) string {
	type r struct{ s string }
	x, hung := watch.Do(func() (x r) {
		defer func() {
			if e := recover(); e != nil {
				x.s = fmt.Sprint("panic: ", e)
			}
		}()
		insts, err := p.Assemble()
		if err != nil {
			return r{"err: " + err.Error()}
		}
		raw, err := bpf.Assemble(insts)
		if err != nil {
			return r{"err: " + err.Error()}
		}
		var b bytes.Buffer
		for _, i := range raw {
			fmt.Fprintf(&b, "%04x %02x %02x %08x\n", i.Op, i.Jt, i.Jf, i.K)
		}
		return r{fmt.Sprintf("%d instructions %s", len(raw), digest(b.Bytes()))}
	})
	if hung != "" {
		return "hang: " + string(hung)
	}
	return x.s
}

type thread struct{ cmds chan func() }

func newThread() *thread {
	t := &thread{cmds: make(chan func())}
	ready := make(chan struct{})
	go func() {
		runtime.LockOSThread()
		close(ready)
		for f := range t.cmds {
			f()
		}
		select {}
	}()
	<-ready
	return t
}

func (t *thread) do(f func()) {
	var wg sync.WaitGroup
	wg.Add(1)
	t.cmds <- func() { defer wg.Done(); f() }
	wg.Wait()
}

func child() {
	var j job
	if err := json.NewDecoder(os.Stdin).Decode(&j); err != nil {
		fmt.Fprintln(os.Stderr, err)
		os.Exit(3)
	}
	// the threads the loads run on exist before the first call into the library: a thread created later could inherit
	// what an earlier load left on its creator
	var threads []*thread
	for _, c := range j.Calls {
		if c.Op == "load" {
			threads = append(threads, newThread())
		}
	}
	if j.Bare != "" {
		if err := syscall.Chroot(j.Bare); err != nil {
			fmt.Fprintln(os.Stderr, "chroot:", err)
			os.Exit(3)
		}
		os.Chdir("/")
	}
	if j.Block {
		if err := probe.BlockSeccompAllThreads(); err != nil {
			fmt.Fprintln(os.Stderr, "block:", err)
			os.Exit(3)
		}
	}
	var outs []outcome
	for _, c := range j.Calls {
		var o outcome
		switch c.Op {
		case "recompile":
			// ONE value: compiled while it holds Pol, its exported fields rewritten to Pol2 (as unpacking a configuration into it
			// again does), compiled again
			p := policy(c.Pol, false)
			seccomp.VerifSetArch(&p, info(c.Arch))
			compileDigest(&p)
			q := policy(c.Pol2, false)
			p.DefaultAction, p.Syscalls = q.DefaultAction, q.Syscalls
			o.Out = compileDigest(&p)
		case "compile":
			p := policy(c.Pol, false)
			seccomp.VerifSetArch(&p, info(c.Arch))
			o.Out = compileDigest(&p)
		case "dump":
			p := policy(c.Pol, false)
			seccomp.VerifSetArch(&p, info(c.Arch))
			var b bytes.Buffer
			func() {
				defer func() {
					if e := recover(); e != nil {
						fmt.Fprint(&b, "panic: ", e)
					}
				}()
				if err := p.Dump(&b); err != nil {
					fmt.Fprint(&b, "err: ", err)
				}
			}()
			o.Out = digest(b.Bytes())
		case "load":
			t := threads[0]
			threads = threads[1:]
			cc := c
			t.do(func() {
				seccomp.VerifBeforeInstall = func(prog []syscall.SockFilter, flags seccomp.FilterFlag) {
					var b bytes.Buffer
					for _, i := range prog {
						fmt.Fprintf(&b, "%04x %02x %02x %08x\n", i.Code, i.Jt, i.Jf, i.K)
					}
					o.Progs = append(o.Progs, fmt.Sprintf("%d instructions %s", len(prog), digest(b.Bytes())))
					o.Flags = append(o.Flags, uint32(flags))
				}
				r0, _, _ := syscall.RawSyscall6(syscall.SYS_PRCTL, 39 /* PR_GET_NO_NEW_PRIVS */, 0, 0, 0, 0, 0)
				o.NNP0 = int(r0)
				err := seccomp.LoadFilter(seccomp.Filter{NoNewPrivs: cc.NNP, Policy: policy(cc.Pol, true)})
				seccomp.VerifBeforeInstall = nil
				if err != nil {
					o.Out = "err: " + err.Error()
				} else {
					o.Out = "nil"
				}
				r, _, _ := syscall.RawSyscall6(syscall.SYS_PRCTL, 39 /* PR_GET_NO_NEW_PRIVS */, 0, 0, 0, 0, 0)
				o.NNP = int(r)
			})
		case "getinfo":
			func() {
				defer func() {
					if e := recover(); e != nil {
						o.Out = fmt.Sprint("panic: ", e)
					}
				}()
				i, err := arch.GetInfo(c.Name)
				if err != nil {
					o.Out = "err"
				} else {
					o.Out = i.Name
				}
			}()
		case "resolve":
			p := seccomp.Policy{DefaultAction: seccomp.ActionAllow, Syscalls: []seccomp.SyscallGroup{{Action: seccomp.ActionErrno, Names: []string{c.Name}}}}
			seccomp.VerifSetArch(&p, info(c.Arch))
			d := compileDigest(&p)
			if len(d) > 4 && d[:4] == "err:" {
				o.Out = "unknown"
			} else {
				o.Out = "resolved: " + d
			}
		case "table":
			a := info(c.Arch)
			if n, ok := a.SyscallNames[c.Name]; ok {
				o.Out = fmt.Sprint("number ", n)
				o.Back = a.SyscallNumbers[n]
			} else {
				o.Out = "absent"
			}
		case "text":
			a := action(c.Act)
			t, err := a.MarshalText()
			o.Out = fmt.Sprintf("%s / %s / %v", a.String(), t, err)
		case "parse":
			var a seccomp.Action
			var op seccomp.Operation
			ea, eo := a.Unpack(c.Text), op.Unpack(c.Text)
			o.Out = fmt.Sprintf("action %#x (%v) / operation %q (%v)", uint32(a), ea != nil, string(op), eo != nil)
		default:
			fmt.Fprintln(os.Stderr, "unknown op", c.Op)
			os.Exit(3)
		}
		outs = append(outs, o)
	}
	json.NewEncoder(os.Stdout).Encode(outs)
	os.Exit(0)
}

type finding struct {
	Kind     string    `json:"kind"` // compile | text | resolve | installed | flags | nnp | getinfo | table | dump (note)
	Why      string    `json:"why"`
	Bare     bool      `json:"bare"`
	History  []call    `json:"history"`
	Index    int       `json:"index"`
	Observed []outcome `json:"observed"`
	Fresh    *outcome  `json:"fresh"`
}

func run(self string, j job) ([]outcome, error) {
	cmd := exec.Command(self, "-child")
	in, _ := json.Marshal(j)
	cmd.Stdin = bytes.NewReader(in)
	var errb bytes.Buffer
	cmd.Stderr = &errb
	cmd.Env = []string{"GODEBUG=asyncpreemptoff=1"}
	out, err := cmd.Output()
	if err != nil {
		return nil, fmt.Errorf("%v: %s", err, errb.String())
	}
	var outs []outcome
	if err := json.Unmarshal(out, &outs); err != nil {
		return nil, err
	}
	if len(outs) != len(j.Calls) {
		return nil, fmt.Errorf("short output")
	}
	return outs, nil
}

func key(c call) string { b, _ := json.Marshal(c); return string(b) }

func main() {
	isChild := flag.Bool("child", false, "")
	in := flag.String("in", "", "JSON file: list of histories (lists of calls)")
	bare := flag.String("bare", "", "empty directory: every third history runs in a process whose root it is")
	block := flag.Bool("blockseccomp", false, "every third history runs in a process whose seccomp(2) calls are answered with ENOSYS")
	out := flag.String("out", "", "findings (ndjson)")
	workers := flag.Int("workers", 12, "")
	flag.Parse()
	if *isChild {
		child()
		return
	}
	self, _ := os.Executable()
	var hists [][]call
	b, err := os.ReadFile(*in)
	if err == nil {
		err = json.Unmarshal(b, &hists)
	}
	if err != nil {
		fmt.Fprintln(os.Stderr, err)
		os.Exit(2)
	}
	// Hist!Fresh: every distinct call as the only call of a fresh ordinary process
	fresh := map[string]outcome{}
	for _, h := range hists {
		for _, c := range h {
			k := key(c)
			if _, ok := fresh[k]; ok {
				continue
			}
			fc := c
			if c.Op == "recompile" {
				// Hist!Fresh: what a fresh value holding the new content compiles to
				fc = call{Op: "compile", Pol: c.Pol2, Arch: c.Arch}
			}
			o, err := run(self, job{Calls: []call{fc}})
			if err != nil {
				fmt.Fprintln(os.Stderr, "fresh call failed:", k, err)
				os.Exit(2)
			}
			fresh[k] = o[0]
		}
	}
	of, err := os.Create(*out)
	if err != nil {
		fmt.Fprintln(os.Stderr, err)
		os.Exit(2)
	}
	enc := json.NewEncoder(of)
	var mu sync.Mutex
	sum := struct {
		Histories int            `json:"histories"`
		Bare      int            `json:"histories_in_a_process_without_a_file_system"`
		Blocked   int            `json:"histories_in_a_process_whose_seccomp_call_is_answered_ENOSYS"`
		Calls     int            `json:"calls"`
		Distinct  int            `json:"distinct_calls"`
		Failed    int            `json:"children_failed"`
		Findings  map[string]int `json:"findings"`
		Loads     int            `json:"loads"`
	}{Findings: map[string]int{}, Distinct: len(fresh)}
	report := func(f finding) {
		mu.Lock()
		sum.Findings[f.Kind]++
		if sum.Findings[f.Kind] <= 5 {
			enc.Encode(f)
		}
		mu.Unlock()
	}
	sem := make(chan struct{}, *workers)
	var wg sync.WaitGroup
	for hi, h := range hists {
		hi, h := hi, h
		wg.Add(1)
		sem <- struct{}{}
		go func() {
			defer func() { <-sem; wg.Done() }()
			j := job{Calls: h}
			if *bare != "" && hi%3 == 2 {
				j.Bare = *bare
			}
			if *block && hi%3 == 1 {
				j.Block = true
			}
			outs, err := run(self, j)
			mu.Lock()
			sum.Histories++
			sum.Calls += len(h)
			if j.Bare != "" {
				sum.Bare++
			}
			if j.Block {
				sum.Blocked++
			}
			if err != nil {
				sum.Failed++
				if sum.Failed <= 3 {
					fmt.Fprintln(os.Stderr, "child failed:", err)
				}
			}
			mu.Unlock()
			if err != nil {
				return
			}
			for i, c := range h {
				o, f := outs[i], fresh[key(c)]
				mk := func(kind, why string) finding {
					return finding{Kind: kind, Why: why, Bare: j.Bare != "", History: h, Index: i, Observed: outs, Fresh: &f}
				}
				switch c.Op {
				case "compile", "recompile", "text", "resolve", "getinfo", "dump", "parse":
					if o.Out != f.Out {
						kind := c.Op
						if kind == "recompile" {
							kind = "compile"
						}
						report(mk(kind, fmt.Sprintf("call %d of the history (%s) gives %q; as the only call of a fresh process it gives %q", i+1, key(c), o.Out, f.Out)))
					}
				case "table":
					if o.Out != f.Out {
						report(mk("table", fmt.Sprintf("call %d of the history (%s) gives %q; in a fresh process %q", i+1, key(c), o.Out, f.Out)))
					} else if o.Out != "absent" && o.Back != c.Name {
						report(mk("table", fmt.Sprintf("%s: the name %q has %s, which maps back to %q", c.Arch, c.Name, o.Out, o.Back)))
					}
				case "load":
					mu.Lock()
					sum.Loads++
					mu.Unlock()
					// what the policy compiles to in a fresh process (native table): the fresh outcome of the load's own H2
					want := ""
					if len(f.Progs) == 1 {
						want = f.Progs[0]
					}
					for n, p := range o.Progs {
						if want != "" && p != want {
							report(mk("installed", fmt.Sprintf("call %d of the history (%s): installation %d hands the kernel %s; the first load of a fresh process hands it %s", i+1, key(c), n+1, p, want)))
						}
					}
					for _, fl := range o.Flags {
						if fl != 0 {
							report(mk("flags", fmt.Sprintf("call %d of the history: flag word %#x for a load that asked for none", i+1, fl)))
						}
					}
					if c.NNP && len(o.Progs) > 0 && o.NNP != 1 {
						report(mk("nnp", fmt.Sprintf("call %d of the history (%s): NoNewPrivs requested, the filter reached the kernel, the installing thread does not carry the bit", i+1, key(c))))
					}
					if !c.NNP && o.NNP != o.NNP0 {
						report(mk("nnp", fmt.Sprintf("call %d of the history (%s): NoNewPrivs not requested, the thread's bit was %d before the call and is %d now", i+1, key(c), o.NNP0, o.NNP)))
					}
				}
			}
		}()
	}
	wg.Wait()
	of.Close()
	json.NewEncoder(os.Stdout).Encode(sum)
}
