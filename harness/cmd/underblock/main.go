// underblock starts a command under an enclosing seccomp filter that answers the seccomp(2) system call itself with
// ERRNO(ENOSYS) and allows everything else (what a container profile that predates seccomp(2) does): no_new_privs is set,
// the filter is installed on this thread with prctl(PR_SET_SECCOMP) - not through the library under test - and the
// command is exec'd in place, so that it inherits both (C15: the sandbox command in an environment where the kernel
// refuses its filter).
package main

import (
	"fmt"
	"os"
	"os/exec"
	"runtime"
	"syscall"

	"verifharness/probe"
)

func main() {
	if len(os.Args) < 2 {
		fmt.Fprintln(os.Stderr, "usage: underblock command [args]")
		os.Exit(3)
	}
	path, err := exec.LookPath(os.Args[1])
	if err != nil {
		fmt.Fprintln(os.Stderr, err)
		os.Exit(3)
	}
	runtime.LockOSThread()
	if err := probe.BlockSeccompSyscall(); err != nil {
		fmt.Fprintln(os.Stderr, "block:", err)
		os.Exit(3)
	}
	if err := syscall.Exec(path, os.Args[1:], os.Environ()); err != nil {
		fmt.Fprintln(os.Stderr, "exec:", err)
		os.Exit(3)
	}
}
