// polkernel replays policy cases exported by TLC on the RUNNING KERNEL (C08):
// every case is concretised over the harmless probe syscalls of x86_64,
// installed in a fresh child process through the real LoadFilter, and the
// child then issues raw probe syscalls with arbitrary 64-bit register values.
// Expected observations come from the specification's Decide and KernelObserves (exported in the case file's header):
//
//	errno:N      the probe returns errno N (allow / log / trace / user_notif: the probe's own result, ENOSYS; errno: EPERM or its data bits)
//	killed       the child is killed by SIGSYS at that probe (kill_process, values the kernel has no case for)
//	sigsys       SIGSYS is delivered to the thread (trap): the Go runtime of the child reports it and exits with status 2
//	thread-gone  the probing thread ends at that probe, the process lives on (kill_thread): seen by the parent in /proc
//
// Hook H2 captures the sock_filter program and the flags word at the moment
// of installation; they must equal, instruction for instruction and in
// length, what Policy.Assemble + bpf.Assemble produce for the same policy.
//
// Results travel through a MAP_SHARED file mapped before the load, so that a
// restrictive default action cannot block reporting.
package main

import (
	"bufio"
	"encoding/binary"
	"encoding/json"
	"flag"
	"fmt"
	"io"
	"math/rand"
	"os"
	"os/exec"
	"runtime"
	"strconv"
	"strings"
	"sync"
	"syscall"
	"time"
	"unsafe"

	seccomp "github.com/elastic/go-seccomp-bpf"
	"github.com/elastic/go-seccomp-bpf/arch"
	"golang.org/x/net/bpf"

	"verifharness/polcase"
	"verifharness/probe"
)

// ---- job exchanged between parent and child

type probeJob struct {
	Nr       uint32    `json:"nr"`
	Args     [6]uint64 `json:"args"`
	Expect   string    `json:"expect"` // Compile!KernelObserves: errno:N | killed | sigsys | thread-gone
	Abstract string    `json:"abstract"`
	Decision string    `json:"decision"`
}

type job struct {
	// Restrictive: the default action denies the Go runtime's own system calls too, so the child may be brought down by its
	// runtime at any moment after the install (a denied futex wake-up crashes the process). Missing results are then
	// inconclusive; results that did arrive are judged as usual.
	Restrictive bool            `json:"restrictive"`
	Policy      json.RawMessage `json:"policy"`
	// Prior: the Policy value that is loaded held this other policy first and was compiled and dumped in that state; the
	// caller then rewrote its exported fields to `Policy`. What is installed must be the policy the value holds at the load.
	Prior json.RawMessage `json:"prior,omitempty"`
	// Divergent: another thread of the child carries a private filter (loaded without thread-sync) when the policy is loaded
	// WITH thread-sync: the kernel attaches nothing, so either LoadFilter reports an error (not judged here) or, if it claims
	// success, the probes must still see the policy's decisions
	Divergent bool       `json:"divergent,omitempty"`
	// OtherThread (thread-sync loads only): the probes are issued by a wired thread that existed before the load and is not the
	// one that loads - after a successful thread-sync load the policy decides for the process, whichever thread asks
	OtherThread bool `json:"other_thread,omitempty"`
	// BlockSeccomp: the loading thread runs under an enclosing filter that answers seccomp(2) itself with ENOSYS (a container
	// profile, a kernel before 3.17): the load fails (not judged) - or, if it claims success, the probes must see the policy
	BlockSeccomp bool `json:"block_seccomp,omitempty"`
	Flags     uint32     `json:"flags"`
	NNP       bool       `json:"nnp"`
	Probes    []probeJob `json:"probes"`
	Shm       string     `json:"shm"`
}

// shared page layout (uint32 words):
// 0 stage (1 mapped, 2 loaded, 3 probes done) 1 load result (1 nil, 2 err) 2 hook flags 3 hook len
// 4 hook program equals own compilation (1 yes, 2 no) 5 own len  16.. one word per probe: 0x10000|errno
const shmWords = 16 + 4096

type concPolicy struct {
	Default uint32 `json:"default_action"`
	Groups  []struct {
		Names []string `json:"names"`
		NWC   []struct {
			Name       string `json:"name"`
			Conditions []struct {
				Argument  uint32 `json:"argument"`
				Operation string `json:"operation"`
				Value     uint64 `json:"value"`
			} `json:"arguments"`
		} `json:"names_with_args"`
		Action uint32 `json:"action"`
	} `json:"syscalls"`
}

func buildPolicy(raw json.RawMessage) (seccomp.Policy, error) {
	var cp concPolicy
	if err := json.Unmarshal(raw, &cp); err != nil {
		return seccomp.Policy{}, err
	}
	pol := seccomp.Policy{DefaultAction: seccomp.Action(cp.Default)}
	for _, g := range cp.Groups {
		sg := seccomp.SyscallGroup{Names: g.Names, Action: seccomp.Action(g.Action)}
		for _, n := range g.NWC {
			nc := seccomp.NameWithConditions{Name: n.Name}
			for _, c := range n.Conditions {
				nc.Conditions = append(nc.Conditions, seccomp.Condition{Argument: c.Argument, Operation: seccomp.Operation(c.Operation), Value: c.Value})
			}
			sg.NamesWithCondtions = append(sg.NamesWithCondtions, nc)
		}
		pol.Syscalls = append(pol.Syscalls, sg)
	}
	return pol, nil
}

func child() {
	var j job
	if err := json.NewDecoder(os.Stdin).Decode(&j); err != nil {
		fmt.Fprintln(os.Stderr, "job:", err)
		os.Exit(3)
	}
	runtime.LockOSThread()
	f, err := os.OpenFile(j.Shm, os.O_RDWR, 0)
	if err != nil {
		fmt.Fprintln(os.Stderr, err)
		os.Exit(3)
	}
	mem, err := syscall.Mmap(int(f.Fd()), 0, shmWords*4, syscall.PROT_READ|syscall.PROT_WRITE, syscall.MAP_SHARED)
	if err != nil {
		fmt.Fprintln(os.Stderr, "mmap:", err)
		os.Exit(3)
	}
	w := (*[shmWords]uint32)(unsafe.Pointer(&mem[0]))
	w[0] = 1
	pol, err := buildPolicy(j.Policy)
	if err != nil {
		fmt.Fprintln(os.Stderr, err)
		os.Exit(3)
	}
	if len(j.Prior) > 0 {
		now := pol
		if pol, err = buildPolicy(j.Prior); err != nil {
			fmt.Fprintln(os.Stderr, err)
			os.Exit(3)
		}
		pol.Assemble()
		pol.Dump(io.Discard)
		pol.DefaultAction, pol.Syscalls = now.DefaultAction, now.Syscalls
	}
	ownPol, _ := buildPolicy(j.Policy)
	var own []bpf.RawInstruction
	if insts, err := ownPol.Assemble(); err == nil {
		own, _ = bpf.Assemble(insts)
	}
	w[5] = uint32(len(own))
	if j.Divergent {
		dd := make(chan error)
		go func() {
			runtime.LockOSThread()
			dd <- seccomp.LoadFilter(seccomp.Filter{NoNewPrivs: true, Policy: seccomp.Policy{DefaultAction: seccomp.ActionAllow,
				Syscalls: []seccomp.SyscallGroup{{Action: seccomp.ActionErrno, Names: []string{probe.Syscalls[len(probe.Syscalls)-1].Name}}}}})
			select {}
		}()
		if err := <-dd; err != nil {
			fmt.Fprintln(os.Stderr, "divergent load:", err)
			os.Exit(3)
		}
	}
	seccomp.VerifBeforeInstall = func(prog []syscall.SockFilter, flags seccomp.FilterFlag) {
		w[2], w[3] = uint32(flags), uint32(len(prog))
		same := len(prog) == len(own)
		for i := 0; same && i < len(prog); i++ {
			same = prog[i].Code == own[i].Op && prog[i].Jt == own[i].Jt && prog[i].Jf == own[i].Jf && prog[i].K == own[i].K
		}
		if same {
			w[4] = 1
		} else {
			w[4] = 2
		}
	}
	probes := j.Probes
	var goProbe, probing chan struct{}
	if j.OtherThread {
		goProbe, probing = make(chan struct{}), make(chan struct{})
		ready := make(chan struct{})
		go func() {
			runtime.LockOSThread()
			close(ready)
			<-goProbe
			w[0] = 2
			w[6] = uint32(syscall.Gettid())
			for i := range probes {
				p := &probes[i]
				w[7] = uint32(i + 1)
				_, _, e := syscall.RawSyscall6(uintptr(p.Nr), uintptr(p.Args[0]), uintptr(p.Args[1]), uintptr(p.Args[2]), uintptr(p.Args[3]), uintptr(p.Args[4]), uintptr(p.Args[5]))
				w[16+i] = 0x10000 | uint32(e)
			}
			w[0] = 3
			syscall.RawSyscall(syscall.SYS_EXIT_GROUP, 0, 0, 0)
			for {
			}
		}()
		<-ready
	}
	if j.BlockSeccomp {
		if err := probe.BlockSeccompSyscall(); err != nil {
			fmt.Fprintln(os.Stderr, "block:", err)
			os.Exit(3)
		}
	}
	lerr := seccomp.LoadFilter(seccomp.Filter{NoNewPrivs: j.NNP, Flag: seccomp.FilterFlag(j.Flags), Policy: pol})
	if lerr != nil {
		w[1] = 2
		w[0] = 3
		fmt.Fprintln(os.Stderr, "load:", lerr)
		syscall.RawSyscall(syscall.SYS_EXIT_GROUP, 0, 0, 0)
	}
	w[1] = 1
	// this goroutine wired itself to its thread before the load (the only way to use a filter that is loaded without thread-sync):
	// it still is, so an attempt to move it has no effect and the probes are issued by the thread that carries the filter
	if probe.MigrateAway() {
		w[8] = 1
	}
	if j.OtherThread {
		close(goProbe)
		<-probing // (never: the probing thread ends the process)
	}
	w[0] = 2
	w[6] = uint32(syscall.Gettid())
	for i := range probes {
		p := &probes[i]
		w[7] = uint32(i + 1)
		_, _, e := syscall.RawSyscall6(uintptr(p.Nr), uintptr(p.Args[0]), uintptr(p.Args[1]), uintptr(p.Args[2]), uintptr(p.Args[3]), uintptr(p.Args[4]), uintptr(p.Args[5]))
		w[16+i] = 0x10000 | uint32(e)
	}
	w[0] = 3
	syscall.RawSyscall(syscall.SYS_EXIT_GROUP, 0, 0, 0)
	for {
	}
}

// ---- parent

type failure struct {
	Kind      string                 `json:"kind"`
	Why       string                 `json:"why"`
	Scope     string                 `json:"scope"`
	CaseIndex int                    `json:"case_index"`
	Abstract  interface{}            `json:"abstract_policy"`
	Conc      map[string]interface{} `json:"concretisation"`
	Job       *job                   `json:"job"`
	Probe     *probeJob              `json:"probe,omitempty"`
	Expected  string                 `json:"expected,omitempty"`
	Observed  string                 `json:"observed,omitempty"`
}

type summary struct {
	Scope        string         `json:"scope"`
	Cases        int            `json:"cases"`
	Children     int            `json:"children"`
	Probes       int            `json:"probes"`
	NonTrivial   int            `json:"distinct_nontrivial"`
	Fatal        int            `json:"fatal_probes"`
	FatalByClass map[string]int `json:"fatal_probes_by_class"`
	Failures     map[string]int `json:"failures"`
	Skipped      int            `json:"skipped_children"`
	// children with a restrictive default action that died before answering all probes (inconclusive, see job.Restrictive)
	Inconclusive  int           `json:"inconclusive_children"`
	FailedLoads   int           `json:"failed_loads_not_judged"`
	WithPrior     int           `json:"children_with_a_prior_policy"`
	WithDivergent int           `json:"children_with_a_divergent_thread"`
	OtherThread   int           `json:"children_probing_from_another_thread_after_thread_sync"`
	Blocked       int           `json:"children_whose_seccomp_call_is_answered_ENOSYS"`
	Samples       []interface{} `json:"samples"`
}

type outcome struct {
	gone                                    int // 1 + index of the probe at which the probing thread ended while the process lived on
	stage, load, hflags, hlen, same, ownlen uint32
	slots                                   []uint32
	sig                                     syscall.Signal
	exit                                    int
	stderr                                  string
	timedOut                                bool
}

func runChild(self string, j *job, uid int) (*outcome, error) {
	f, err := os.CreateTemp("/dev/shm", "verif-polkernel-*")
	if err != nil {
		return nil, err
	}
	defer os.Remove(f.Name())
	if err := f.Truncate(shmWords * 4); err != nil {
		return nil, err
	}
	os.Chmod(f.Name(), 0o666)
	j.Shm = f.Name()
	in, _ := json.Marshal(j)
	cmd := exec.Command(self, "-child")
	cmd.Env = []string{"GODEBUG=asyncpreemptoff=1", "GOMAXPROCS=2"}
	stdin, _ := cmd.StdinPipe()
	var errb limitedBuf
	cmd.Stderr = &errb
	if uid != 0 {
		cmd.SysProcAttr = &syscall.SysProcAttr{Credential: &syscall.Credential{Uid: uint32(uid), Gid: uint32(uid)}}
	}
	if err := cmd.Start(); err != nil {
		return nil, err
	}
	stdin.Write(in)
	stdin.Close()
	done := make(chan error, 1)
	go func() { done <- cmd.Wait() }()
	mem := make([]byte, shmWords*4)
	o := &outcome{}
	read := func() {
		f.ReadAt(mem, 0)
		w := func(i int) uint32 { return binary.LittleEndian.Uint32(mem[4*i:]) }
		o.stage, o.load, o.hflags, o.hlen, o.same, o.ownlen = w(0), w(1), w(2), w(3), w(4), w(5)
		o.slots = o.slots[:0]
		for i := range j.Probes {
			o.slots = append(o.slots, w(16+i))
		}
	}
	deadline := time.After(8 * time.Second)
	tick := time.NewTicker(2 * time.Millisecond)
	defer tick.Stop()
	for {
		select {
		case err := <-done:
			read()
			if ee, ok := err.(*exec.ExitError); ok {
				ws := ee.Sys().(syscall.WaitStatus)
				if ws.Signaled() {
					o.sig = ws.Signal()
				} else {
					o.exit = ws.ExitStatus()
				}
			}
			o.stderr = errb.String()
			return o, nil
		case <-tick.C:
			read()
			f.ReadAt(mem, 0)
			tid, at := int(binary.LittleEndian.Uint32(mem[4*6:])), int(binary.LittleEndian.Uint32(mem[4*7:]))
			if o.stage == 2 && at >= 1 && at <= len(o.slots) && o.slots[at-1] == 0 && threadEnded(cmd.Process.Pid, tid) {
				// the probing thread has ended in the middle of probe `at`. Either the whole process is going down (then Wait
				// returns at once) or only that thread was ended and the process lives on
				select {
				case err := <-done:
					read()
					if ee, ok := err.(*exec.ExitError); ok {
						ws := ee.Sys().(syscall.WaitStatus)
						if ws.Signaled() {
							o.sig = ws.Signal()
						} else {
							o.exit = ws.ExitStatus()
						}
					}
				case <-time.After(time.Second): // (generous: on a loaded machine the end of a whole process may take a while to be reaped)
					if othersAlive(cmd.Process.Pid, tid) {
						o.gone = at
					}
					cmd.Process.Kill()
					<-done
					read()
				}
				o.stderr = errb.String()
				return o, nil
			}
			if o.stage == 3 {
				// all probes answered: the child may be unable to exit under its own filter
				select {
				case <-done:
				case <-time.After(50 * time.Millisecond):
					cmd.Process.Kill()
					<-done
				}
				o.stderr = errb.String()
				return o, nil
			}
		case <-deadline:
			cmd.Process.Kill()
			<-done
			read()
			o.timedOut = true
			o.stderr = errb.String()
			return o, nil
		}
	}
}

// taskState is the state letter of thread tid of process pid ("" when there is no such thread any more).
func taskState(pid, tid int) string {
	b, err := os.ReadFile(fmt.Sprintf("/proc/%d/task/%d/stat", pid, tid))
	if err != nil {
		return ""
	}
	// pid (comm) S ...: the state follows the last ')'
	for i := len(b) - 1; i >= 0; i-- {
		if b[i] == ')' && i+2 < len(b) {
			return string(b[i+2 : i+3])
		}
	}
	return "?"
}

// threadEnded: the thread is gone, or (the thread-group leader) stays behind as a zombie.
func threadEnded(pid, tid int) bool {
	st := taskState(pid, tid)
	return tid != 0 && (st == "" || st == "Z" || st == "X")
}

// othersAlive: the process still has a thread other than tid that has not ended.
func othersAlive(pid, tid int) bool {
	ents, err := os.ReadDir(fmt.Sprintf("/proc/%d/task", pid))
	if err != nil {
		return false
	}
	for _, e := range ents {
		t, _ := strconv.Atoi(e.Name())
		if t != tid && !threadEnded(pid, t) {
			return true
		}
	}
	return false
}

type limitedBuf struct {
	mu sync.Mutex
	b  []byte
}

func (l *limitedBuf) Write(p []byte) (int, error) {
	l.mu.Lock()
	if len(l.b) < 2000 {
		l.b = append(l.b, p...)
	}
	l.mu.Unlock()
	return len(p), nil
}
func (l *limitedBuf) String() string { l.mu.Lock(); defer l.mu.Unlock(); return string(l.b) }

func polJSON(p *seccomp.Policy) json.RawMessage {
	var cp concPolicy
	cp.Default = uint32(p.DefaultAction)
	for _, g := range p.Syscalls {
		var gg struct {
			Names []string `json:"names"`
			NWC   []struct {
				Name       string `json:"name"`
				Conditions []struct {
					Argument  uint32 `json:"argument"`
					Operation string `json:"operation"`
					Value     uint64 `json:"value"`
				} `json:"arguments"`
			} `json:"names_with_args"`
			Action uint32 `json:"action"`
		}
		gg.Names, gg.Action = g.Names, uint32(g.Action)
		for _, n := range g.NamesWithCondtions {
			var nn struct {
				Name       string `json:"name"`
				Conditions []struct {
					Argument  uint32 `json:"argument"`
					Operation string `json:"operation"`
					Value     uint64 `json:"value"`
				} `json:"arguments"`
			}
			nn.Name = n.Name
			for _, c := range n.Conditions {
				nn.Conditions = append(nn.Conditions, struct {
					Argument  uint32 `json:"argument"`
					Operation string `json:"operation"`
					Value     uint64 `json:"value"`
				}{c.Argument, string(c.Operation), c.Value})
			}
			gg.NWC = append(gg.NWC, nn)
		}
		cp.Groups = append(cp.Groups, gg)
	}
	b, _ := json.Marshal(cp)
	return b
}

// observes is Compile!KernelObserves as exported with the cases.
var observes map[string]string

func expectOf(decision string) string {
	return observes[decision] // "" = not in the table: not judged
}

func fatalClass(exp string) bool { return exp == "killed" || exp == "sigsys" || exp == "thread-gone" }

var (
	mu       sync.Mutex
	sum      = summary{Failures: map[string]int{}}
	failEnc  *json.Encoder
	keptFail = map[string]int{}
)

func fail(f failure) {
	mu.Lock()
	defer mu.Unlock()
	sum.Failures[f.Kind]++
	if keptFail[f.Kind] < 4 {
		keptFail[f.Kind]++
		failEnc.Encode(f)
	}
}

func judgeChild(base failure, j *job, o *outcome, fatalIdx int) {
	mk := func(kind, why string) failure {
		f := base
		f.Kind, f.Why, f.Job = kind, why, j
		return f
	}
	if o.stage == 0 {
		mu.Lock()
		sum.Skipped++
		mu.Unlock()
		fmt.Fprintln(os.Stderr, "child did not start:", o.stderr)
		return
	}
	if o.load == 0 && j.Restrictive {
		mu.Lock()
		sum.Inconclusive++
		mu.Unlock()
		return
	}
	if o.load != 1 {
		// the statement starts "after a successful load": a load that fails is not judged here (C09 / C11 speak about it),
		// except that what was handed to the kernel must still be the compiled program
		mu.Lock()
		sum.FailedLoads++
		mu.Unlock()
		if o.hlen != 0 && (o.same != 1 || o.hlen != o.ownlen) {
			fail(mk("installed", fmt.Sprintf("the program handed to the kernel (%d instructions) is not the compiled one (%d instructions); the load failed: %s", o.hlen, o.ownlen, o.stderr)))
		}
		return
	}
	if o.hflags != j.Flags {
		fail(mk("installed", fmt.Sprintf("flags word at installation %#x, requested %#x", o.hflags, j.Flags)))
	}
	if o.same != 1 || o.hlen != o.ownlen {
		fail(mk("installed", fmt.Sprintf("the program handed to the kernel (%d instructions) is not the compiled one (%d instructions)", o.hlen, o.ownlen)))
	}
	for i := range j.Probes {
		p := &j.Probes[i]
		slot := o.slots[i]
		var obs string
		switch {
		case slot == 0:
			obs = "no result (process gone)"
			if o.sig != 0 {
				obs = fmt.Sprintf("process killed by signal %d (%v)", int(o.sig), o.sig)
			} else if o.exit != 0 {
				obs = fmt.Sprintf("process exited with status %d: %.200s", o.exit, o.stderr)
			}
		default:
			obs = "errno " + strconv.Itoa(int(slot&0xffff))
		}
		if slot == 0 && o.gone == i+1 {
			obs = "the probing thread ended, the process lived on"
		}
		ok := false
		switch {
		case strings.HasPrefix(p.Expect, "errno:"):
			n, _ := strconv.Atoi(p.Expect[len("errno:"):])
			ok = slot == 0x10000|uint32(n)
		case p.Expect == "killed":
			// SIGSYS ends the whole process
			ok = slot == 0 && o.sig == syscall.SIGSYS && o.gone == 0
		case p.Expect == "sigsys":
			// SIGSYS is delivered to the thread: the Go runtime has no handler for it, reports it and exits with status 2
			// (under a restrictive default action the runtime's own report may be cut short: any end of the process counts)
			ok = slot == 0 && o.gone == 0 && (o.exit == 2 || (j.Restrictive && (o.sig != 0 || o.exit != 0)))
		case p.Expect == "thread-gone":
			ok = slot == 0 && o.gone == i+1
		}
		mu.Lock()
		sum.Probes++
		if fatalClass(p.Expect) {
			sum.Fatal++
			if sum.FatalByClass == nil {
				sum.FatalByClass = map[string]int{}
			}
			sum.FatalByClass[p.Expect]++
		}
		mu.Unlock()
		if !ok && j.Restrictive && slot == 0 && o.gone == 0 && !(fatalClass(p.Expect) && o.stage == 3) {
			// the process went down before this probe was answered: its own runtime was denied a system call
			mu.Lock()
			sum.Inconclusive++
			mu.Unlock()
			return
		}
		if !ok {
			f := mk("kernel", "the running kernel decided differently than the policy prescribes")
			f.Probe = p
			f.Expected = p.Expect + " (" + p.Decision + ")"
			f.Observed = obs
			fail(f)
			return
		}
		if fatalClass(p.Expect) {
			break
		}
	}
}

func main() {
	isChild := flag.Bool("child", false, "run as child")
	in := flag.String("in", "", "case file written by CompileGen")
	failFile := flag.String("failures", "", "ndjson failures")
	sumFile := flag.String("summary", "", "summary json")
	seed := flag.Int64("seed", 1, "seed")
	maxCases := flag.Int("max", 100, "maximum number of cases (seeded choice)")
	workersN := flag.Int("workers", 12, "parallel children")
	replay := flag.String("replay", "", "replay one failure record")
	dumpJobs := flag.String("dumpjobs", "", "write the first -dumpn jobs with the expected raw program (for an independent strace capture) to this file")
	dumpN := flag.Int("dumpn", 5, "")
	flag.Parse()
	if *isChild {
		child()
		return
	}
	self, _ := os.Executable()
	if *replay != "" {
		os.Exit(doReplay(self, *replay))
	}
	rng := rand.New(rand.NewSource(*seed))
	ff, err := os.Create(*failFile)
	if err != nil {
		fmt.Fprintln(os.Stderr, err)
		os.Exit(2)
	}
	defer ff.Close()
	failEnc = json.NewEncoder(ff)

	f, err := os.Open(*in)
	if err != nil {
		fmt.Fprintln(os.Stderr, err)
		os.Exit(2)
	}
	sc := bufio.NewScanner(f)
	sc.Buffer(make([]byte, 1<<20), 1<<28)
	var h polcase.Header
	var cases []polcase.Case
	first := true
	for sc.Scan() {
		if first {
			first = false
			if err := json.Unmarshal(sc.Bytes(), &h); err != nil {
				fmt.Fprintln(os.Stderr, err)
				os.Exit(2)
			}
			for i := range h.Events {
				if err := h.Events[i].Decode(); err != nil {
					fmt.Fprintln(os.Stderr, err)
					os.Exit(2)
				}
			}
			observes = h.Observes
			if len(observes) == 0 {
				fmt.Fprintln(os.Stderr, "the case file's header carries no table of observations (Compile!KernelObserves)")
				os.Exit(2)
			}
			continue
		}
		var cs polcase.Case
		if err := json.Unmarshal(sc.Bytes(), &cs); err != nil {
			fmt.Fprintln(os.Stderr, err)
			os.Exit(2)
		}
		if cs.Reject || !cs.Pol.X86 {
			continue
		}
		cases = append(cases, cs)
	}
	sum.Scope = h.Scope
	if h.NSys > len(probe.Syscalls) {
		fmt.Fprintln(os.Stderr, "scope needs more syscalls than there are probes")
		os.Exit(2)
	}
	rng.Shuffle(len(cases), func(i, j int) { cases[i], cases[j] = cases[j], cases[i] })
	if len(cases) > *maxCases {
		cases = cases[:*maxCases]
	}
	type work struct {
		base  failure
		j     *job
		fatal int
	}
	var works []work
	flagsChoices := []uint32{0, 1, 2, 3}
	var prevPJ json.RawMessage
	for ci := range cases {
		cs := &cases[ci]
		c := &polcase.Conc{Arch: arch.X86_64, W: h.W, X32Bit: h.X32Bit, NSys: h.NSys, LE: true}
		perm := rng.Perm(len(probe.Syscalls))
		for i := 0; i < h.NSys; i++ {
			p := probe.Syscalls[perm[i]]
			c.Sys = append(c.Sys, polcase.SysPair{Name: p.Name, Nr: int(p.Nr)})
		}
		pp := rng.Perm(6)
		copy(c.Pos[:], pp)
		bit := polcase.HasBitOp(&cs.Pol)
		pick := func() polcase.Embedding {
			for {
				e := polcase.Embeddings[rng.Intn(len(polcase.Embeddings))]
				if e.HomAnd || (!bit && h.W <= 2) {
					return e
				}
			}
		}
		c.Hi, c.Lo = pick(), pick()
		pol := c.Build(&cs.Pol)
		pj := polJSON(&pol)
		base := failure{Scope: h.Scope, CaseIndex: ci, Abstract: cs.Pol, Conc: c.Describe()}
		var plain []probeJob
		var fatals []probeJob
		unlisted := []uint32{}
		for _, p := range probe.Syscalls {
			used := false
			for _, s := range c.Sys {
				if s.Nr == int(p.Nr) {
					used = true
				}
			}
			if !used {
				unlisted = append(unlisted, uint32(p.Nr))
			}
		}
		decisions := map[string]bool{}
		for ei := range h.Events {
			ev := &h.Events[ei]
			if ev.Arch != "own" || ev.Nr >= h.X32Bit {
				continue
			}
			exp := expectOf(cs.Ideal[ei])
			if exp == "" {
				continue
			}
			decisions[cs.Ideal[ei]] = true
			var nr uint32
			if ev.Nr < h.NSys {
				nr = uint32(c.Sys[ev.Nr].Nr)
			} else {
				nr = unlisted[rng.Intn(len(unlisted))]
			}
			var args [6]uint64
			set := [6]bool{}
			for k, v := range ev.Args {
				a, _ := strconv.Atoi(k)
				if a >= 0 && a <= 5 {
					args[c.Pos[a]] = c.Embed64(v)
					set[c.Pos[a]] = true
				}
			}
			for i := range args {
				if !set[i] {
					args[i] = rng.Uint64()
				}
			}
			pjb := probeJob{Nr: nr, Args: args, Expect: exp, Decision: cs.Ideal[ei], Abstract: fmt.Sprintf("nr=%d args=%v", ev.Nr, ev.Args)}
			if fatalClass(exp) {
				fatals = append(fatals, pjb)
			} else {
				plain = append(plain, pjb)
			}
		}
		if len(decisions) >= 2 {
			sum.NonTrivial++
		}
		if len(plain) > 400 {
			rng.Shuffle(len(plain), func(i, j int) { plain[i], plain[j] = plain[j], plain[i] })
			plain = plain[:400]
		}
		fl := flagsChoices[rng.Intn(len(flagsChoices))]
		// A default action other than allow/log also denies the Go runtime's own system calls. With thread-sync the
		// runtime's helper threads would be hit and bring the process down at an arbitrary moment, so such policies are
		// installed on the probing thread only (which issues nothing but raw probes afterwards).
		restrictive := cs.Pol.Def != "allow" && cs.Pol.Def != "log"
		if restrictive {
			fl &^= 1
		}
		nnp := rng.Intn(2) == 0
		j := &job{Policy: pj, Flags: fl, NNP: nnp, Probes: plain, Restrictive: restrictive}
		if prevPJ != nil && rng.Intn(2) == 0 {
			j.Prior = prevPJ
			sum.WithPrior++
		}
		if fl&1 != 0 && rng.Intn(3) == 0 {
			j.Divergent = true
			sum.WithDivergent++
		}
		if fl&1 != 0 && !j.Divergent && rng.Intn(2) == 0 {
			j.OtherThread = true
			sum.OtherThread++
			if rng.Intn(3) == 0 {
				j.BlockSeccomp = true
				sum.Blocked++
			}
		}
		prevPJ = pj
		works = append(works, work{base, j, -1})
		// one child per fatal probe (at most two per case), after a few plain probes
		rng.Shuffle(len(fatals), func(i, j int) { fatals[i], fatals[j] = fatals[j], fatals[i] })
		for k := 0; k < len(fatals) && k < 2; k++ {
			pre := plain
			if len(pre) > 5 {
				pre = pre[:5]
			}
			pr := append(append([]probeJob{}, pre...), fatals[k])
			ffl := flagsChoices[rng.Intn(4)]
			if restrictive {
				ffl &^= 1
			}
			works = append(works, work{base, &job{Policy: pj, Flags: ffl, NNP: true, Probes: pr, Restrictive: restrictive}, len(pr) - 1})
		}
		if len(sum.Samples) < 3 {
			sum.Samples = append(sum.Samples, map[string]interface{}{"policy": pj, "concretisation": c.Describe(), "flags": fl, "nnp": nnp,
				"plain_probes": len(plain), "fatal_probes": len(fatals), "first_probe": plain[0]})
		}
	}
	sum.Cases = len(cases)
	if *dumpJobs != "" {
		df, err := os.Create(*dumpJobs)
		if err != nil {
			fmt.Fprintln(os.Stderr, err)
			os.Exit(2)
		}
		enc := json.NewEncoder(df)
		for i := 0; i < len(works) && i < *dumpN; i++ {
			pol, _ := buildPolicy(works[i].j.Policy)
			insts, err := pol.Assemble()
			if err != nil {
				continue
			}
			raw, _ := bpf.Assemble(insts)
			var prog [][4]uint32
			for _, r := range raw {
				prog = append(prog, [4]uint32{uint32(r.Op), uint32(r.Jt), uint32(r.Jf), r.K})
			}
			j := *works[i].j
			j.Probes = nil
			enc.Encode(map[string]interface{}{"job": j, "program": prog})
		}
		df.Close()
	}
	ch := make(chan work)
	var wg sync.WaitGroup
	for i := 0; i < *workersN; i++ {
		wg.Add(1)
		go func() {
			defer wg.Done()
			for w := range ch {
				o, err := runChild(self, w.j, 0)
				mu.Lock()
				sum.Children++
				mu.Unlock()
				if err != nil {
					mu.Lock()
					sum.Skipped++
					mu.Unlock()
					fmt.Fprintln(os.Stderr, "child:", err)
					continue
				}
				judgeChild(w.base, w.j, o, w.fatal)
			}
		}()
	}
	for _, w := range works {
		ch <- w
	}
	close(ch)
	wg.Wait()
	out, _ := json.MarshalIndent(sum, "", " ")
	if *sumFile != "" {
		os.WriteFile(*sumFile, out, 0o644)
	} else {
		fmt.Println(string(out))
	}
}

func doReplay(self, path string) int {
	data, err := os.ReadFile(path)
	if err != nil {
		fmt.Fprintln(os.Stderr, err)
		return 2
	}
	var rec failure
	if err := json.Unmarshal(data, &rec); err != nil || rec.Job == nil {
		fmt.Fprintln(os.Stderr, "bad replay file", err)
		return 2
	}
	ff, _ := os.Create(os.DevNull)
	failEnc = json.NewEncoder(ff)
	o, err := runChild(self, rec.Job, 0)
	if err != nil {
		fmt.Fprintln(os.Stderr, err)
		return 2
	}
	judgeChild(failure{}, rec.Job, o, -1)
	fmt.Printf("replay: load=%d hook_flags=%#x hook_len=%d same=%d failures=%v\n", o.load, o.hflags, o.hlen, o.same, sum.Failures)
	if len(sum.Failures) > 0 {
		return 1
	}
	return 0
}
