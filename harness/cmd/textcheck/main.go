// textcheck binds Text.tla to the real code (C14).
//
//	-mode tags     dumps the config/yaml/json struct tags of Policy,
//	               SyscallGroup, NameWithConditions and Condition by reflection
//	-mode parse    runs the real Action.Unpack / Operation.Unpack (and the
//	               print/parse round trip) on the cases TLC generated
//	-mode policies renders / marshals policies and reads them back through
//	               the configuration path of cmd/sandbox (ucfg yaml -> Unpack),
//	               compiles the result and compares it byte-wise with the
//	               compilation of the literal policy
package main

import (
	"bytes"
	"encoding/json"
	"flag"
	"fmt"
	"os"
	"reflect"
	"strings"

	ucfgyaml "github.com/elastic/go-ucfg/yaml"
	"golang.org/x/net/bpf"
	yaml "gopkg.in/yaml.v2"

	seccomp "github.com/elastic/go-seccomp-bpf"
	"github.com/elastic/go-seccomp-bpf/arch"

	"verifharness/bpfvm"
)

type field struct {
	Go     string `json:"go"`
	Config string `json:"config"`
	Yaml   string `json:"yaml"`
	JSON   string `json:"json"`
	Kind   string `json:"kind"` // scalar | slice | struct | structs
	Elem   string `json:"elem"`
	Zero   string `json:"zero"`
}

func tagName(t reflect.StructTag, key, def string) string {
	v, ok := t.Lookup(key)
	if !ok {
		return def
	}
	n := strings.Split(v, ",")[0]
	if n == "" {
		return def
	}
	return n
}

func dumpTags() map[string][]field {
	out := map[string][]field{}
	var walk func(t reflect.Type)
	walk = func(t reflect.Type) {
		if _, done := out[t.Name()]; done {
			return
		}
		out[t.Name()] = nil
		var fs []field
		for i := 0; i < t.NumField(); i++ {
			f := t.Field(i)
			if f.PkgPath != "" {
				continue // unexported
			}
			fd := field{Go: f.Name, Config: tagName(f.Tag, "config", strings.ToLower(f.Name)), Yaml: tagName(f.Tag, "yaml", strings.ToLower(f.Name)),
				JSON: tagName(f.Tag, "json", f.Name), Kind: "scalar", Zero: "0"}
			ft := f.Type
			switch {
			case ft.Kind() == reflect.Struct:
				fd.Kind, fd.Elem = "struct", ft.Name()
				walk(ft)
			case ft.Kind() == reflect.Slice && ft.Elem().Kind() == reflect.Struct:
				fd.Kind, fd.Elem = "structs", ft.Elem().Name()
				walk(ft.Elem())
			case ft.Kind() == reflect.Slice:
				fd.Kind = "slice"
			case ft.Kind() == reflect.String:
				fd.Zero = ""
			}
			fs = append(fs, fd)
		}
		out[t.Name()] = fs
	}
	walk(reflect.TypeOf(seccomp.Policy{}))
	return out
}

type parseCase struct {
	Kind   string   `json:"kind"`
	S      []string `json:"s"`
	Expect string   `json:"expect"`
}

type result struct {
	DataRefused int      `json:"data_carrying_actions_refused"`
	Checked     int      `json:"checked"`
	NonTrivial  int      `json:"distinct_nontrivial"`
	Violations  []string `json:"violations"`
	Samples     []string `json:"samples"`
}

var actionByName = map[string]seccomp.Action{"kill_thread": seccomp.ActionKillThread, "kill_process": seccomp.ActionKillProcess, "trap": seccomp.ActionTrap,
	"errno": seccomp.ActionErrno, "trace": seccomp.ActionTrace, "log": seccomp.ActionLog, "allow": seccomp.ActionAllow}

func parse(cases []parseCase, r *result) {
	bad := func(f string, a ...interface{}) {
		if len(r.Violations) < 25 {
			r.Violations = append(r.Violations, fmt.Sprintf(f, a...))
		}
	}
	for _, c := range cases {
		s := strings.Join(c.S, "")
		r.Checked++
		if c.Expect != "error" {
			r.NonTrivial++
		}
		func() {
			defer func() {
				if p := recover(); p != nil {
					bad("%s parser panicked on %q: %v", c.Kind, s, p)
				}
			}()
			switch c.Kind {
			case "action":
				a := seccomp.Action(0xdeadbeef)
				err := a.Unpack(s)
				if c.Expect == "error" {
					if err == nil {
						bad("Action.Unpack(%q) accepted an unknown name as %v (%#x)", s, a, uint32(a))
					}
					return
				}
				if err != nil {
					bad("Action.Unpack(%q) failed: %v (expected %s)", s, err, c.Expect)
					return
				}
				if a != actionByName[c.Expect] {
					bad("Action.Unpack(%q) = %#x, expected %s (%#x)", s, uint32(a), c.Expect, uint32(actionByName[c.Expect]))
					return
				}
				// print / parse round trip and the documented spelling
				// the statement fixes the round trip, not the spelling of the printed form
				var back seccomp.Action
				if err := back.Unpack(a.String()); err != nil || back != a {
					bad("parsing the printed form %q of %s gives %#x, %v", a.String(), c.Expect, uint32(back), err)
				}
				if t, _ := a.MarshalText(); true {
					var back2 seccomp.Action
					if err := back2.Unpack(string(t)); err != nil || back2 != a {
						bad("parsing the marshalled text %q of %s gives %#x, %v", t, c.Expect, uint32(back2), err)
					}
				}
			case "operation":
				var o seccomp.Operation = "untouched"
				err := o.Unpack(s)
				if c.Expect == "error" {
					if err == nil {
						bad("Operation.Unpack(%q) accepted an unknown name as %q", s, o)
					}
					return
				}
				if err != nil {
					bad("Operation.Unpack(%q) failed: %v (expected %s)", s, err, c.Expect)
					return
				}
				if string(o) != c.Expect {
					bad("Operation.Unpack(%q) = %q, expected %q", s, o, c.Expect)
				}
				var back seccomp.Operation
				if err := back.Unpack(string(o)); err != nil || back != o {
					bad("parsing the printed form of %s gives %q, %v", c.Expect, back, err)
				}
			}
		}()
	}
}

// ---- policies through the configuration path

type concPolicy struct {
	Default string `json:"default_action"`
	Groups  []struct {
		Names []string `json:"names"`
		NWC   []struct {
			Name       string `json:"name"`
			Conditions []struct {
				Argument  uint32 `json:"argument"`
				Operation string `json:"operation"`
				Value     string `json:"value"` // decimal or 0x...
			} `json:"arguments"`
		} `json:"names_with_args"`
		Action string `json:"action"`
	} `json:"syscalls"`
}

func parseU64(s string) uint64 {
	var v uint64
	if strings.HasPrefix(s, "0x") {
		fmt.Sscanf(s[2:], "%x", &v)
	} else {
		fmt.Sscanf(s, "%d", &v)
	}
	return v
}

// actionValue: a documented name, or name+N - the named action carrying N in its data bits (an errno to return, a tracer message);
// such values are valid group actions in memory but have no documented text form
func actionValue(s string) seccomp.Action {
	if i := strings.Index(s, "+"); i > 0 {
		var n uint32
		fmt.Sscanf(s[i+1:], "%d", &n)
		return actionByName[s[:i]] | seccomp.Action(n)
	}
	return actionByName[s]
}

func carriesData(cp *concPolicy) bool {
	for _, g := range cp.Groups {
		if strings.Contains(g.Action, "+") {
			return true
		}
	}
	return false
}

func literal(cp *concPolicy) seccomp.Policy {
	p := seccomp.Policy{DefaultAction: actionByName[cp.Default]}
	for _, g := range cp.Groups {
		sg := seccomp.SyscallGroup{Names: g.Names, Action: actionValue(g.Action)}
		for _, n := range g.NWC {
			nc := seccomp.NameWithConditions{Name: n.Name}
			for _, c := range n.Conditions {
				nc.Conditions = append(nc.Conditions, seccomp.Condition{Argument: c.Argument, Operation: seccomp.Operation(c.Operation), Value: parseU64(c.Value)})
			}
			sg.NamesWithCondtions = append(sg.NamesWithCondtions, nc)
		}
		p.Syscalls = append(p.Syscalls, sg)
	}
	return p
}

// render writes the policy with the DOCUMENTED keys (README.md, cmd/sandbox/seccomp.yml), independent of any struct tag.
func render(cp *concPolicy, variant int) []byte {
	var b bytes.Buffer
	spell := func(s string) string {
		switch variant % 3 {
		case 1:
			return strings.ToUpper(s)
		case 2:
			return strings.Title(s)
		}
		return s
	}
	fmt.Fprintf(&b, "seccomp:\n  default_action: %s\n  syscalls:\n", spell(cp.Default))
	for _, g := range cp.Groups {
		fmt.Fprintf(&b, "  - action: %s\n", spell(g.Action))
		if len(g.Names) > 0 {
			fmt.Fprintf(&b, "    names:\n")
			for _, n := range g.Names {
				fmt.Fprintf(&b, "    - %s\n", n)
			}
		}
		if len(g.NWC) > 0 {
			fmt.Fprintf(&b, "    names_with_args:\n")
			for _, n := range g.NWC {
				fmt.Fprintf(&b, "    - name: %s\n      arguments:\n", n.Name)
				for _, c := range n.Conditions {
					op := c.Operation
					if variant%2 == 1 {
						op = strings.ToLower(op)
					}
					val := c.Value
					if variant%2 == 1 {
						val = fmt.Sprintf("0x%x", parseU64(c.Value))
					}
					fmt.Fprintf(&b, "      - argument: %d\n        operation: %s\n        value: %s\n", c.Argument, op, val)
				}
			}
		}
	}
	return b.Bytes()
}

func loadConfig(text []byte) (*seccomp.Policy, error) {
	conf, err := ucfgyaml.NewConfig(text)
	if err != nil {
		return nil, err
	}
	type Config struct {
		Seccomp seccomp.Policy
	}
	var config Config
	if err = conf.Unpack(&config); err != nil {
		return nil, err
	}
	return &config.Seccomp, nil
}

func compile(p *seccomp.Policy) ([]byte, error) {
	seccomp.VerifSetArch(p, arch.X86_64)
	insts, err := p.Assemble()
	if err != nil {
		return nil, err
	}
	raw, err := bpf.Assemble(insts)
	if err != nil {
		return nil, err
	}
	var b bytes.Buffer
	for _, r := range raw {
		fmt.Fprintf(&b, "%04x %02x %02x %08x\n", r.Op, r.Jt, r.Jf, r.K)
	}
	return b.Bytes(), nil
}

var emitDir string

func policies(cps []concPolicy, r *result) {
	bad := func(f string, a ...interface{}) {
		if len(r.Violations) < 25 {
			r.Violations = append(r.Violations, fmt.Sprintf(f, a...))
		}
	}
	for i := range cps {
		cp := &cps[i]
		lit := literal(cp)
		want, err := compile(&lit)
		if err != nil {
			fmt.Fprintf(os.Stderr, "literal policy %d does not compile: %v\n", i, err)
			os.Exit(3)
		}
		type Config struct {
			Seccomp seccomp.Policy `yaml:"seccomp" json:"seccomp"`
		}
		data := carriesData(cp)
		check := func(what string, text []byte, terr error) {
			r.Checked++
			if terr != nil {
				if data {
					r.DataRefused++ // no text form for such a value: refusing to marshal is honest
					return
				}
				bad("policy %d: %s failed: %v", i, what, terr)
				return
			}
			var got *seccomp.Policy
			var lerr error
			func() {
				defer func() {
					if p := recover(); p != nil {
						lerr = fmt.Errorf("panic: %v", p)
					}
				}()
				got, lerr = loadConfig(text)
			}()
			if lerr != nil {
				if data {
					r.DataRefused++ // the marshalled text is refused loudly (the tree as it is writes "unknown"): nothing silently different
					return
				}
				bad("policy %d: the %s form does not load through the configuration path: %v\n%s", i, what, lerr, text)
				return
			}
			have, cerr := compile(got)
			if cerr != nil {
				bad("policy %d: the policy read back from the %s form does not compile: %v", i, what, cerr)
				return
			}
			if !bytes.Equal(have, want) {
				bad("policy %d: the policy read back from the %s form compiles to a different program than the in-memory policy\n%s", i, what, text)
			}
		}
		if !data {
			check("documented YAML", render(cp, i), nil)
		}
		if emitDir != "" && !data {
			os.WriteFile(fmt.Sprintf("%s/pol_%d.yml", emitDir, i), render(cp, i), 0o644)
			os.WriteFile(fmt.Sprintf("%s/pol_%d.want", emitDir, i), want, 0o644)
		}
		y, yerr := yaml.Marshal(Config{literal(cp)})
		check("yaml.Marshal", y, yerr)
		j, jerr := json.Marshal(Config{literal(cp)})
		check("json.Marshal", j, jerr)
		if emitDir != "" && yerr == nil && jerr == nil && !data {
			// the marshalled forms as files, under the names a user would give them
			os.WriteFile(fmt.Sprintf("%s/pol_%d.m.yaml", emitDir, i), y, 0o644)
			os.WriteFile(fmt.Sprintf("%s/pol_%d.json", emitDir, i), j, 0o644)
			os.WriteFile(fmt.Sprintf("%s/pol_%d.JSON", emitDir, i), j, 0o644)
		}
		if len(cp.Groups) > 0 && len(cp.Groups[0].NWC) > 0 {
			r.NonTrivial++
		}
		if len(r.Samples) < 2 {
			r.Samples = append(r.Samples, string(y))
		}
	}
}

// ---- C18: the emitted YAML profile loads through the configuration path and allows exactly its names

type closureItem struct {
	YAML  string   `json:"yaml"`
	Names []string `json:"names"`
	Arch  string   `json:"arch"` // GOARCH of the profiled binary: "amd64" (default) or "386"
}

func closure(items []closureItem, r *result) {
	bad := func(f string, a ...interface{}) {
		if len(r.Violations) < 25 {
			r.Violations = append(r.Violations, fmt.Sprintf(f, a...))
		}
	}
	for i, it := range items {
		r.Checked++
		pol, err := loadConfig([]byte(it.YAML))
		if err != nil {
			bad("profile %d does not load through the configuration path: %v\n%s", i, err, it.YAML)
			continue
		}
		a := arch.X86_64
		if it.Arch == "386" {
			a = arch.I386
		}
		seccomp.VerifSetArch(pol, a)
		insts, err := pol.Assemble()
		if err != nil {
			bad("profile %d does not compile: %v\n%s", i, err, it.YAML)
			continue
		}
		raw, err := bpf.Assemble(insts)
		if err != nil {
			bad("profile %d: raw encoding fails: %v", i, err)
			continue
		}
		if err := bpfvm.KernelAccepts(raw); err != nil {
			bad("profile %d compiles to a program the kernel would refuse: %v\n%s", i, err, it.YAML)
			continue
		}
		allowed := map[string]bool{}
		for _, n := range it.Names {
			allowed[n] = true
		}
		if len(it.Names) > 0 {
			r.NonTrivial++
		}
		nrs := []int{}
		for n := range a.SyscallNumbers {
			nrs = append(nrs, n)
		}
		nrs = append(nrs, 5000, 0x3fffffff, 336, 400)
		for _, n := range nrs {
			d := bpfvm.Data{uint32(n), uint32(a.ID)}
			got, _, verr := bpfvm.Run(raw, &d)
			name, listed := a.SyscallNumbers[n]
			want := uint32(0x00050001)
			if listed && allowed[name] {
				want = 0x7fff0000
			}
			if verr != nil || got != want {
				bad("profile %d: syscall %d (%s) gets %#x, expected %#x (names %v)", i, n, name, got, want, it.Names)
				break
			}
		}
	}
}

func main() {
	mode := flag.String("mode", "tags", "tags | parse | policies | closure")
	flag.StringVar(&emitDir, "emit", "", "policies: also write pol_<i>.yml (documented YAML) and pol_<i>.want (the in-memory policy's program) to this directory")
	flag.Parse()
	r := result{Violations: []string{}}
	switch *mode {
	case "tags":
		json.NewEncoder(os.Stdout).Encode(dumpTags())
		return
	case "parse":
		var cases []parseCase
		if err := json.NewDecoder(os.Stdin).Decode(&cases); err != nil {
			fmt.Fprintln(os.Stderr, err)
			os.Exit(3)
		}
		parse(cases, &r)
	case "closure":
		var items []closureItem
		if err := json.NewDecoder(os.Stdin).Decode(&items); err != nil {
			fmt.Fprintln(os.Stderr, err)
			os.Exit(3)
		}
		closure(items, &r)
	case "policies":
		var cps []concPolicy
		if err := json.NewDecoder(os.Stdin).Decode(&cps); err != nil {
			fmt.Fprintln(os.Stderr, err)
			os.Exit(3)
		}
		policies(cps, &r)
	}
	json.NewEncoder(os.Stdout).Encode(r)
}
