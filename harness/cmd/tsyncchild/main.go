// tsyncchild records what the threads of a process observe while one of them
// loads a filter (C10). N wired OS threads in a mix of states - spinning,
// sleeping, blocked in read(2), spawning short-lived threads - issue a probe
// syscall in a loop; before every probe a thread reads the atomic flag
// `loaded`, which the loading thread sets after LoadFilter returned. Every
// thread keeps its own log (its program order is the only order recorded; no
// clocks). The output is one JSON document: per thread the role and the
// sequence of probes (sawLoaded, filtered).
package main

import (
	"encoding/json"
	"fmt"
	"os"
	"runtime"
	"sync"
	"sync/atomic"
	"syscall"
	"time"

	seccomp "github.com/elastic/go-seccomp-bpf"

	"verifharness/probe"
)

type config struct {
	N      int    `json:"n"`
	Flags  uint32 `json:"flags"`
	Seed   int64  `json:"seed"`
	After  int    `json:"after"` // probes every thread must make after it saw loaded
	Spawns int    `json:"spawns"`
	// Divergent: before the load, one more thread installs a private filter (another probe syscall, no thread-sync);
	// the kernel must then refuse a thread-sync load, so a nil result is only admissible if every thread ends up filtered
	Divergent bool `json:"divergent"`
	// Block: the loading thread carries an enclosing filter that answers seccomp(2) with ENOSYS; a correct loader
	// reports an error, nil is only admissible with every thread filtered
	Block bool `json:"block"`
	// Preload: the loading thread has loaded the SAME policy before, without thread-sync (flags PreloadFlags); the recorded
	// load then stacks a second filter with the same program, and with thread-sync it must still reach every thread
	Preload      bool   `json:"preload"`
	PreloadFlags uint32 `json:"preload_flags"`
	// PreloadOther: the earlier load is of ANOTHER policy (a third probe syscall) and may itself use thread-sync
	// (PreloadFlags as given); what the recorded load does to the other threads must depend on its own flags only
	PreloadOther bool `json:"preload_other"`
	// Uname26: the process runs with the UNAME26 personality (setarch --uname-2.6; inherited over fork and exec), under which
	// uname(2) reports release 2.6.x on any kernel. What the kernel does with the flags does not depend on what it reports.
	Uname26 bool `json:"uname26"`
	// NoNNP: the recorded load does not request no_new_privs (the caller decides whether it runs privileged: as uid nobody
	// the kernel refuses such a load, and nil is only admissible with the statement's coverage)
	NoNNP bool `json:"no_nnp"`
	// PolicyDefault: the default action of the recorded policy ("" / "allow", or "log": allowed and logged - to every probe the
	// same as allow). What the flags do must not depend on what the policy says.
	PolicyDefault string `json:"policy_default"`
	// Overlap: while the recorded load is parked at the installation point (hook H2), another wired thread performs a complete
	// load of ANOTHER policy with the flag word OverlapFlags (Loader!OtherLoad). The two calls share nothing: what the recorded
	// load does to the threads depends on its own flags and policy (a refused thread-sync - the other thread has diverged - is
	// an error: nothing to validate)
	Overlap      bool   `json:"overlap"`
	OverlapFlags uint32 `json:"overlap_flags"`
	// Oversize: the recorded policy has several groups, each well inside the kernel's limit of 4096 instructions, that together
	// exceed it; the probe syscall is denied by the LAST group. The kernel refuses such a program (an error: nothing is promised);
	// a nil result is only admissible with the statement's coverage, whatever was done to make the policy fit
	Oversize bool `json:"oversize"`
	// Jail: the process changes its root to this (empty) directory first (no /proc, nothing to read): thread-sync is the kernel's
	// business and must not depend on what the process can see of itself in a file system (root only)
	Jail string `json:"jail"`
}

type probeRec struct {
	Saw      bool `json:"saw"`
	Filtered bool `json:"filtered"`
}

type threadLog struct {
	Role    string     `json:"role"` // loader | other | child
	Kind    string     `json:"kind"` // spin | sleep | read | spawner | shortlived | loader
	Tid     int        `json:"tid"`
	Probes  []probeRec `json:"probes"`
	post    int
	spawned int
}

type output struct {
	Result    string      `json:"result"`
	Error     string      `json:"error,omitempty"`
	HookFlags *uint32     `json:"hook_flags"`
	HookLen   int         `json:"hook_len"`
	OtherErr  string      `json:"other_load_error,omitempty"`
	Threads   []threadLog `json:"threads"`
}

var loaded int32
var stop int32
var probeNr = probe.Syscalls[0].Nr

func doProbe(l *threadLog) bool {
	saw := atomic.LoadInt32(&loaded) == 1
	e := probe.Call(probeNr, [6]uint64{})
	var filtered bool
	switch e {
	case syscall.EPERM:
		filtered = true
	case syscall.ENOSYS:
	default:
		fmt.Fprintln(os.Stderr, "unexpected probe errno", e)
		os.Exit(3)
	}
	// keep the log small: the first probes, and everything from shortly before `loaded` was seen
	if !saw {
		if len(l.Probes) >= 40 {
			copy(l.Probes[20:], l.Probes[21:])
			l.Probes = l.Probes[:len(l.Probes)-1]
		}
		l.Probes = append(l.Probes, probeRec{saw, filtered})
	} else if l.post < 12 {
		l.post++
		l.Probes = append(l.Probes, probeRec{saw, filtered})
	}
	return saw
}

func main() {
	var cfg config
	if err := json.NewDecoder(os.Stdin).Decode(&cfg); err != nil {
		fmt.Fprintln(os.Stderr, err)
		os.Exit(3)
	}
	if cfg.After == 0 {
		cfg.After = 3
	}
	if cfg.Jail != "" {
		if err := probe.Jail(cfg.Jail); err != nil {
			fmt.Fprintln(os.Stderr, "jail:", err)
			os.Exit(3)
		}
	}
	if cfg.Uname26 {
		if _, _, e := syscall.RawSyscall(syscall.SYS_PERSONALITY, 0x0020000, 0, 0); e != 0 {
			fmt.Fprintln(os.Stderr, "personality:", e)
			os.Exit(3)
		}
	}
	var mu sync.Mutex
	var logs []*threadLog
	newLog := func(role, kind string) *threadLog {
		l := &threadLog{Role: role, Kind: kind}
		mu.Lock()
		logs = append(logs, l)
		mu.Unlock()
		return l
	}
	var wg sync.WaitGroup
	started := make(chan struct{}, cfg.N+1)
	pr, pw, _ := os.Pipe()
	kinds := []string{"spin", "sleep", "read", "spawner"}
	for i := 0; i < cfg.N; i++ {
		kind := kinds[(int(cfg.Seed)+i)%len(kinds)]
		l := newLog("other", kind)
		wg.Add(1)
		go func() {
			defer wg.Done()
			runtime.LockOSThread()
			l.Tid = probe.Gettid()
			started <- struct{}{}
			after := 0
			for atomic.LoadInt32(&stop) == 0 || after < cfg.After {
				switch kind {
				case "sleep":
					ts := syscall.Timespec{Nsec: 200000}
					syscall.Nanosleep(&ts, nil)
				case "read":
					// blocked in read(2) until the loader writes a byte per blocked reader
					if after == 0 {
						var b [1]byte
						syscall.Read(int(pr.Fd()), b[:])
					}
				case "spawner":
					// short-lived threads before, during and after the load
					if (after == 0 && l.spawned < cfg.Spawns) || (after > 0 && l.spawned < 2*cfg.Spawns) {
						l.spawned++
						cl := newLog("child", "shortlived")
						done := make(chan struct{})
						go func() {
							runtime.LockOSThread() // never unlocked: the OS thread exits with the goroutine
							cl.Tid = probe.Gettid()
							for k := 0; k < 3; k++ {
								doProbe(cl)
							}
							close(done)
						}()
						<-done
					}
				}
				if doProbe(l) {
					after++
				}
				if after >= cfg.After {
					for atomic.LoadInt32(&stop) == 0 {
						time.Sleep(100 * time.Microsecond)
					}
					break
				}
			}
		}()
	}
	for i := 0; i < cfg.N; i++ {
		<-started
	}
	if cfg.Divergent {
		dd := make(chan error)
		go func() {
			runtime.LockOSThread()
			dd <- seccomp.LoadFilter(seccomp.Filter{NoNewPrivs: true, Policy: seccomp.Policy{DefaultAction: seccomp.ActionAllow,
				Syscalls: []seccomp.SyscallGroup{{Action: seccomp.ActionErrno, Names: []string{probe.Syscalls[1].Name}}}}})
			select {}
		}()
		if err := <-dd; err != nil {
			fmt.Fprintln(os.Stderr, "divergent load failed:", err)
			os.Exit(3)
		}
	}
	var helper chan func()
	if cfg.Overlap {
		helper = make(chan func())
		hr := make(chan struct{})
		go func() {
			runtime.LockOSThread()
			close(hr)
			for f := range helper {
				f()
			}
			select {}
		}()
		<-hr
	}
	time.Sleep(2 * time.Millisecond)

	ll := newLog("loader", "loader")
	out := output{}
	ldone := make(chan struct{})
	go func() {
		runtime.LockOSThread()
		ll.Tid = probe.Gettid()
		if cfg.Block {
			if err := probe.BlockSeccompSyscall(); err != nil {
				fmt.Fprintln(os.Stderr, "block:", err)
				os.Exit(3)
			}
		}
		pol := seccomp.Policy{DefaultAction: seccomp.ActionAllow,
			Syscalls: []seccomp.SyscallGroup{{Action: seccomp.ActionErrno, Names: []string{probe.Syscalls[0].Name}}}}
		if cfg.PolicyDefault == "log" {
			pol.DefaultAction = seccomp.ActionLog
			pol.Syscalls = append(pol.Syscalls, seccomp.SyscallGroup{Action: seccomp.ActionAllow, Names: []string{"read", "write"}})
		}
		if cfg.Oversize {
			var groups []seccomp.SyscallGroup
			for g := 0; g < 4; g++ {
				var nwc []seccomp.NameWithConditions
				for i := 0; i < 350; i++ {
					nwc = append(nwc, seccomp.NameWithConditions{Name: probe.Syscalls[3+g].Name, Conditions: []seccomp.Condition{
						{Argument: uint32(i % 6), Operation: seccomp.Equal, Value: uint64(1000 + i)}}})
				}
				groups = append(groups, seccomp.SyscallGroup{Action: seccomp.ActionErrno, NamesWithCondtions: nwc})
			}
			pol.Syscalls = append(groups, pol.Syscalls...)
		}
		if cfg.Preload && cfg.PreloadOther {
			other := seccomp.Policy{DefaultAction: seccomp.ActionAllow,
				Syscalls: []seccomp.SyscallGroup{{Action: seccomp.ActionErrno, Names: []string{probe.Syscalls[2].Name}}}}
			if err := seccomp.LoadFilter(seccomp.Filter{NoNewPrivs: true, Flag: seccomp.FilterFlag(cfg.PreloadFlags), Policy: other}); err != nil {
				fmt.Fprintln(os.Stderr, "preload failed:", err)
				os.Exit(3)
			}
		} else if cfg.Preload {
			if err := seccomp.LoadFilter(seccomp.Filter{NoNewPrivs: true, Flag: seccomp.FilterFlag(cfg.PreloadFlags &^ 1), Policy: pol}); err != nil {
				fmt.Fprintln(os.Stderr, "preload failed:", err)
				os.Exit(3)
			}
		}
		doProbe(ll)
		parked := false
		seccomp.VerifBeforeInstall = func(prog []syscall.SockFilter, flags seccomp.FilterFlag) {
			if parked {
				return // (the hook of the other thread's call)
			}
			f := uint32(flags)
			out.HookFlags, out.HookLen = &f, len(prog)
			if cfg.Overlap {
				parked = true
				done := make(chan struct{})
				helper <- func() {
					other := seccomp.Policy{DefaultAction: seccomp.ActionAllow,
						Syscalls: []seccomp.SyscallGroup{{Action: seccomp.ActionErrno, Names: []string{probe.Syscalls[2].Name}}}}
					if err := seccomp.LoadFilter(seccomp.Filter{NoNewPrivs: true, Flag: seccomp.FilterFlag(cfg.OverlapFlags), Policy: other}); err != nil {
						out.OtherErr = err.Error()
					}
					close(done)
				}
				<-done
				parked = false
			}
		}
		err := seccomp.LoadFilter(seccomp.Filter{NoNewPrivs: !cfg.NoNNP, Flag: seccomp.FilterFlag(cfg.Flags), Policy: pol})
		if err != nil {
			out.Result, out.Error = "err", err.Error()
		} else {
			out.Result = "nil"
		}
		atomic.StoreInt32(&loaded, 1)
		for k := 0; k < cfg.After; k++ {
			doProbe(ll)
		}
		close(ldone)
	}()
	<-ldone
	// release the blocked readers, let everybody see `loaded`, then stop
	for i := 0; i < cfg.N; i++ {
		pw.Write([]byte{1})
	}
	time.Sleep(3 * time.Millisecond)
	atomic.StoreInt32(&stop, 1)
	for i := 0; i < cfg.N; i++ {
		pw.Write([]byte{1})
	}
	wg.Wait()
	mu.Lock()
	for _, l := range logs {
		out.Threads = append(out.Threads, *l)
	}
	mu.Unlock()
	json.NewEncoder(os.Stdout).Encode(out)
}
