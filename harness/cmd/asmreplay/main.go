// asmreplay drives the real label-and-jump builder of assembler.go with label
// programs (exported by TLC, blown up to real scale, or generated from a
// seed), and judges every assembled program by path equivalence (C06).
//
// Input (ndjson, one case per line):
//
//	{"id": "...", "perbranch": false, "insts": [{"k":"jif","t":2,"f":1}, ...],
//	 "model": {"err": "", "out": [{"k":"jif","c":"eq","v":0,"st":1,"sf":0}, ...]}}
//
// Output (ndjson): one record per executed program with the verdict, the
// drift flag (real output != model output) and, for failures, everything
// needed to replay the case.
package main

import (
	"bufio"
	"encoding/binary"
	"encoding/json"
	"flag"
	"fmt"
	"math/rand"
	"os"
	"strconv"
	"strings"

	seccomp "github.com/elastic/go-seccomp-bpf"
	"golang.org/x/net/bpf"

	"verifharness/labelprog"
	"verifharness/watch"
)

type modelInst struct {
	K  string `json:"k"`
	C  string `json:"c"`
	V  int64  `json:"v"`
	St int    `json:"st"`
	Sf int    `json:"sf"`
}

type modelOut struct {
	Err string      `json:"err"`
	Out []modelInst `json:"out"`
}

type caseIn struct {
	ID        string           `json:"id"`
	PerBranch bool             `json:"perbranch"`
	Insts     []labelprog.Inst `json:"insts"`
	Model     *modelOut        `json:"model,omitempty"`
}

type result struct {
	SecondErr string           `json:"second_assemble_error,omitempty"`
	ID        string           `json:"id"`
	Origin    string           `json:"origin"`
	N         int              `json:"n"`
	OutLen    int              `json:"out_len"`
	Bridges   int              `json:"bridges"`
	Err       string           `json:"err"`
	Useless   bool             `json:"useless"`
	Verdict   string           `json:"verdict"` // ok | violation
	Why       string           `json:"why,omitempty"`
	Drift     string           `json:"drift,omitempty"`
	PerBranch bool             `json:"perbranch"`
	Insts     []labelprog.Inst `json:"insts,omitempty"` // only for violations
	Out       []string         `json:"out,omitempty"`
	MaxDist   int              `json:"max_dist"`
	Traced    bool             `json:"traced,omitempty"`
}

func retAction(v uint32) seccomp.Action {
	switch v {
	case 1:
		return seccomp.ActionAllow
	case 2:
		return seccomp.ActionErrno
	case 3:
		return seccomp.ActionTrace // stays below 2^31 so that TLC can read traces
	case 4:
		return seccomp.ActionTrap
	}
	return seccomp.Action(0x00030000 | (v & 0xffff))
}

func retValue(v uint32) uint32 {
	a := uint32(retAction(v))
	if retAction(v) == seccomp.ActionErrno {
		a |= 1 // EPERM
	}
	return a
}

// build replays the label program as calls on the real builder.
func build(p []labelprog.Inst, perBranch bool) (prog seccomp.Program) {
	prog = seccomp.NewProgram()
	n := len(p)
	var shared []seccomp.Label
	pending := make([][]seccomp.Label, n+1)
	if !perBranch {
		shared = make([]seccomp.Label, n)
		for i := range shared {
			shared[i] = prog.NewLabel()
		}
	}
	for i, x := range p {
		if !perBranch {
			if i > 0 {
				prog.SetLabel(shared[i])
			}
		} else {
			for _, l := range pending[i] {
				prog.SetLabel(l)
			}
		}
		switch x.K {
		case "ld":
			arg := (x.V - 4) / 2
			if (x.V-4)%2 == 0 {
				prog.LdLo(arg) // little-endian layout (set in main): low half first
			} else {
				prog.LdHi(arg)
			}
		case "ret":
			prog.Ret(retAction(x.V))
		case "jif":
			var lt, lf seccomp.Label
			if perBranch {
				lt, lf = prog.NewLabel(), prog.NewLabel()
				pending[x.T] = append(pending[x.T], lt)
				pending[x.F] = append(pending[x.F], lf)
			} else {
				lt, lf = shared[x.T], shared[x.F]
			}
			prog.JmpIf(bpf.JumpEqual, uint32(i), lt, lf)
		}
	}
	return prog
}

type assembled struct {
	out []bpf.Instruction
	err error
	pan interface{}
}

// assemble bounds the call (watch.Do): a valid label program whose assembly does not return is as little assembled as one
// that is refused.
func assemble(prog *seccomp.Program) ([]bpf.Instruction, error, interface{}) {
	x, hung := watch.Do(func() (x assembled) {
		defer func() {
			if r := recover(); r != nil {
				x.pan = r
			}
		}()
		x.out, x.err = prog.Assemble()
		return
	})
	if hung != "" {
		return nil, nil, hung
	}
	return x.out, x.err, x.pan
}

func isUseless(p []labelprog.Inst) bool {
	for i, x := range p {
		if x.K == "jif" && x.T == i+1 && x.F == i+1 {
			return true
		}
	}
	return false
}

func maxDist(p []labelprog.Inst) int {
	m := 0
	for i, x := range p {
		if x.K == "jif" {
			if d := x.T - i - 1; d > m {
				m = d
			}
			if d := x.F - i - 1; d > m {
				m = d
			}
		}
	}
	return m
}

func condName(c bpf.JumpTest) string {
	switch c {
	case bpf.JumpEqual:
		return "eq"
	case bpf.JumpNotEqual:
		return "ne"
	case bpf.JumpGreaterThan:
		return "gt"
	case bpf.JumpLessThan:
		return "lt"
	case bpf.JumpGreaterOrEqual:
		return "ge"
	case bpf.JumpLessOrEqual:
		return "le"
	case bpf.JumpBitsSet:
		return "set"
	case bpf.JumpBitsNotSet:
		return "nset"
	}
	return "?"
}

func render(out []bpf.Instruction) []string {
	r := make([]string, len(out))
	for i, x := range out {
		switch v := x.(type) {
		case bpf.RetConstant:
			r[i] = fmt.Sprintf("ret %#x", v.Val)
		case bpf.LoadAbsolute:
			r[i] = fmt.Sprintf("ld %d", v.Off/4)
		case bpf.Jump:
			r[i] = fmt.Sprintf("ja %d", v.Skip)
		case bpf.JumpIf:
			r[i] = fmt.Sprintf("jif %s %d st=%d sf=%d", condName(v.Cond), v.Val, v.SkipTrue, v.SkipFalse)
		default:
			r[i] = fmt.Sprintf("%T", x)
		}
	}
	return r
}

// drift compares the real output with the model's output for the same label
// program (diagnostic only).
func drift(c *caseIn, out []bpf.Instruction, err error) string {
	if c.Model == nil {
		return ""
	}
	m := c.Model
	if (err != nil) != (m.Err != "") {
		return fmt.Sprintf("model err %q, real err %v", m.Err, err)
	}
	if err != nil {
		if !strings.Contains(err.Error(), m.Err) {
			return fmt.Sprintf("model err %q, real err %v", m.Err, err)
		}
		return ""
	}
	if len(out) != len(m.Out) {
		return fmt.Sprintf("model %d instructions, real %d", len(m.Out), len(out))
	}
	for i, x := range out {
		mi := m.Out[i]
		var ok bool
		switch v := x.(type) {
		case bpf.RetConstant:
			ok = mi.K == "ret" && retValue(uint32(mi.V)) == v.Val
		case bpf.LoadAbsolute:
			ok = mi.K == "ld" && uint32(mi.V)*4 == v.Off
		case bpf.Jump:
			ok = mi.K == "ja" && uint32(mi.V) == v.Skip
		case bpf.JumpIf:
			ok = mi.K == "jif" && int(v.SkipTrue) == mi.St && int(v.SkipFalse) == mi.Sf
		}
		if !ok {
			return fmt.Sprintf("instruction %d: model %+v, real %s", i, mi, render(out)[i])
		}
	}
	return ""
}

// ---- hook H3: step events of the real assembler, written as a trace for AsmTrace.tla

var traceW *json.Encoder
var traceLeft int
var traceOn bool
var traceBuf []interface{} // events of the program being assembled; kept only if it needed bridges

func traceInst(x bpf.Instruction) map[string]interface{} {
	switch v := x.(type) {
	case bpf.RetConstant:
		return map[string]interface{}{"k": "ret", "c": "", "v": v.Val, "st": 0, "sf": 0}
	case bpf.LoadAbsolute:
		return map[string]interface{}{"k": "ld", "c": "", "v": v.Off / 4, "st": 0, "sf": 0}
	case bpf.Jump:
		return map[string]interface{}{"k": "ja", "c": "", "v": v.Skip, "st": 0, "sf": 0}
	case bpf.JumpIf:
		return map[string]interface{}{"k": "jif", "c": condName(v.Cond), "v": v.Val, "st": int(v.SkipTrue), "sf": int(v.SkipFalse)}
	}
	return map[string]interface{}{"k": fmt.Sprintf("%T", x), "c": "", "v": 0, "st": 0, "sf": 0}
}

func traceInsts(xs []bpf.Instruction) []map[string]interface{} {
	r := make([]map[string]interface{}, len(xs))
	for i, x := range xs {
		r[i] = traceInst(x)
	}
	return r
}

func onAsmStep(st seccomp.VerifAsmStep) {
	if !traceOn {
		return
	}
	switch st.Kind {
	case "init":
		// dense label ids 1..L in order of the real ids
		max := 0
		for l := range st.Labels {
			if l > max {
				max = l
			}
		}
		for _, j := range st.Jumps {
			if j[1] > max {
				max = j[1]
			}
			if j[2] > max {
				max = j[2]
			}
		}
		labels := make([][]int, max)
		for i := range labels {
			labels[i] = []int{}
		}
		for l, idx := range st.Labels {
			if l >= 1 {
				labels[l-1] = idx
			}
		}
		jumps := st.Jumps
		if jumps == nil {
			jumps = [][3]int{}
		}
		traceBuf = append(traceBuf[:0], map[string]interface{}{"ev": "init", "insts": traceInsts(st.Instructions), "jumps": jumps, "labels": labels})
	case "jump":
		traceBuf = append(traceBuf, map[string]interface{}{"ev": "jump", "index": st.Index, "st": st.SkipTrue, "sf": st.SkipFalse,
			"bt": st.BridgeTrue, "bf": st.BridgeFalse, "len": len(st.Instructions)})
	}
}

func traceDone(out []bpf.Instruction, err error, keep bool) bool {
	if !traceOn || !keep {
		traceBuf = traceBuf[:0]
		return false
	}
	e := ""
	if err != nil {
		e = err.Error()
		if strings.Contains(e, "useless") {
			e = "useless"
		} else if strings.Contains(e, "backward") {
			e = "backward"
		}
	}
	o := traceInsts(out)
	if err != nil {
		o = []map[string]interface{}{}
	}
	for _, ev := range traceBuf {
		traceW.Encode(ev)
	}
	traceBuf = traceBuf[:0]
	traceW.Encode(map[string]interface{}{"ev": "done", "err": e, "out": o})
	return true
}

var judged int

func judge(c *caseIn, origin string) result {
	judged++
	if judged%5 == 0 {
		// history: an Assemble that fails (a jump whose two branches both go to the next instruction) precedes this program
		bad := seccomp.NewProgram()
		l := bad.NewLabel()
		bad.LdLo(0)
		bad.JmpIf(bpf.JumpEqual, 1, l, l)
		bad.SetLabel(l)
		bad.Ret(seccomp.ActionAllow)
		assemble(&bad)
	}
	p := c.Insts
	r := result{ID: c.ID, Origin: origin, N: len(p), PerBranch: c.PerBranch, Useless: isUseless(p), MaxDist: maxDist(p)}
	prog := build(p, c.PerBranch)
	traceOn = traceW != nil && traceLeft > 0 && origin != "tlc" && origin != "replay"
	out, err, pan := assemble(&prog)
	if traceOn && pan == nil {
		// keep the traces of programs that needed bridges (and a few that did not)
		if traceDone(out, err, err != nil || len(out) > len(p) || traceLeft%7 == 0) {
			traceLeft--
			r.Traced = true
		}
	}
	traceOn = false
	fail := func(why string) result {
		r.Verdict, r.Why, r.Insts, r.Out = "violation", why, p, render(out)
		return r
	}
	if pan != nil {
		r.Err = watch.Text(pan)
		return fail("Assemble: " + watch.Text(pan))
	}
	r.Drift = drift(c, out, err)
	if err != nil {
		r.Err = err.Error()
		if r.Useless && strings.Contains(err.Error(), "useless") {
			r.Verdict = "ok"
			return r
		}
		return fail("valid label program refused: " + err.Error())
	}
	r.OutLen = len(out)
	r.Bridges = len(out) - len(p)
	in := labelprog.NewInterner()
	lc, lerr := in.UnfoldLabel(p,
		func(i int) labelprog.Jump { return labelprog.Jump{Cond: bpf.JumpEqual, Val: uint32(i)} },
		func(i int) uint32 { return retValue(p[i].V) },
		func(i int) uint32 { return p[i].V * 4 })
	if lerr != nil {
		r.Verdict, r.Why = "skipped", lerr.Error()
		return r
	}
	oc, oerr := in.UnfoldOut(out)
	if oerr != nil {
		return fail("assembled program is malformed: " + oerr.Error())
	}
	if lc[0] != oc[0] {
		return fail("assembled program is not path-equivalent to the label program")
	}
	if _, e := bpf.Assemble(out); e != nil {
		return fail("raw encoding fails: " + e.Error())
	}
	// Assemble is a method of a value the caller keeps (dump it, then install it): a second call on the same Program must
	// again return a list that behaves like the label program
	out2, err2, pan2 := assemble(&prog)
	if pan2 != nil {
		return fail("a second Assemble of the same Program panicked: " + fmt.Sprint(pan2))
	}
	if err2 != nil {
		// the tree as it is refuses some programs the second time (a jump whose two branches share one far label resolves both
		// to the nearest bridge: "useless jump found"); an error returns no list, so there is nothing the statement could be
		// applied to - recorded, not judged
		r.SecondErr = err2.Error()
		r.Verdict = "ok"
		return r
	}
	oc2, oerr2 := in.UnfoldOut(out2)
	if oerr2 != nil || lc[0] != oc2[0] {
		out = out2
		return fail("the list a second Assemble of the same Program returns is not path-equivalent to the label program")
	}
	r.Verdict = "ok"
	return r
}

// blowUp stretches a small label program to real scale: original instruction
// i is followed by pad[i] filler instructions (loads, and jumps whose true
// branch goes to the start of a random later block and whose false branch
// falls through), so that the distances of the original jumps straddle the
// 255 limit.
func blowUp(p []labelprog.Inst, k int, rng *rand.Rand, jumpy bool) []labelprog.Inst {
	n := len(p)
	start := make([]int, n+1)
	pad := make([]int, n)
	pos := 0
	for i := range p {
		start[i] = pos
		pad[i] = 0
		if i < n-1 {
			pad[i] = k - 1 + rng.Intn(3) - 1
			if pad[i] < 0 {
				pad[i] = 0
			}
		}
		pos += 1 + pad[i]
	}
	total := pos
	out := make([]labelprog.Inst, 0, total)
	for i, x := range p {
		y := x
		if x.K == "jif" {
			y.T, y.F = start[x.T], start[x.F]
		}
		out = append(out, y)
		for f := 0; f < pad[i]; f++ {
			here := len(out)
			if jumpy && rng.Intn(4) == 0 && i+1 < n {
				tb := i + 1 + rng.Intn(n-i-1)
				t := start[tb]
				if t == here+1 { // both branches to the next instruction would be a useless jump
					out = append(out, labelprog.Inst{K: "ld", V: uint32(4 + rng.Intn(12))})
					continue
				}
				out = append(out, labelprog.Inst{K: "jif", T: t, F: here + 1})
			} else {
				out = append(out, labelprog.Inst{K: "ld", V: uint32(4 + rng.Intn(12))})
			}
		}
	}
	return out
}

// randomProgram generates a large label program directly: a sequence of
// loads, returns and jumps whose targets favour distances near the limit.
func randomProgram(rng *rand.Rand, n int) []labelprog.Inst {
	p := make([]labelprog.Inst, n)
	pick := func(i int) int {
		rem := n - 1 - i
		var d int
		switch rng.Intn(6) {
		case 0:
			d = 1 + rng.Intn(3)
		case 1:
			d = 253 + rng.Intn(6)
		case 2:
			d = 2*255 + rng.Intn(5)
		case 3:
			d = rem
		default:
			d = 1 + rng.Intn(rem)
		}
		if d > rem {
			d = rem
		}
		if d < 1 {
			d = 1
		}
		return i + d
	}
	for i := 0; i < n; i++ {
		if i == n-1 {
			p[i] = labelprog.Inst{K: "ret", V: uint32(5 + i)}
			continue
		}
		switch r := rng.Intn(10); {
		case r < 5:
			t, f := pick(i), pick(i)
			if rng.Intn(2) == 0 {
				f = i + 1
			}
			if t == i+1 && f == i+1 {
				t = n - 1
			}
			if t == i+1 && f == i+1 { // i = n-2: both branches to the last instruction
				p[i] = labelprog.Inst{K: "ld", V: 4}
				continue
			}
			p[i] = labelprog.Inst{K: "jif", T: t, F: f}
		case r < 6:
			p[i] = labelprog.Inst{K: "ret", V: uint32(1 + rng.Intn(4))}
		default:
			p[i] = labelprog.Inst{K: "ld", V: uint32(4 + rng.Intn(12))}
		}
	}
	return p
}

func main() {
	inFile := flag.String("in", "", "ndjson file of label programs exported by TLC")
	outFile := flag.String("out", "", "ndjson result file")
	blow := flag.String("blowup", "", "comma separated block sizes for blowing up the TLC programs to real scale")
	blowEvery := flag.Int("blowevery", 1, "blow up every n-th input program")
	random := flag.Int("random", 0, "number of random large programs")
	seed := flag.Int64("seed", 1, "seed")
	one := flag.String("replay", "", "replay file holding one case")
	traceFile := flag.String("trace", "", "write hook H3 step events of up to -tracemax programs here")
	traceMax := flag.Int("tracemax", 20, "number of programs to trace")
	randMax := flag.Int("randmax", 1200, "maximum size of random programs above 200")
	flag.Parse()
	if *traceFile != "" {
		tf, err := os.Create(*traceFile)
		if err != nil {
			fmt.Fprintln(os.Stderr, err)
			os.Exit(2)
		}
		defer tf.Close()
		tw := bufio.NewWriter(tf)
		defer tw.Flush()
		traceW = json.NewEncoder(tw)
		traceLeft = *traceMax
		seccomp.VerifAsmEvent = onAsmStep
	}

	seccomp.VerifSetEndian(binary.LittleEndian)
	rng := rand.New(rand.NewSource(*seed))

	var w *bufio.Writer
	if *outFile != "" {
		f, err := os.Create(*outFile)
		if err != nil {
			fmt.Fprintln(os.Stderr, err)
			os.Exit(2)
		}
		defer f.Close()
		w = bufio.NewWriter(f)
	} else {
		w = bufio.NewWriter(os.Stdout)
	}
	defer w.Flush()
	enc := json.NewEncoder(w)

	if *one != "" {
		data, err := os.ReadFile(*one)
		if err != nil {
			fmt.Fprintln(os.Stderr, err)
			os.Exit(2)
		}
		var rep struct {
			Case caseIn `json:"case"`
		}
		if err := json.Unmarshal(data, &rep); err != nil {
			fmt.Fprintln(os.Stderr, err)
			os.Exit(2)
		}
		r := judge(&rep.Case, "replay")
		r.Insts, r.Out = nil, nil
		enc.Encode(r)
		return
	}

	var ks []int
	for _, s := range strings.Split(*blow, ",") {
		if s == "" {
			continue
		}
		k, err := strconv.Atoi(s)
		if err != nil {
			fmt.Fprintln(os.Stderr, err)
			os.Exit(2)
		}
		ks = append(ks, k)
	}

	if *inFile != "" {
		f, err := os.Open(*inFile)
		if err != nil {
			fmt.Fprintln(os.Stderr, err)
			os.Exit(2)
		}
		sc := bufio.NewScanner(f)
		sc.Buffer(make([]byte, 1<<20), 1<<26)
		n := 0
		for sc.Scan() && !watch.Stop() {
			var c caseIn
			if err := json.Unmarshal(sc.Bytes(), &c); err != nil {
				fmt.Fprintln(os.Stderr, "bad case:", err)
				os.Exit(2)
			}
			if c.ID == "" {
				c.ID = fmt.Sprintf("tlc-%d", n)
			}
			enc.Encode(judge(&c, "tlc"))
			if len(ks) > 0 && n%*blowEvery == 0 && !isUseless(c.Insts) {
				k := ks[rng.Intn(len(ks))]
				b := caseIn{ID: fmt.Sprintf("%s-x%d", c.ID, k), PerBranch: c.PerBranch,
					Insts: blowUp(c.Insts, k, rng, rng.Intn(2) == 0)}
				enc.Encode(judge(&b, "blowup"))
			}
			n++
		}
		if err := sc.Err(); err != nil {
			fmt.Fprintln(os.Stderr, err)
			os.Exit(2)
		}
		f.Close()
	}
	for i := 0; i < *random && !watch.Stop(); i++ {
		n := 200 + rng.Intn(*randMax)
		c := caseIn{ID: fmt.Sprintf("rnd-%d-%d", *seed, i), PerBranch: rng.Intn(2) == 0, Insts: randomProgram(rng, n)}
		enc.Encode(judge(&c, "random"))
	}
}
