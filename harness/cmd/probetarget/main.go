// probetarget is the program the sandbox command is asked to run (C15) and
// the Go ELF binary handed to the profiler (C17, C18). It first creates the
// marker file named by VERIF_MARKER (so that a caller can tell whether the
// target was started at all), then issues the probe syscalls given as
// arguments ("nr:a0:a1:...") and prints one JSON line with the errno of each
// and the Seccomp / NoNewPrivs fields of its own status. If VERIF_FATAL_PROBE
// names one more probe, it is issued last, on an OS thread of its own: the
// second JSON line says whether the call returned (and with which errno) or
// the thread never came back (the filter answered kill_thread); an answer of
// kill_process or trap ends the process, which the caller sees in the status.
package main

import (
	"encoding/json"
	"fmt"
	"os"
	"runtime"
	"strconv"
	"strings"
	"time"

	"verifharness/probe"
)

func main() {
	if m := os.Getenv("VERIF_MARKER"); m != "" {
		if f, err := os.Create(m); err == nil {
			f.Close()
		}
	}
	type res struct {
		Probe string `json:"probe"`
		Errno int    `json:"errno"`
	}
	out := struct {
		Probes []res        `json:"probes"`
		Status probe.Status `json:"status"`
	}{}
	parse := func(a string) (uintptr, [6]uint64) {
		parts := strings.Split(a, ":")
		nr, err := strconv.ParseUint(parts[0], 0, 64)
		if err != nil {
			fmt.Fprintln(os.Stderr, "bad probe", a)
			os.Exit(3)
		}
		var args [6]uint64
		for i := 1; i < len(parts) && i <= 6; i++ {
			args[i-1], _ = strconv.ParseUint(parts[i], 0, 64)
		}
		return uintptr(nr), args
	}
	for _, a := range os.Args[1:] {
		nr, args := parse(a)
		out.Probes = append(out.Probes, res{a, int(probe.Call(nr, args))})
	}
	out.Status, _ = probe.ReadStatus(probe.Gettid())
	json.NewEncoder(os.Stdout).Encode(out)
	if fp := os.Getenv("VERIF_FATAL_PROBE"); fp != "" {
		nr, args := parse(fp)
		done := make(chan int, 1)
		go func() {
			runtime.LockOSThread() // never unlocked: if the thread is killed nothing else runs on it
			done <- int(probe.Call(nr, args))
		}()
		verdict := "thread-gone"
		select {
		case e := <-done:
			verdict = fmt.Sprintf("returned:%d", e)
		case <-time.After(4 * time.Second):
		}
		json.NewEncoder(os.Stdout).Encode(map[string]string{"fatal": verdict})
		os.Stdout.Sync()
		os.Exit(0)
	}
}
