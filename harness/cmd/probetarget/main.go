// probetarget is the program the sandbox command is asked to run (C15) and
// the Go ELF binary handed to the profiler (C17, C18). It first creates the
// marker file named by VERIF_MARKER (so that a caller can tell whether the
// target was started at all), then issues the probe syscalls given as
// arguments ("nr:a0:a1:...") and prints one JSON line with the errno of each
// and the Seccomp / NoNewPrivs fields of its own status.
package main

import (
	"encoding/json"
	"fmt"
	"os"
	"strconv"
	"strings"

	"verifharness/probe"
)

func main() {
	if m := os.Getenv("VERIF_MARKER"); m != "" {
		if f, err := os.Create(m); err == nil {
			f.Close()
		}
	}
	type res struct {
		Probe string `json:"probe"`
		Errno int    `json:"errno"`
	}
	out := struct {
		Probes []res        `json:"probes"`
		Status probe.Status `json:"status"`
	}{}
	for _, a := range os.Args[1:] {
		parts := strings.Split(a, ":")
		nr, err := strconv.ParseUint(parts[0], 0, 64)
		if err != nil {
			fmt.Fprintln(os.Stderr, "bad probe", a)
			os.Exit(3)
		}
		var args [6]uint64
		for i := 1; i < len(parts) && i <= 6; i++ {
			args[i-1], _ = strconv.ParseUint(parts[i], 0, 64)
		}
		out.Probes = append(out.Probes, res{a, int(probe.Call(uintptr(nr), args))})
	}
	out.Status, _ = probe.ReadStatus(probe.Gettid())
	json.NewEncoder(os.Stdout).Encode(out)
}
