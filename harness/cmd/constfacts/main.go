// constfacts extracts, for one GOOS/GOARCH build target, facts about the
// package as that target compiles it (C19), without executing anything:
//   - the values of the action / flag / mode / prctl / errno constants, read
//     from the export data the compiler produces for the target (go list
//     -export), which also shows that the target builds
//   - for non-Linux targets: the bodies of the loader stubs (go/ast): do they
//     return only literals, contain call expressions, import syscall packages
//
// It must be started in the repository directory. Output: one JSON object.
package main

import (
	"bytes"
	"encoding/json"
	"flag"
	"fmt"
	"go/ast"
	"go/build"
	"go/constant"
	"go/importer"
	"go/parser"
	"go/token"
	"go/types"
	"io"
	"os"
	"os/exec"
	"path/filepath"
	"strings"
)

type stubFact struct {
	Func     string   `json:"func"`
	Returns  []string `json:"returns"`
	Calls    int      `json:"calls"`
	StmtKind []string `json:"stmts"`
}

type facts struct {
	GOOS   string            `json:"goos"`
	GOARCH string            `json:"goarch"`
	Error  string            `json:"error,omitempty"`
	Consts map[string]string `json:"consts"`
	// AllUnix: every integer constant internal/unix exports on this target (a constant added later is covered without a list here)
	AllUnix map[string]string `json:"all_unix"`
	Files   []string          `json:"files"`
	Stubs   []stubFact        `json:"stubs"`
	Imports []string          `json:"imports"`
}

const root = "github.com/elastic/go-seccomp-bpf"

var wanted = []string{"ActionKillThread", "ActionKillProcess", "ActionTrap", "ActionErrno", "ActionTrace", "ActionLog", "ActionAllow", "ActionUserNotify",
	"FilterFlagTSync", "FilterFlagLog"}

func main() {
	goos := flag.String("goos", "linux", "")
	goarch := flag.String("goarch", "amd64", "")
	flag.Parse()
	out := facts{GOOS: *goos, GOARCH: *goarch, Consts: map[string]string{}}
	defer func() { json.NewEncoder(os.Stdout).Encode(out) }()

	ctx := build.Default
	ctx.GOOS, ctx.GOARCH, ctx.CgoEnabled = *goos, *goarch, false
	build.Default = ctx
	os.Setenv("GOOS", *goos)
	os.Setenv("GOARCH", *goarch)
	os.Setenv("CGO_ENABLED", "0")
	// compile the package and its dependencies for the target and read the constants from the compiler's export data
	cmd := exec.Command("go", "list", "-export", "-deps", "-json=ImportPath,Export,Error", root, root+"/internal/unix", root+"/arch")
	cmd.Env = append(os.Environ(), "GOOS="+*goos, "GOARCH="+*goarch, "CGO_ENABLED=0")
	var stderr bytes.Buffer
	cmd.Stderr = &stderr
	listing, err := cmd.Output()
	if err != nil {
		out.Error = "does not build: " + err.Error() + ": " + strings.TrimSpace(stderr.String())
		return
	}
	exports := map[string]string{}
	dec := json.NewDecoder(bytes.NewReader(listing))
	for dec.More() {
		var e struct {
			ImportPath, Export string
			Error              *struct{ Err string }
		}
		if err := dec.Decode(&e); err != nil {
			out.Error = err.Error()
			return
		}
		if e.Error != nil {
			out.Error = "does not build: " + e.Error.Err
			return
		}
		exports[e.ImportPath] = e.Export
	}
	fset := token.NewFileSet()
	imp := importer.ForCompiler(fset, "gc", func(path string) (io.ReadCloser, error) {
		f, ok := exports[path]
		if !ok || f == "" {
			return nil, fmt.Errorf("no export data for %s", path)
		}
		return os.Open(f)
	})
	read := func(pkgPath string, names map[string]string) {
		pkg, err := imp.Import(pkgPath)
		if err != nil {
			out.Error = err.Error()
			return
		}
		for n, as := range names {
			c, ok := pkg.Scope().Lookup(n).(*types.Const)
			if !ok {
				out.Consts[as] = "missing"
				continue
			}
			if v, exact := constant.Uint64Val(constant.ToInt(c.Val())); exact {
				out.Consts[as] = fmt.Sprintf("%d", v)
			} else {
				out.Consts[as] = c.Val().ExactString()
			}
		}
	}
	if pkg, err := imp.Import(root + "/internal/unix"); err == nil {
		out.AllUnix = map[string]string{}
		for _, n := range pkg.Scope().Names() {
			if c, ok := pkg.Scope().Lookup(n).(*types.Const); ok && c.Val().Kind() == constant.Int {
				if v, exact := constant.Uint64Val(c.Val()); exact {
					out.AllUnix[n] = fmt.Sprintf("%d", v)
				} else {
					out.AllUnix[n] = c.Val().ExactString()
				}
			}
		}
	}
	pub := map[string]string{}
	for _, n := range wanted {
		pub[n] = n
	}
	read(root, pub)
	read(root+"/internal/unix", map[string]string{"SECCOMP_SET_MODE_STRICT": "seccompSetModeStrict", "SECCOMP_SET_MODE_FILTER": "seccompSetModeFilter",
		"PR_SET_NO_NEW_PRIVS": "prSetNoNewPrivs", "EPERM": "errnoEPERM", "ENOSYS": "errnoENOSYS",
		"SECCOMP_RET_KILL_THREAD": "unix.SECCOMP_RET_KILL_THREAD", "SECCOMP_RET_KILL_PROCESS": "unix.SECCOMP_RET_KILL_PROCESS", "SECCOMP_RET_TRAP": "unix.SECCOMP_RET_TRAP",
		"SECCOMP_RET_ERRNO": "unix.SECCOMP_RET_ERRNO", "SECCOMP_RET_TRACE": "unix.SECCOMP_RET_TRACE", "SECCOMP_RET_LOG": "unix.SECCOMP_RET_LOG",
		"SECCOMP_RET_ALLOW": "unix.SECCOMP_RET_ALLOW", "SECCOMP_RET_USER_NOTIF": "unix.SECCOMP_RET_USER_NOTIF",
		"SECCOMP_FILTER_FLAG_TSYNC": "unix.SECCOMP_FILTER_FLAG_TSYNC", "SECCOMP_FILTER_FLAG_LOG": "unix.SECCOMP_FILTER_FLAG_LOG"})
	if out.Error != "" {
		return
	}
	// the files this target selects, and the stubs among them
	bp, err := ctx.ImportDir(".", 0)
	if err != nil {
		out.Error = err.Error()
		return
	}
	out.Files = bp.GoFiles
	for _, fn := range bp.GoFiles {
		f, err := parser.ParseFile(token.NewFileSet(), filepath.Join(".", fn), nil, 0)
		if err != nil {
			out.Error = err.Error()
			return
		}
		hasStub := false
		for _, d := range f.Decls {
			fd, ok := d.(*ast.FuncDecl)
			if !ok || fd.Recv != nil {
				continue
			}
			switch fd.Name.Name {
			case "Supported", "SetNoNewPrivs", "LoadFilter":
			default:
				continue
			}
			hasStub = true
			sf := stubFact{Func: fd.Name.Name}
			ast.Inspect(fd.Body, func(n ast.Node) bool {
				switch x := n.(type) {
				case *ast.CallExpr:
					sf.Calls++
				case *ast.ReturnStmt:
					for _, r := range x.Results {
						switch v := r.(type) {
						case *ast.Ident:
							sf.Returns = append(sf.Returns, v.Name)
						case *ast.BasicLit:
							sf.Returns = append(sf.Returns, v.Value)
						default:
							sf.Returns = append(sf.Returns, fmt.Sprintf("%T", r))
						}
					}
				}
				return true
			})
			for _, s := range fd.Body.List {
				sf.StmtKind = append(sf.StmtKind, strings.TrimPrefix(fmt.Sprintf("%T", s), "*ast."))
			}
			out.Stubs = append(out.Stubs, sf)
		}
		if hasStub {
			for _, im := range f.Imports {
				out.Imports = append(out.Imports, strings.Trim(im.Path.Value, `"`))
			}
		}
	}
}
