// archdump dumps what the real arch package contains (C12): the syscall
// tables in both directions, audit ids and masks of every exported Info, and
// the answer of arch.GetInfo for every spelling given on stdin.
package main

import (
	"encoding/json"
	"fmt"
	"os"
	"runtime"

	"github.com/elastic/go-seccomp-bpf/arch"
)

type info struct {
	Var     string         `json:"var"`
	Name    string         `json:"name"`
	ID      string         `json:"id"` // hex
	Mask    int            `json:"mask"`
	Numbers map[int]string `json:"numbers"`
	Names   map[string]int `json:"names"`
}

type lookup struct {
	In   string `json:"in"`
	Name string `json:"name"` // Info.Name of the result, "" on error
	Var  string `json:"var"`
	Err  string `json:"err"`
}

func main() {
	vars := []struct {
		v string
		i *arch.Info
	}{
		{"ARM", arch.ARM}, {"AARCH64", arch.AARCH64}, {"I386", arch.I386}, {"X32", arch.X32}, {"X86_64", arch.X86_64},
		{"PPC", arch.PPC}, {"PPC64", arch.PPC64}, {"PPC64LE", arch.PPC64LE}, {"S390", arch.S390}, {"S390X", arch.S390X},
		{"MIPS", arch.MIPS}, {"MIPSEL", arch.MIPSEL}, {"MIPS64", arch.MIPS64}, {"MIPS64N32", arch.MIPS64N32},
		{"MIPSEL64", arch.MIPSEL64}, {"MIPSEL64N32", arch.MIPSEL64N32},
	}
	byPtr := map[*arch.Info]string{}
	out := struct {
		GOARCH  string   `json:"goarch"`
		Arches  []info   `json:"arches"`
		Lookups []lookup `json:"lookups"`
	}{GOARCH: runtime.GOARCH}
	for _, v := range vars {
		byPtr[v.i] = v.v
		out.Arches = append(out.Arches, info{Var: v.v, Name: v.i.Name, ID: fmt.Sprintf("%#08x", uint32(v.i.ID)), Mask: v.i.SeccompMask,
			Numbers: v.i.SyscallNumbers, Names: v.i.SyscallNames})
	}
	var ins []string
	if err := json.NewDecoder(os.Stdin).Decode(&ins); err != nil {
		fmt.Fprintln(os.Stderr, err)
		os.Exit(3)
	}
	for _, in := range ins {
		l := lookup{In: in}
		func() {
			defer func() {
				if r := recover(); r != nil {
					l.Err = fmt.Sprint("panic: ", r)
				}
			}()
			i, err := arch.GetInfo(in)
			if err != nil {
				l.Err = err.Error()
				if i != nil {
					l.Err += " (and a non-nil Info)"
				}
				return
			}
			l.Name, l.Var = i.Name, byPtr[i]
		}()
		out.Lookups = append(out.Lookups, l)
	}
	json.NewEncoder(os.Stdout).Encode(out)
}
