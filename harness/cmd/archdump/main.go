// archdump dumps what the real arch package contains (C12): the syscall
// tables in both directions, audit ids and masks of every exported Info, and
// the answer of arch.GetInfo for every spelling given on stdin.
package main

import (
	"encoding/json"
	"flag"
	"fmt"
	"os"
	"runtime"
	"sort"

	seccomp "github.com/elastic/go-seccomp-bpf"
	"github.com/elastic/go-seccomp-bpf/arch"
)

// useTables is the history of -history (Tables!Use): the package's tables are consulted the way its users consult them - every
// architecture's own names, and every name that only OTHER tables have (alone, as a conditional entry, and all together), are
// compiled for that architecture - before anything is dumped. The tables are data: no use of the package may change them.
func useTables(tabled []*arch.Info) (uses int) {
	try := func(a *arch.Info, g seccomp.SyscallGroup) {
		defer func() { recover() }()
		g.Action = seccomp.ActionErrno
		p := seccomp.Policy{DefaultAction: seccomp.ActionAllow, Syscalls: []seccomp.SyscallGroup{g}}
		seccomp.VerifSetArch(&p, a)
		p.Assemble()
		uses++
	}
	for _, a := range tabled {
		var own, foreign []string
		seen := map[string]bool{}
		for n := range a.SyscallNames {
			own = append(own, n)
		}
		for _, o := range tabled {
			for n := range o.SyscallNames {
				if _, ok := a.SyscallNames[n]; !ok && !seen[n] {
					seen[n] = true
					foreign = append(foreign, n)
				}
			}
		}
		sort.Strings(own)
		sort.Strings(foreign)
		try(a, seccomp.SyscallGroup{Names: own})
		for _, f := range foreign {
			try(a, seccomp.SyscallGroup{Names: []string{f}})
			try(a, seccomp.SyscallGroup{NamesWithCondtions: []seccomp.NameWithConditions{{Name: f,
				Conditions: []seccomp.Condition{{Argument: 0, Operation: seccomp.Equal, Value: 1}}}}})
		}
		try(a, seccomp.SyscallGroup{Names: append(append([]string{}, own[:3]...), foreign...)})
	}
	return
}

func copyNames(m map[string]int) map[string]int {
	o := map[string]int{}
	for k, v := range m {
		o[k] = v
	}
	return o
}

func copyNumbers(m map[int]string) map[int]string {
	o := map[int]string{}
	for k, v := range m {
		o[k] = v
	}
	return o
}

type info struct {
	Var     string         `json:"var"`
	Name    string         `json:"name"`
	ID      string         `json:"id"` // hex
	Mask    int            `json:"mask"`
	Numbers map[int]string `json:"numbers"`
	Names   map[string]int `json:"names"`
}

type repeat struct {
	In  string `json:"in"`
	Why string `json:"why"`
}

type lookup struct {
	In   string `json:"in"`
	Name string `json:"name"` // Info.Name of the result, "" on error
	Var  string `json:"var"`
	Err  string `json:"err"`
}

func main() {
	history := flag.Bool("history", false, "use the tables (compilations with own and foreign names) before dumping them")
	flag.Parse()
	vars := []struct {
		v string
		i *arch.Info
	}{
		{"ARM", arch.ARM}, {"AARCH64", arch.AARCH64}, {"I386", arch.I386}, {"X32", arch.X32}, {"X86_64", arch.X86_64},
		{"PPC", arch.PPC}, {"PPC64", arch.PPC64}, {"PPC64LE", arch.PPC64LE}, {"S390", arch.S390}, {"S390X", arch.S390X},
		{"MIPS", arch.MIPS}, {"MIPSEL", arch.MIPSEL}, {"MIPS64", arch.MIPS64}, {"MIPS64N32", arch.MIPS64N32},
		{"MIPSEL64", arch.MIPSEL64}, {"MIPSEL64N32", arch.MIPSEL64N32},
	}
	byPtr := map[*arch.Info]string{}
	out := struct {
		GOARCH  string   `json:"goarch"`
		Arches  []info   `json:"arches"`
		Lookups []lookup `json:"lookups"`
		Uses    int      `json:"uses"`    // compilations performed before the dump (-history)
		Changed []string `json:"changed"` // tables that differ from what they were when the process started
		Repeats []repeat `json:"repeats"` // spellings that resolved differently when they were looked up again
	}{GOARCH: runtime.GOARCH}
	fresh := map[string]info{}
	for _, v := range vars {
		fresh[v.v] = info{Numbers: copyNumbers(v.i.SyscallNumbers), Names: copyNames(v.i.SyscallNames)}
	}
	if *history {
		var tabled []*arch.Info
		for _, v := range vars {
			if len(v.i.SyscallNumbers) > 0 {
				tabled = append(tabled, v.i)
			}
		}
		out.Uses = useTables(tabled)
	}
	for _, v := range vars {
		byPtr[v.i] = v.v
		out.Arches = append(out.Arches, info{Var: v.v, Name: v.i.Name, ID: fmt.Sprintf("%#08x", uint32(v.i.ID)), Mask: v.i.SeccompMask,
			Numbers: v.i.SyscallNumbers, Names: v.i.SyscallNames})
	}
	var ins []string
	if err := json.NewDecoder(os.Stdin).Decode(&ins); err != nil {
		fmt.Fprintln(os.Stderr, err)
		os.Exit(3)
	}
	// every spelling is looked up twice in a row and once more after all the others: what a spelling resolves to does not depend on
	// whether it was asked before (Hist!Memoryless for getinfo)
	all := append([]string{}, ins...)
	for _, in := range ins {
		all = append(all, in, in)
	}
	all = append(all, ins...)
	first := map[string]lookup{}
	for _, in := range all {
		l := lookup{In: in}
		func() {
			defer func() {
				if r := recover(); r != nil {
					l.Err = fmt.Sprint("panic: ", r)
				}
			}()
			i, err := arch.GetInfo(in)
			if err != nil {
				l.Err = err.Error()
				if i != nil {
					l.Err += " (and a non-nil Info)"
				}
				return
			}
			l.Name, l.Var = i.Name, byPtr[i]
		}()
		if f, seen := first[in]; !seen {
			first[in] = l
			out.Lookups = append(out.Lookups, l)
		} else if f != l {
			out.Repeats = append(out.Repeats, repeat{In: in, Why: fmt.Sprintf("GetInfo(%q) first gave (%q, %q), a later call in the same process (%q, %q)", in, f.Var, f.Err, l.Var, l.Err)})
		}
	}
	for _, v := range vars {
		f := fresh[v.v]
		for k, n := range v.i.SyscallNames {
			if fn, ok := f.Names[k]; !ok || fn != n {
				out.Changed = append(out.Changed, fmt.Sprintf("%s: SyscallNames[%q] = %d appeared or changed", v.v, k, n))
			}
		}
		for k := range f.Names {
			if _, ok := v.i.SyscallNames[k]; !ok {
				out.Changed = append(out.Changed, fmt.Sprintf("%s: SyscallNames[%q] disappeared", v.v, k))
			}
		}
		for k, n := range v.i.SyscallNumbers {
			if fn, ok := f.Numbers[k]; !ok || fn != n {
				out.Changed = append(out.Changed, fmt.Sprintf("%s: SyscallNumbers[%d] = %q appeared or changed", v.v, k, n))
			}
		}
		for k := range f.Numbers {
			if _, ok := v.i.SyscallNumbers[k]; !ok {
				out.Changed = append(out.Changed, fmt.Sprintf("%s: SyscallNumbers[%d] disappeared", v.v, k))
			}
		}
	}
	sort.Strings(out.Changed)
	json.NewEncoder(os.Stdout).Encode(out)
}
