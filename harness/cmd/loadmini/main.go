// loadmini is the smallest user of the loader that builds for every Linux target the host can execute (amd64, 386): it loads a
// policy that denies one harmless syscall (by NAME, resolved through the build target's own table), with or without thread-sync,
// and reports what the calling thread sees afterwards. C09's statement - nil only with the filter in force, an error for an
// invalid policy - holds for a program whichever target it was built for (loadchild's probes are amd64 numbers).
package main

import (
	"bufio"
	"encoding/json"
	"fmt"
	"os"
	"runtime"
	"strings"
	"syscall"

	seccomp "github.com/elastic/go-seccomp-bpf"
	"github.com/elastic/go-seccomp-bpf/arch"
)

type out struct {
	GOARCH    string `json:"goarch"`
	Supported bool   `json:"supported"`
	Kind      string `json:"kind"`
	TSync     bool   `json:"tsync"`
	Result    string `json:"result"`
	Mode      string `json:"seccomp_mode"` // the calling thread's Seccomp: line afterwards
	Other     string `json:"other_modes"`  // the distinct Seccomp: values of the other threads
	Probe     string `json:"probe"`        // errno of the denied syscall afterwards
	ProbeWas  string `json:"probe_before"`
}

func mode(path string) string {
	f, err := os.Open(path)
	if err != nil {
		return "?"
	}
	defer f.Close()
	sc := bufio.NewScanner(f)
	for sc.Scan() {
		if strings.HasPrefix(sc.Text(), "Seccomp:") {
			return strings.TrimSpace(strings.TrimPrefix(sc.Text(), "Seccomp:"))
		}
	}
	return "?"
}

func main() {
	kind, tsync := os.Args[1], len(os.Args) > 2 && os.Args[2] == "tsync"
	runtime.LockOSThread()
	o := out{GOARCH: runtime.GOARCH, Kind: kind, TSync: tsync, Supported: seccomp.Supported()}
	a, err := arch.GetInfo("")
	if err != nil {
		fmt.Fprintln(os.Stderr, err)
		os.Exit(3)
	}
	name := "afs_syscall" // not implemented by the kernel on x86 (ENOSYS), in the amd64 and the 386 table
	nr, ok := a.SyscallNames[name]
	if !ok {
		fmt.Fprintln(os.Stderr, "no", name)
		os.Exit(3)
	}
	probe := func() string {
		_, _, e := syscall.RawSyscall(uintptr(nr), 0, 0, 0)
		return fmt.Sprint(int(e))
	}
	o.ProbeWas = probe()
	pol := seccomp.Policy{DefaultAction: seccomp.ActionAllow, Syscalls: []seccomp.SyscallGroup{{Action: seccomp.ActionErrno, Names: []string{name}}}}
	if kind == "invalid" {
		pol.Syscalls[0].Names = append(pol.Syscalls[0].Names, "verif_no_such_syscall")
	}
	f := seccomp.Filter{NoNewPrivs: true, Policy: pol}
	if tsync {
		f.Flag = seccomp.FilterFlagTSync
	}
	if err := seccomp.LoadFilter(f); err != nil {
		o.Result = "err: " + err.Error()
	} else {
		o.Result = "nil"
	}
	o.Probe = probe()
	o.Mode = mode(fmt.Sprintf("/proc/self/task/%d/status", syscall.Gettid()))
	seen := map[string]bool{}
	if ents, err := os.ReadDir("/proc/self/task"); err == nil {
		for _, e := range ents {
			if e.Name() != fmt.Sprint(syscall.Gettid()) {
				if m := mode("/proc/self/task/" + e.Name() + "/status"); !seen[m] {
					seen[m] = true
					o.Other += m + " "
				}
			}
		}
	}
	json.NewEncoder(os.Stdout).Encode(o)
}
