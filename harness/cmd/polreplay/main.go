// polreplay replays policy cases exported by TLC (CompileGen.tla) on the real
// compiler: every abstract policy is concretised for real architectures,
// syscalls, 32-bit words, argument positions and byte orders, compiled by the
// real Policy.Assemble, raw-encoded, checked by the kernel-verifier port and
// executed by the independent interpreter on the images of the abstract
// events. The expected decision of every event is the one TLC computed with
// the specification's Decide; nothing is recomputed here.
//
// Failure kinds (mapped to properties by the caller):
//
//	decision   native event, wrong return value          (C01 / C02 / C03)
//	foreign    foreign-architecture event: wrong value or it touched the rules (C04)
//	x32        x32 event on x86_64: wrong value or it touched the rules        (C04)
//	invalid    accepted policy, program refused by the verifier port / raw
//	           encoder / return set not closed                                 (C05)
//	accept     defective policy accepted, or valid policy rejected            (C07)
//	panic      Assemble panicked                                               (C07)
//	determinism the compilation modified the caller's policy, or a second
//	           compilation / a compilation of a slice-sharing copy differs     (C13)
package main

import (
	"bufio"
	"bytes"
	"encoding/binary"
	"encoding/json"
	"flag"
	"fmt"
	"math/rand"
	"os"
	"reflect"
	"runtime"
	"strconv"
	"strings"
	"syscall"

	seccomp "github.com/elastic/go-seccomp-bpf"
	"github.com/elastic/go-seccomp-bpf/arch"
	"golang.org/x/net/bpf"
	"verifharness/watch"

	"verifharness/bpfvm"
	"verifharness/polcase"
	"verifharness/polsnap"
	"verifharness/probe"
)

type failure struct {
	Kind      string                 `json:"kind"`
	Why       string                 `json:"why"`
	Scope     string                 `json:"scope"`
	CaseIndex int                    `json:"case_index"`
	Abstract  interface{}            `json:"abstract_policy"`
	Conc      map[string]interface{} `json:"concretisation"`
	Policy    interface{}            `json:"policy"` // the Go-level policy (JSON form)
	Event     *concEvent             `json:"event,omitempty"`
	Expected  string                 `json:"expected,omitempty"`
	Observed  string                 `json:"observed,omitempty"`
	Program   []string               `json:"program,omitempty"`
}

type concEvent struct {
	Words    [16]uint32 `json:"words"`
	Abstract string     `json:"abstract"`
}

type summary struct {
	Scope                 string         `json:"scope"`
	Cases                 int            `json:"cases"`
	Compilations          int            `json:"compilations"`
	Retargeted            int            `json:"retargeted_values"`
	HostOrderCompilations int            `json:"host_order_compilations"`
	WholeTable            int            `json:"whole_table_compilations"`
	OtherDomain           int            `json:"compilations_under_PER_LINUX32"`
	ReusedValues          int            `json:"policy_values_compiled_before_with_another_content"`
	Jailed                bool           `json:"process_without_a_file_system"`
	Blocked               bool           `json:"process_whose_seccomp_call_is_answered_ENOSYS"`
	Accepted              int            `json:"accepted"`
	Rejected              int            `json:"rejected"`
	Events                int            `json:"events"`
	NonTrivial            int            `json:"distinct_nontrivial"` // distinct (policy, concretisation) with >= 2 different decisions
	Failures              map[string]int `json:"failures"`
	Drift                 int            `json:"drift"`
	DriftSample           []string       `json:"drift_sample"`
	XNetChecked           int            `json:"xnet_crosschecked"`
	Samples               []interface{}  `json:"samples"`
	Bridged               int            `json:"programs_over_255"`
	DumpChecked           int            `json:"dump_checked"`
	Oversize              int            `json:"oversize_cases_not_judged"`
}

var (
	sum      = summary{Failures: map[string]int{}}
	failOut  *json.Encoder
	maxFails = 5
	kept     = map[string]int{}
)

func fail(f failure) {
	sum.Failures[f.Kind]++
	if kept[f.Kind] < maxFails {
		kept[f.Kind]++
		failOut.Encode(f)
	}
}

// compileCount numbers the compilations; every third one runs under another execution domain (see compile).
var compileCount int

type compiled struct {
	insts []bpf.Instruction
	err   error
	pan   interface{}
}

// compile bounds the call (watch.Do): a compilation that does not return neither accepts nor rejects the policy (C07).
func compile(pol *seccomp.Policy) ([]bpf.Instruction, error, interface{}) {
	compileCount++
	x, hung := watch.Do(func() compiled {
		insts, err, pan := compile1(pol, compileCount)
		return compiled{insts, err, pan}
	})
	if hung != "" {
		return nil, nil, hung
	}
	return x.insts, x.err, x.pan
}

func compile1(pol *seccomp.Policy, compileCount int) (insts []bpf.Instruction, err error, pan interface{}) {
	defer func() {
		if r := recover(); r != nil {
			pan = r
		}
	}()
	// What a policy compiles to is a function of the policy (and, for the architecture left unset, of the CPU target the library
	// was built for) - not of what the process is told about the machine: every third compilation runs on a thread whose
	// execution domain is PER_LINUX32 (setarch i686 / linux32: uname(2) then reports i686 to a 64-bit process) or UNAME26.
	if compileCount%3 == 0 {
		runtime.LockOSThread()
		defer runtime.UnlockOSThread()
		per := uintptr(0x0008) // PER_LINUX32
		if compileCount%2 == 0 {
			per |= 0x0020000 // UNAME26
		}
		if old, _, e := syscall.RawSyscall(syscall.SYS_PERSONALITY, per, 0, 0); e == 0 {
			sum.OtherDomain++
			defer syscall.RawSyscall(syscall.SYS_PERSONALITY, old, 0, 0)
		}
	}
	insts, err = pol.Assemble()
	return
}

func words(c *polcase.Conc, ev *polcase.Event, archWord uint32, nr uint32, rng *rand.Rand) bpfvm.Data {
	var d bpfvm.Data
	d[0], d[1] = nr, archWord
	d[2], d[3] = rng.Uint32(), rng.Uint32()
	var args [6]uint64
	set := [6]bool{}
	for k, v := range ev.Args {
		a, _ := strconv.Atoi(k)
		if a >= 0 && a <= 5 {
			args[c.Pos[a]] = c.Embed64(v)
			set[c.Pos[a]] = true
		}
	}
	for i := 0; i < 6; i++ {
		if !set[i] {
			args[i] = rng.Uint64()
		}
		hi, lo := uint32(args[i]>>32), uint32(args[i])
		if c.LE {
			d[4+2*i], d[5+2*i] = lo, hi
		} else {
			d[4+2*i], d[5+2*i] = hi, lo
		}
	}
	return d
}

func render(raw []bpf.RawInstruction) []string {
	out := make([]string, len(raw))
	for i, r := range raw {
		out[i] = fmt.Sprintf("%d: op=%#x jt=%d jf=%d k=%#x", i, r.Op, r.Jt, r.Jf, r.K)
	}
	return out
}

// touchedRules reports whether a non-native event executed anything beyond
// the architecture test (foreign) / architecture test, nr load and x32 guard.
func touchedRules(raw []bpf.RawInstruction, path []int, foreign bool) string {
	afterNr := false
	guards := 0
	for _, pc := range path {
		in := raw[pc]
		switch in.Op {
		case 0x20:
			switch {
			case in.K == 4:
			case in.K == 0 && !foreign:
				afterNr = true
			default:
				return fmt.Sprintf("executed load of offset %d at %d", in.K, pc)
			}
		case 0x15, 0x25, 0x35, 0x45:
			if afterNr {
				if in.Op == 0x35 && in.K == 0x40000000 && guards == 0 {
					guards++
				} else {
					return fmt.Sprintf("compared the syscall number with %#x at %d", in.K, pc)
				}
			}
		}
	}
	return ""
}

func xnetRun(insts []bpf.Instruction, d *bpfvm.Data) (uint32, error) {
	vm, err := bpf.NewVM(insts)
	if err != nil {
		return 0, err
	}
	buf := new(bytes.Buffer)
	binary.Write(buf, binary.BigEndian, d[:])
	r, err := vm.Run(buf.Bytes())
	return uint32(r), err
}

func polJSON(p *seccomp.Policy) interface{} {
	type cond struct {
		Argument  uint32 `json:"argument"`
		Operation string `json:"operation"`
		Value     uint64 `json:"value"`
	}
	type nwc struct {
		Name       string `json:"name"`
		Conditions []cond `json:"arguments"`
	}
	type grp struct {
		Names  []string `json:"names"`
		NWC    []nwc    `json:"names_with_args"`
		Action uint32   `json:"action"`
	}
	out := struct {
		Default uint32 `json:"default_action"`
		Groups  []grp  `json:"syscalls"`
	}{Default: uint32(p.DefaultAction)}
	for _, g := range p.Syscalls {
		gg := grp{Names: g.Names, Action: uint32(g.Action)}
		for _, n := range g.NamesWithCondtions {
			nn := nwc{Name: n.Name}
			for _, c := range n.Conditions {
				nn.Conditions = append(nn.Conditions, cond{c.Argument, string(c.Operation), c.Value})
			}
			gg.NWC = append(gg.NWC, nn)
		}
		out.Groups = append(out.Groups, gg)
	}
	return out
}

// modelDrift compares the model-compiled program with the real one
// (diagnostic only). Operand kinds are inferred from the last load in
// program order.
func modelDrift(c *polcase.Conc, m *polcase.Model, raw []bpf.RawInstruction, insts []bpf.Instruction) string {
	if m.Le != c.LE || m.Err == "skipped" {
		return ""
	}
	if len(m.Prog) != len(insts) {
		return fmt.Sprintf("model %d instructions, real %d", len(m.Prog), len(insts))
	}
	last := -1 // slot of the last load
	for i, mi := range m.Prog {
		var vi int64
		var vs string
		if err := json.Unmarshal(mi.V, &vi); err != nil {
			json.Unmarshal(mi.V, &vs)
		}
		bad := func(what string) string {
			return fmt.Sprintf("instruction %d: model %s %s %s st=%d sf=%d, real %v (%s)", i, mi.K, mi.C, string(mi.V), mi.St, mi.Sf, insts[i], what)
		}
		switch x := insts[i].(type) {
		case bpf.LoadAbsolute:
			if mi.K != "ld" {
				return bad("kind")
			}
			slot := int(vi)
			want := uint32(slot * 4)
			if slot >= 4 {
				a, h := (slot-4)/2, (slot-4)%2
				want = uint32(16 + 8*c.Pos[a] + 4*h)
			}
			if x.Off != want {
				return bad("offset")
			}
			last = slot
		case bpf.RetConstant:
			v, _ := polcase.RetValue(vs)
			if mi.K != "ret" || v != x.Val {
				return bad("value")
			}
		case bpf.Jump:
			if mi.K != "ja" || uint32(vi) != x.Skip {
				return bad("skip")
			}
		case bpf.JumpIf:
			if mi.K != "jif" || int(x.SkipTrue) != mi.St || int(x.SkipFalse) != mi.Sf {
				return bad("skips")
			}
			var want uint32
			switch {
			case vs == "own":
				want = uint32(c.Arch.ID)
			case last == 0 && mi.C == "ge":
				want = 0x40000000
			case last == 0:
				if int(vi) < len(c.Sys) {
					want = uint32(c.Sys[vi].Nr | c.Arch.SeccompMask)
				}
			case last >= 4:
				h := (last - 4) % 2
				isHi := (h == 1) == c.LE
				if isHi {
					want = c.Hi.F(uint32(vi), c.W)
				} else {
					want = c.Lo.F(uint32(vi), c.W)
				}
			}
			if x.Val != want {
				return bad(fmt.Sprintf("operand, want %#x", want))
			}
			conds := map[string]bpf.JumpTest{"eq": bpf.JumpEqual, "ne": bpf.JumpNotEqual, "gt": bpf.JumpGreaterThan, "lt": bpf.JumpLessThan,
				"ge": bpf.JumpGreaterOrEqual, "le": bpf.JumpLessOrEqual, "set": bpf.JumpBitsSet, "nset": bpf.JumpBitsNotSet}
			if conds[mi.C] != x.Cond {
				return bad("test")
			}
		}
	}
	return ""
}

// lastValue is the Policy VALUE the previous case compiled (with whatever the library keeps in its unexported fields).
var lastValue *seccomp.Policy
var runCount int

func runCase(h *polcase.Header, idx int, cs *polcase.Case, c *polcase.Conc, rng *rand.Rand, expand int, doDrift bool) {
	pol := c.Build(&cs.Pol)
	if lastValue != nil && runCount%2 == 1 && c.ArchVia != "default" {
		// history of a VALUE: the caller keeps one Policy variable, has compiled it holding the previous case's policy, and now
		// rewrites its exported fields (as unpacking a configuration into it again does). What it compiles to is what it holds now.
		built := pol
		pol = *lastValue
		pol.DefaultAction, pol.Syscalls = built.DefaultAction, built.Syscalls
		c.SetArch(&pol)
		sum.ReusedValues++
	}
	runCount++
	defer func() { v := pol; lastValue = &v }()
	var order binary.ByteOrder = binary.BigEndian
	if c.LE {
		order = binary.LittleEndian
	}
	if c.HostOrder {
		order = pkgOrder
		sum.HostOrderCompilations++
	}
	seccomp.VerifSetEndian(order)
	before, _ := json.Marshal(polJSON(&pol))
	snap0 := polsnap.Take(&pol)
	shared := pol // a copy of the policy value that shares all slices
	c.Domain = ""
	if (compileCount+1)%3 == 0 {
		c.Domain = "PER_LINUX32"
	}
	insts, err, pan := compile(&pol)
	sum.Compilations++
	// C13: the caller's policy is untouched, a second compilation of the value and a compilation of a copy that
	// shares its slices give the same instruction sequence
	if pan == nil {
		c13 := func(why string) {
			f := failure{Scope: h.Scope, CaseIndex: idx, Abstract: cs.Pol, Conc: c.Describe(), Policy: json.RawMessage(before), Kind: "determinism", Why: why}
			fail(f)
		}
		if !reflect.DeepEqual(snap0, polsnap.Take(&pol)) {
			c13("Policy.Assemble modified the caller's policy (exported fields, backing arrays or capacity tails)")
		} else {
			insts2, err2, pan2 := compile(&pol)
			insts3, err3, pan3 := compile(&shared)
			if pan2 != nil || pan3 != nil || (err == nil) != (err2 == nil) || (err == nil) != (err3 == nil) {
				c13("a repeated compilation of an equal policy behaves differently (error / panic)")
			} else if err == nil && !reflect.DeepEqual(insts, insts2) {
				c13(fmt.Sprintf("compiling the same policy value a second time gives a different program (%d vs %d instructions)", len(insts), len(insts2)))
			} else if err == nil && !reflect.DeepEqual(insts, insts3) {
				c13(fmt.Sprintf("a copy that shares the policy's slices compiles to a different program (%d vs %d instructions)", len(insts), len(insts3)))
			} else if !reflect.DeepEqual(snap0, polsnap.Take(&pol)) {
				c13("a repeated compilation modified the caller's policy")
			}
		}
	}
	base := failure{Scope: h.Scope, CaseIndex: idx, Abstract: cs.Pol, Conc: c.Describe(), Policy: json.RawMessage(before)}
	if pan != nil {
		f := base
		f.Kind, f.Why = "panic", "Policy.Assemble: "+watch.Text(pan)
		fail(f)
		return
	}
	if !cs.Reject && cs.Model.Err == "" && len(cs.Model.Prog) > 4096 {
		// a defect-free policy that does not fit the kernel's limit: the statement leaves the outcome open
		sum.Oversize++
		return
	}
	if (err != nil) != cs.Reject {
		f := base
		f.Kind = "accept"
		if err != nil {
			f.Why = "a policy free of the listed defects was rejected: " + err.Error()
			f.Expected, f.Observed = "accepted", "error: "+err.Error()
		} else {
			f.Why = "a defective policy was accepted"
			f.Expected, f.Observed = "error and no program", fmt.Sprintf("program of %d instructions", len(insts))
		}
		fail(f)
		if err == nil {
			// the program that was returned without error must still be a valid filter (C05), whatever the policy was
			if raw, rerr := bpf.Assemble(insts); rerr != nil {
				g := base
				g.Kind, g.Why = "invalid", "raw encoding of a program returned without error failed: "+rerr.Error()
				fail(g)
			} else if kerr := bpfvm.KernelAccepts(raw); kerr != nil && len(raw) <= 4096 {
				g := base
				g.Kind, g.Why, g.Program = "invalid", "the seccomp verifier would refuse a program returned without error: "+kerr.Error(), render(raw)
				fail(g)
			}
		}
		return
	}
	if err != nil {
		sum.Rejected++
		if insts != nil {
			f := base
			f.Kind, f.Why = "accept", "an error was returned together with a program"
			fail(f)
		}
		return
	}
	sum.Accepted++
	if len(insts) > 255 {
		sum.Bridged++
	}
	// beyond the listed properties: Policy.Dump prints exactly the program Assemble returns, one line per instruction
	if idx%5 == 0 {
		var db bytes.Buffer
		derr := pol.Dump(&db)
		var want bytes.Buffer
		for n, in := range insts {
			fmt.Fprintf(&want, "%d: %v\n", n, in)
		}
		sum.DumpChecked++
		if derr != nil || !bytes.Equal(db.Bytes(), want.Bytes()) {
			f := base
			f.Kind, f.Why = "dump", fmt.Sprintf("Policy.Dump does not print the program Policy.Assemble returns (err %v)", derr)
			fail(f)
		}
	}
	raw, rerr := bpf.Assemble(insts)
	if rerr != nil {
		f := base
		f.Kind, f.Why = "invalid", "raw encoding failed: "+rerr.Error()
		fail(f)
		return
	}
	if len(raw) <= 4096 {
		if kerr := bpfvm.KernelAccepts(raw); kerr != nil {
			f := base
			f.Kind, f.Why, f.Program = "invalid", "the seccomp verifier would refuse the program: "+kerr.Error(), render(raw)
			fail(f)
			return
		}
	}
	allowed := map[uint32]bool{}
	if v, ok := polcase.RetValue(encAct(cs.Pol.Def)); ok {
		allowed[v] = true
	}
	for _, g := range cs.Pol.Groups {
		if v, ok := polcase.RetValue(encAct(g.Act)); ok {
			allowed[v] = true
		}
	}
	if c.Arch.ID == arch.X86_64.ID {
		allowed[0x00050026] = true
	}
	for v := range bpfvm.AllRetSet(raw) {
		if !allowed[v] {
			f := base
			f.Kind, f.Why, f.Program = "invalid", fmt.Sprintf("the program can return %#x, which is neither the default, a group action nor ERRNO(ENOSYS)", v), render(raw)
			fail(f)
			break // the program is still executable: the events below are run all the same
		}
	}
	if doDrift {
		if d := modelDrift(c, &cs.Model, raw, insts); d != "" {
			sum.Drift++
			if len(sum.DriftSample) < 5 {
				sum.DriftSample = append(sum.DriftSample, fmt.Sprintf("case %d (%s): %s", idx, c.Arch.Name, d))
			}
		}
	}
	others := polcase.OtherArchWords(uint32(c.Arch.ID))
	decisions := map[string]bool{}
	for ei := range h.Events {
		ev := &h.Events[ei]
		want := cs.Ideal[ei]
		if c.Arch == arch.X32 {
			want = cs.IdealX32[ei]
		}
		wantV, ok := polcase.RetValue(want)
		if !ok {
			fmt.Fprintln(os.Stderr, "unknown decision name", want)
			os.Exit(2)
		}
		decisions[want] = true
		var archWords []uint32
		foreign := ev.Arch != "own"
		if foreign {
			archWords = others
		} else {
			archWords = []uint32{uint32(c.Arch.ID)}
		}
		nrs := c.NrClass(ev.Nr, cs.Pol.X86)
		x32ev := !foreign && cs.Pol.X86 && ev.Nr >= c.X32Bit
		// bounded, seeded expansion of the classes
		nA, nN := len(archWords), len(nrs)
		runs := nA
		if nN > runs {
			runs = nN
		}
		if expand > 0 && runs > expand {
			runs = expand
		}
		offA, offN := rng.Intn(nA), 0
		if nN > 1 {
			offN = rng.Intn(nN)
		}
		for r := 0; r < runs; r++ {
			aw := archWords[(offA+r)%nA]
			nr := nrs[(offN+r)%nN]
			if r == 0 {
				nr = nrs[0] // the canonical member first
			}
			d := words(c, ev, aw, nr, rng)
			got, path, verr := bpfvm.Run(raw, &d)
			sum.Events++
			kind := "decision"
			if foreign {
				kind = "foreign"
			} else if x32ev {
				kind = "x32"
			}
			mk := func(why, obs string) failure {
				f := base
				f.Kind, f.Why = kind, why
				f.Event = &concEvent{Words: d, Abstract: fmt.Sprintf("arch=%s nr=%d args=%v", ev.Arch, ev.Nr, ev.Args)}
				f.Expected, f.Observed = fmt.Sprintf("%s (%#x)", want, wantV), obs
				f.Program = render(raw)
				return f
			}
			if verr != nil {
				fail(mk("interpreter fault: "+verr.Error(), "fault"))
				continue
			}
			if got != wantV {
				fail(mk("the filter returns a different action than the policy prescribes", fmt.Sprintf("%#x", got)))
				continue
			}
			if foreign || x32ev {
				if t := touchedRules(raw, path, foreign); t != "" {
					fail(mk("a foreign-architecture / x32 event reached the rules: "+t, fmt.Sprintf("%#x via path %v", got, path)))
					continue
				}
			}
			if !c.LE && sum.Events%97 == 0 {
				if xg, xerr := xnetRun(insts, &d); xerr == nil {
					sum.XNetChecked++
					if xg != got {
						fmt.Fprintf(os.Stderr, "interpreter disagreement: bpfvm %#x, x/net/bpf %#x\n", got, xg)
						os.Exit(2)
					}
				}
			}
		}
	}
	if len(decisions) >= 2 {
		sum.NonTrivial++
	}
	// history of the value: the SAME policy value (same Syscalls backing array), compiled above for c.Arch, is now compiled
	// for another architecture of its class; its decisions there are the policy's (the first compilation must leave nothing
	// behind that a later one could see)
	// (not for a policy that was padded to the whole table of c.Arch: the extra names are that table's, another table lacks some)
	if !cs.Pol.X86 && idx%2 == 0 && len(c.Pad) == 0 {
		var b *arch.Info
		for _, o := range []*arch.Info{arch.I386, arch.ARM, arch.AARCH64} {
			if o != c.Arch {
				b = o
				break
			}
		}
		c2 := *c
		c2.Arch = b
		c2.Sys = nil
		for _, s := range c.Sys {
			if nr, ok := b.SyscallNames[s.Name]; ok {
				c2.Sys = append(c2.Sys, polcase.SysPair{Name: s.Name, Nr: nr})
			}
		}
		distinct := map[int]bool{}
		for _, s := range c2.Sys {
			distinct[s.Nr] = true
		}
		if len(c2.Sys) == len(c.Sys) && len(distinct) == len(c2.Sys) {
			seccomp.VerifSetArch(&pol, b)
			insts2, err2, pan2 := compile(&pol)
			sum.Retargeted++
			var raw2 []bpf.RawInstruction
			if pan2 == nil && err2 == nil {
				raw2, _ = bpf.Assemble(insts2)
			}
			hb := base
			hb.Conc = c2.Describe()
			if raw2 == nil {
				hb.Kind, hb.Why = "decision", fmt.Sprintf("the policy value compiled for %s does not compile for %s afterwards (%v %v)", c.Arch.Name, b.Name, err2, pan2)
				fail(hb)
			} else {
				for ei := range h.Events {
					ev := &h.Events[ei]
					if ev.Arch != "own" {
						continue
					}
					wantV, _ := polcase.RetValue(cs.Ideal[ei])
					d := words(&c2, ev, uint32(b.ID), c2.NrClass(ev.Nr, false)[0], rng)
					got, _, verr := bpfvm.Run(raw2, &d)
					sum.Events++
					if verr != nil || got != wantV {
						hb.Kind = "decision"
						hb.Why = fmt.Sprintf("the same policy value, compiled for %s first and then for %s, returns a different action than the policy prescribes", c.Arch.Name, b.Name)
						hb.Event = &concEvent{Words: d, Abstract: fmt.Sprintf("arch=%s nr=%d args=%v", ev.Arch, ev.Nr, ev.Args)}
						hb.Expected, hb.Observed = fmt.Sprintf("%s (%#x)", cs.Ideal[ei], wantV), fmt.Sprintf("%#x", got)
						hb.Program = render(raw2)
						fail(hb)
						break
					}
				}
			}
		}
	}
	if len(sum.Samples) < 4 && len(decisions) >= 2 && rng.Intn(50) == 0 {
		sum.Samples = append(sum.Samples, map[string]interface{}{"policy": json.RawMessage(before), "concretisation": c.Describe(),
			"instructions": len(raw), "events_run": len(h.Events), "distinct_decisions": len(decisions)})
	}
}

func encAct(a string) string {
	if a == "errno" {
		return "errno|EPERM"
	}
	return a
}

// archVar is the exported variable of the architecture with this name.
func archVar(n string) *arch.Info {
	for _, a := range []*arch.Info{arch.X86_64, arch.X32, arch.I386, arch.ARM, arch.AARCH64} {
		if a.Name == n {
			return a
		}
	}
	return archByName(n)
}

func archByName(n string) *arch.Info {
	a, err := arch.GetInfo(n)
	if err != nil {
		fmt.Fprintln(os.Stderr, err)
		os.Exit(2)
	}
	return a
}

// pkgOrder is the byte-order value the package chose when it was initialised (read through the hook and put back), hostLE
// the order in which this host stores a 64-bit word
var (
	pkgOrder binary.ByteOrder
	hostLE   = binary.NativeEndian.Uint16([]byte{1, 0}) == 1
)

func main() {
	pkgOrder = seccomp.VerifSetEndian(binary.LittleEndian)
	seccomp.VerifSetEndian(pkgOrder)
	in := flag.String("in", "", "case file written by CompileGen")
	failFile := flag.String("failures", "", "ndjson file for failure records")
	sumFile := flag.String("summary", "", "summary json")
	seed := flag.Int64("seed", 1, "seed")
	concs := flag.Int("concs", 3, "concretisations per case")
	expand := flag.Int("expand", 3, "members run per event class (0 = all)")
	replay := flag.String("replay", "", "replay one failure record")
	block := flag.Bool("blockseccomp", false, "before the first compilation, put every thread under an enclosing filter that answers seccomp(2) with ENOSYS (a container profile, a kernel before 3.17)")
	jail := flag.String("jail", "", "change the root of the process to this (empty) directory before the first compilation: no /proc, no /sys, no /etc")
	flag.Parse()
	rng := rand.New(rand.NewSource(*seed))

	if *replay != "" {
		os.Exit(doReplay(*replay))
	}

	ff, err := os.Create(*failFile)
	if err != nil {
		fmt.Fprintln(os.Stderr, err)
		os.Exit(2)
	}
	defer ff.Close()
	fw := bufio.NewWriter(ff)
	defer fw.Flush()
	failOut = json.NewEncoder(fw)

	f, err := os.Open(*in)
	if err != nil {
		fmt.Fprintln(os.Stderr, err)
		os.Exit(2)
	}
	var sumOut *os.File
	if *sumFile != "" {
		if sumOut, err = os.Create(*sumFile); err != nil {
			fmt.Fprintln(os.Stderr, err)
			os.Exit(2)
		}
	}
	if *block {
		if runtime.GOARCH != "amd64" {
			fmt.Fprintln(os.Stderr, "-blockseccomp needs amd64")
			os.Exit(2)
		}
		if err := probe.BlockSeccompAllThreads(); err != nil {
			fmt.Fprintln(os.Stderr, "blockseccomp:", err)
			os.Exit(2)
		}
		sum.Blocked = true
	}
	if *jail != "" {
		// What a policy compiles to is a function of the policy: not of what the process can read about the machine it runs on.
		// All files are open; from here on the process sees an empty file system.
		if err := syscall.Chroot(*jail); err != nil {
			fmt.Fprintln(os.Stderr, "chroot:", err)
			os.Exit(2)
		}
		os.Chdir("/")
		if _, err := os.Stat("/proc/self"); err == nil {
			fmt.Fprintln(os.Stderr, "the jail has a /proc")
			os.Exit(2)
		}
		sum.Jailed = true
	}
	sc := bufio.NewScanner(f)
	sc.Buffer(make([]byte, 1<<20), 1<<28)
	var h polcase.Header
	first := true
	idx := 0
	x86Arches := []*arch.Info{arch.X86_64}
	otherArches := []*arch.Info{arch.I386, arch.ARM, arch.AARCH64}
	for sc.Scan() && !watch.Stop() {
		if first {
			first = false
			if err := json.Unmarshal(sc.Bytes(), &h); err != nil {
				fmt.Fprintln(os.Stderr, "bad header:", err)
				os.Exit(2)
			}
			for i := range h.Events {
				if err := h.Events[i].Decode(); err != nil {
					fmt.Fprintln(os.Stderr, err)
					os.Exit(2)
				}
			}
			sum.Scope = h.Scope
			continue
		}
		var cs polcase.Case
		if err := json.Unmarshal(sc.Bytes(), &cs); err != nil {
			fmt.Fprintln(os.Stderr, "bad case:", err)
			os.Exit(2)
		}
		sum.Cases++
		if sum.Cases%4 == 0 {
			// history: a compilation that fails part-way (second group: unknown name; third group: argument index 9) precedes
			// this case in the process. A failed compilation must leave nothing behind that the next one could see.
			for _, a := range []*arch.Info{arch.X86_64, arch.ARM} {
				bad := seccomp.Policy{DefaultAction: seccomp.ActionAllow, Syscalls: []seccomp.SyscallGroup{
					{Action: seccomp.ActionErrno, Names: []string{"read", "write", "close"}},
					{Action: seccomp.ActionTrap, Names: []string{"open", "verif_no_such_syscall"}},
					{Action: seccomp.ActionKillProcess, NamesWithCondtions: []seccomp.NameWithConditions{{Name: "ioctl",
						Conditions: []seccomp.Condition{{Argument: 9, Operation: seccomp.Equal, Value: 1}}}}}}}
				seccomp.VerifSetArch(&bad, a)
				compile(&bad)
			}
		}
		bit := polcase.HasBitOp(&cs.Pol)
		for k := 0; k < *concs; k++ {
			c := &polcase.Conc{W: h.W, X32Bit: h.X32Bit, NSys: h.NSys}
			if cs.Pol.X86 {
				c.Arch = x86Arches[0]
			} else {
				c.Arch = otherArches[(idx+k)%len(otherArches)]
			}
			mode := "mixed"
			if k == 0 {
				mode = "ident"
			}
			sys, err := polcase.PickSyscalls(c.Arch, h.NSys, mode, rng)
			if err != nil {
				fmt.Fprintln(os.Stderr, err)
				os.Exit(2)
			}
			c.Sys = sys
			// argument positions: abstract 0,1,5 (and the rest) to a seeded permutation; k = 0 keeps the identity
			perm := []int{0, 1, 2, 3, 4, 5}
			if k > 0 {
				rng.Shuffle(6, func(i, j int) { perm[i], perm[j] = perm[j], perm[i] })
			}
			copy(c.Pos[:], perm)
			pickEmb := func() polcase.Embedding {
				for {
					e := polcase.Embeddings[rng.Intn(len(polcase.Embeddings))]
					if e.HomAnd || (!bit && h.W <= 2) {
						return e
					}
				}
			}
			if k == 0 {
				c.Hi, c.Lo = polcase.Embeddings[0], polcase.Embeddings[0] // identity: words can coincide with syscall numbers
			} else {
				c.Hi, c.Lo = pickEmb(), pickEmb()
			}
			c.LE = (idx+k)%2 == 0
			c.ArchVia = []string{"", "name", "default"}[(idx/2+k)%3]
			if (idx+k)%3 == 1 {
				c.HostOrder, c.LE = true, hostLE
			}
			if k > 0 {
				c.PickUnknown(rng)
				if k%2 == 1 {
					c.SetParseOps(rng)
				}
			}
			// the whole syscall table (C01): every second concretisation of a policy with a group that lists all abstract syscalls
			// lets that group list the rest of the real table as well
			if k%2 == 1 && !cs.Reject && polcase.HasWholeList(&cs.Pol, h.NSys) {
				c.SetPadTable()
				sum.WholeTable++
			}
			runCase(&h, idx, &cs, c, rng, *expand, len(c.Pad) == 0)
			// once per x86 case: the same policy compiled for the x32 description of the architecture (Compile!DecideX32Target)
			if k == 0 && cs.Pol.X86 && (cs.Reject || len(cs.IdealX32) == len(h.Events)) {
				cx := *c
				cx.Arch = arch.X32
				if sys, err := polcase.PickSyscalls(cx.Arch, h.NSys, "mixed", rng); err == nil {
					cx.Sys = sys
					cx.PickUnknown(rng)
					runCase(&h, idx, &cs, &cx, rng, *expand, false)
				}
			}
		}
		idx++
	}
	if err := sc.Err(); err != nil {
		fmt.Fprintln(os.Stderr, err)
		os.Exit(2)
	}
	out, _ := json.MarshalIndent(sum, "", " ")
	if sumOut != nil {
		sumOut.Write(out)
		sumOut.Close()
	} else {
		fmt.Println(string(out))
	}
}

// ---- replay of one failure record, independent of TLC

type replayPolicy struct {
	Default uint32 `json:"default_action"`
	Groups  []struct {
		Names []string `json:"names"`
		NWC   []struct {
			Name       string `json:"name"`
			Conditions []struct {
				Argument  uint32 `json:"argument"`
				Operation string `json:"operation"`
				Value     uint64 `json:"value"`
			} `json:"arguments"`
		} `json:"names_with_args"`
		Action uint32 `json:"action"`
	} `json:"syscalls"`
}

func doReplay(path string) int {
	data, err := os.ReadFile(path)
	if err != nil {
		fmt.Fprintln(os.Stderr, err)
		return 2
	}
	var rec struct {
		Kind     string                 `json:"kind"`
		Policy   replayPolicy           `json:"policy"`
		Conc     map[string]interface{} `json:"concretisation"`
		Event    *concEvent             `json:"event"`
		Expected string                 `json:"expected"`
	}
	if err := json.Unmarshal(data, &rec); err != nil {
		fmt.Fprintln(os.Stderr, err)
		return 2
	}
	pol := seccomp.Policy{DefaultAction: seccomp.Action(rec.Policy.Default)}
	for _, g := range rec.Policy.Groups {
		sg := seccomp.SyscallGroup{Names: g.Names, Action: seccomp.Action(g.Action)}
		for _, n := range g.NWC {
			nc := seccomp.NameWithConditions{Name: n.Name}
			for _, c := range n.Conditions {
				nc.Conditions = append(nc.Conditions, seccomp.Condition{Argument: c.Argument, Operation: seccomp.Operation(c.Operation), Value: c.Value})
			}
			sg.NamesWithCondtions = append(sg.NamesWithCondtions, nc)
		}
		pol.Syscalls = append(pol.Syscalls, sg)
	}
	switch via, _ := rec.Conc["arch_via"].(string); via {
	case "name":
		seccomp.VerifSetArch(&pol, archByName(rec.Conc["arch"].(string)))
	case "default":
	default:
		seccomp.VerifSetArch(&pol, archVar(rec.Conc["arch"].(string)))
	}
	if ho, _ := rec.Conc["host_order"].(bool); ho {
		seccomp.VerifSetEndian(pkgOrder)
	} else if le, _ := rec.Conc["little_endian"].(bool); le {
		seccomp.VerifSetEndian(binary.LittleEndian)
	} else {
		seccomp.VerifSetEndian(binary.BigEndian)
	}
	if dom, _ := rec.Conc["execution_domain"].(string); dom != "" {
		compileCount = 2 // the next compilation runs under PER_LINUX32
	}
	insts, err, pan := compile(&pol)
	fmt.Printf("kind=%s expected=%q\n", rec.Kind, rec.Expected)
	if pan != nil {
		fmt.Println("observed:", watch.Text(pan))
		return 1
	}
	if err != nil {
		fmt.Println("observed: error:", err)
		if strings.HasPrefix(rec.Expected, "error") {
			return 0
		}
		if rec.Kind == "accept" && rec.Expected == "accepted" {
			return 1
		}
		return 1
	}
	fmt.Printf("observed: program of %d instructions\n", len(insts))
	if rec.Kind == "accept" {
		if rec.Expected == "accepted" {
			return 0
		}
		return 1
	}
	raw, rerr := bpf.Assemble(insts)
	if rerr != nil {
		fmt.Println("raw encoding failed:", rerr)
		return 1
	}
	if kerr := bpfvm.KernelAccepts(raw); kerr != nil && len(raw) <= 4096 {
		fmt.Println("verifier port refuses:", kerr)
		return 1
	}
	if rec.Event == nil {
		return 0
	}
	d := bpfvm.Data(rec.Event.Words)
	got, pathx, verr := bpfvm.Run(raw, &d)
	fmt.Printf("event %v -> %#x (path %v, err %v)\n", rec.Event.Words, got, pathx, verr)
	var want uint32
	fmt.Sscanf(rec.Expected[strings.Index(rec.Expected, "(")+1:], "%v)", &want)
	if verr != nil || got != want {
		return 1
	}
	if rec.Kind == "foreign" || rec.Kind == "x32" {
		if t := touchedRules(raw, pathx, rec.Kind == "foreign"); t != "" {
			fmt.Println("reached the rules:", t)
			return 1
		}
	}
	return 0
}
