// stubsim runs one history of loader calls (C19: the non-Linux stubs) and prints what every call returned. Built
// normally it runs the Linux loader; the check builds it a second time with a build overlay in which the package
// consists of the files a non-Linux target compiles (build constraints stripped, Linux-only files emptied), so that
// the stubs themselves execute on this host. Every call is bracketed by two marker system calls (tuxcall, which the
// kernel does not implement) on a wired OS thread: under strace, what the call itself asked of the kernel is what lies
// between the markers on that thread.
package main

import (
	"encoding/json"
	"fmt"
	"os"
	"runtime"

	seccomp "github.com/elastic/go-seccomp-bpf"

	"verifharness/probe"
	"verifharness/progset"
)

type step struct {
	Op     string `json:"op"`
	Result string `json:"result"`
	Panic  string `json:"panic,omitempty"`
}

func do(op string) (s step) {
	s.Op = op
	defer func() {
		if r := recover(); r != nil {
			s.Panic = fmt.Sprint(r)
		}
	}()
	errText := func(err error) string {
		if err != nil {
			return "err: " + err.Error()
		}
		return "nil"
	}
	probe.Call(184, [6]uint64{0xAAA})
	switch op {
	case "Supported":
		s.Result = fmt.Sprint(seccomp.Supported())
	case "SetNoNewPrivs":
		s.Result = errText(seccomp.SetNoNewPrivs())
	case "LoadFilter":
		s.Result = errText(seccomp.LoadFilter(seccomp.Filter{NoNewPrivs: true, Flag: seccomp.FilterFlagTSync, Policy: seccomp.Policy{DefaultAction: seccomp.ActionAllow,
			Syscalls: []seccomp.SyscallGroup{{Action: seccomp.ActionErrno, Names: []string{"tuxcall"}}}}}))
	case "LoadFilterZero":
		s.Result = errText(seccomp.LoadFilter(seccomp.Filter{}))
	default:
		fmt.Fprintln(os.Stderr, "unknown op", op)
		os.Exit(3)
	}
	probe.Call(184, [6]uint64{0xBBB})
	return s
}

func main() {
	// -programs: what a fixed set of policies compiles to with this build's file set (nothing is loaded)
	if len(os.Args) > 1 && os.Args[1] == "-programs" {
		out := progset.Programs()
		for k, v := range progset.DefaultArchPrograms() {
			out[k] = v
		}
		json.NewEncoder(os.Stdout).Encode(out)
		return
	}
	var ops []string
	if err := json.NewDecoder(os.Stdin).Decode(&ops); err != nil {
		fmt.Fprintln(os.Stderr, err)
		os.Exit(3)
	}
	runtime.LockOSThread()
	out := struct {
		Tid   int    `json:"tid"`
		Steps []step `json:"steps"`
	}{Tid: probe.Gettid()}
	for _, op := range ops {
		out.Steps = append(out.Steps, do(op))
	}
	json.NewEncoder(os.Stdout).Encode(out)
}
