// detrace exercises C13 on the real package: determinism of compilation and
// of the text forms, absence of side effects on the caller's policy, and -
// when built with -race - absence of data races between goroutines that
// compile policy values which share slices, look architectures up and print
// values, all ungated (the race detector records the real footprints).
//
// Modes:
//
//	-mode seq      replays call histories (JSON on stdin) sequentially: every
//	               compilation of equal policies must be byte-identical, the
//	               policy deep-equal before and after (incl. capacity tails)
//	-mode conc     16 goroutines per sharing configuration, ungated
//	-mode digest   prints a digest of a fixed set of compilations and text
//	               forms (compared across processes by the caller)
package main

import (
	"bytes"
	"crypto/sha256"
	"encoding/hex"
	"encoding/json"
	"flag"
	"fmt"
	"math/rand"
	"os"
	"reflect"
	"sort"
	"sync"

	seccomp "github.com/elastic/go-seccomp-bpf"
	"github.com/elastic/go-seccomp-bpf/arch"

	"verifharness/progset"
)

func basePolicy(k int) seccomp.Policy { return progset.BasePolicy(k) }

// snapshot captures everything reachable from the exported fields, including
// the capacity tails of all slices.
type snapshot struct {
	Default seccomp.Action
	Groups  []groupSnap
	Tail    []groupSnap
}
type groupSnap struct {
	Names, NamesTail []string
	Action           seccomp.Action
	NWC, NWCTail     []nwcSnap
}
type nwcSnap struct {
	Name        string
	Conds, Tail []seccomp.Condition
}

func snapNWC(n []seccomp.NameWithConditions) []nwcSnap {
	var out []nwcSnap
	for _, x := range n {
		c := x.Conditions
		out = append(out, nwcSnap{x.Name, append([]seccomp.Condition{}, c...), append([]seccomp.Condition{}, c[len(c):cap(c)]...)})
	}
	return out
}
func snapGroups(g []seccomp.SyscallGroup) []groupSnap {
	var out []groupSnap
	for _, x := range g {
		out = append(out, groupSnap{append([]string{}, x.Names...), append([]string{}, x.Names[len(x.Names):cap(x.Names)]...), x.Action,
			snapNWC(x.NamesWithCondtions), snapNWC(x.NamesWithCondtions[len(x.NamesWithCondtions):cap(x.NamesWithCondtions)])})
	}
	return out
}
func snap(p *seccomp.Policy) snapshot {
	return snapshot{p.DefaultAction, snapGroups(p.Syscalls), snapGroups(p.Syscalls[len(p.Syscalls):cap(p.Syscalls)])}
}

func compileBytes(p *seccomp.Policy) ([]byte, error) { return progset.CompileBytes(p) }

func dumpBytes(p *seccomp.Policy) ([]byte, error) {
	var b bytes.Buffer
	err := p.Dump(&b)
	return b.Bytes(), err
}

type report struct {
	Mode       string   `json:"mode"`
	Checked    int      `json:"checked"`
	Violations []string `json:"violations"`
	Digest     string   `json:"digest,omitempty"`
}

var rep report
var repMu sync.Mutex

func violate(f string, a ...interface{}) {
	repMu.Lock()
	if len(rep.Violations) < 20 {
		rep.Violations = append(rep.Violations, fmt.Sprintf(f, a...))
	}
	repMu.Unlock()
}

// seq: histories are sequences of ops over policy ids: ["A0","A1","D0","A0",...]
// A<k> = Assemble policy k, D<k> = Dump policy k, G = GetInfo, S = text forms.
func seq(hists [][]string) {
	for hi, h := range hists {
		pols := map[string]*seccomp.Policy{}
		first := map[string][]byte{}
		firstDump := map[string][]byte{}
		before := map[string]snapshot{}
		content := map[string]int{} // which policy the value currently holds (X exchanges the exported fields of the two values)
		get := func(id string) *seccomp.Policy {
			p, ok := pols[id]
			if !ok {
				k := 0
				fmt.Sscanf(id, "%d", &k)
				np := basePolicy(k)
				p = &np
				pols[id] = p
				content[id] = k
				before[id] = snap(p)
			}
			return p
		}
		for si, op := range h {
			kind, id := op[:1], op[1:]
			if kind == "F" {
				// fails in the second group, after the first one was compiled; what it returns is not judged here
				bad := basePolicy(2)
				bad.Syscalls = append(bad.Syscalls[:1:1], seccomp.SyscallGroup{Action: seccomp.ActionTrap, Names: []string{"write", "verif_no_such_syscall"}},
					seccomp.SyscallGroup{Action: seccomp.ActionKillProcess, NamesWithCondtions: []seccomp.NameWithConditions{{Name: "read",
						Conditions: []seccomp.Condition{{Argument: 9, Operation: seccomp.Equal, Value: 1}}}}})
				compileBytes(&bad)
				dumpBytes(&bad)
				rep.Checked++
				continue
			}
			if kind == "X" {
				// the caller rewrites its own values: each now equals what the other was
				p0, p1 := get("0"), get("1")
				p0.DefaultAction, p1.DefaultAction = p1.DefaultAction, p0.DefaultAction
				p0.Syscalls, p1.Syscalls = p1.Syscalls, p0.Syscalls
				content["0"], content["1"] = content["1"], content["0"]
				before["0"], before["1"] = snap(p0), snap(p1)
				continue
			}
			if kind == "G" {
				a, err := arch.GetInfo("")
				if err != nil || a == nil {
					violate("history %d step %d: GetInfo failed", hi, si)
				}
				continue
			}
			if kind == "S" {
				textForms(func(s string) { violate("history %d step %d: %s", hi, si, s) })
				continue
			}
			p := get(id)
			key := fmt.Sprint(content[id])
			var out []byte
			var err error
			if kind == "A" {
				out, err = compileBytes(p)
			} else {
				out, err = dumpBytes(p)
			}
			rep.Checked++
			if err != nil {
				violate("history %d step %d: %s failed: %v", hi, si, op, err)
				continue
			}
			ref := first
			if kind == "D" {
				ref = firstDump
			}
			if prev, ok := ref[key]; ok {
				if !bytes.Equal(prev, out) {
					violate("history %d (%v) step %d: %s of an equal policy gave a different result than before", hi, h, si, op)
				}
			} else {
				ref[key] = out
				// a fresh, equal policy value compiles to the same bytes
				fresh := basePolicy(content[id])
				var o2 []byte
				if kind == "A" {
					o2, _ = compileBytes(&fresh)
				} else {
					o2, _ = dumpBytes(&fresh)
				}
				if !bytes.Equal(o2, out) {
					violate("history %d (%v) step %d: %s differs from the result for a fresh equal policy", hi, h, si, op)
				}
			}
			if !reflect.DeepEqual(before[id], snap(p)) {
				violate("history %d (%v) step %d: %s modified the caller's policy", hi, h, si, op)
				before[id] = snap(p)
			}
		}
	}
}

func textForms(bad func(string)) {
	flagsets := []seccomp.FilterFlag{0, 1, 2, 3, 4, 7, 1 << 15, 0x8003}
	for _, f := range flagsets {
		first := f.String()
		for i := 0; i < 400; i++ {
			if s := f.String(); s != first {
				bad(fmt.Sprintf("FilterFlag(%d).String() gave %q and %q", uint32(f), first, s))
				break
			}
		}
		if b, _ := f.MarshalText(); string(b) != first {
			bad(fmt.Sprintf("FilterFlag(%d): MarshalText %q, String %q", uint32(f), b, first))
		}
		// the bytes MarshalText returns are the caller's: writing into them, or appending to them, must not show in a later conversion
		if b, err := f.MarshalText(); err == nil {
			want := string(b)
			for i := range b {
				b[i] = 'X'
			}
			_ = append(b[:len(b):cap(b)][:len(b)], "=1"...)
			_ = append(b, "#####"...)
			if b2, _ := f.MarshalText(); string(b2) != want {
				bad(fmt.Sprintf("FilterFlag(%d): MarshalText gave %q, and %q after the caller wrote into the first result", uint32(f), want, b2))
			}
		}
	}
	acts := []seccomp.Action{seccomp.ActionKillThread, seccomp.ActionKillProcess, seccomp.ActionTrap, seccomp.ActionErrno, seccomp.ActionTrace,
		seccomp.ActionLog, seccomp.ActionAllow, seccomp.ActionUserNotify, 0x12340000}
	for _, a := range acts {
		first := a.String()
		for i := 0; i < 200; i++ {
			if s := a.String(); s != first {
				bad(fmt.Sprintf("Action(%#x).String() gave %q and %q", uint32(a), first, s))
				break
			}
		}
		if b, err := a.MarshalText(); err == nil {
			want := string(b)
			for i := range b {
				b[i] = 'X'
			}
			_ = append(b, "#####"...)
			if b2, _ := a.MarshalText(); string(b2) != want {
				bad(fmt.Sprintf("Action(%#x): MarshalText gave %q, and %q after the caller wrote into the first result", uint32(a), want, b2))
			}
		}
		var back seccomp.Action
		if err := back.Unpack(first); err == nil && back != a && first != "unknown" {
			bad(fmt.Sprintf("Action(%#x) prints %q which parses to %#x", uint32(a), first, uint32(back)))
		}
	}
}

// programs: the compilation of a fixed set of policies for each syscall table, as text. It does not depend on the machine the
// process runs on (no lookup of the running architecture), so two builds of this command for different CPU targets must
// print the same thing (C19: "a policy compiles to the same program wherever it is compiled for a given syscall table").
func programs() map[string]string {
	out := progset.Programs()
	for k, v := range progset.TextForms() {
		out[k] = v
	}
	return out
}

// siblings: label -> policy; see digest.
var order *int

func siblings() map[string]seccomp.Policy {
	out := map[string]seccomp.Policy{}
	acts := []seccomp.Action{seccomp.ActionErrno, seccomp.ActionErrno | 1, seccomp.ActionErrno | 2, seccomp.ActionErrno | 13, seccomp.ActionErrno | 38,
		seccomp.ActionErrno | 0xffff, seccomp.ActionTrace, seccomp.ActionTrace | 1, seccomp.ActionTrace | 2, seccomp.ActionTrap, seccomp.ActionTrap | 7,
		seccomp.ActionKillThread, seccomp.ActionKillProcess, seccomp.ActionLog, seccomp.ActionAllow, 0x12340000, 0x12350000, 0x12340001}
	for _, a := range []*arch.Info{arch.X86_64, arch.ARM} {
		for _, x := range acts {
			p := seccomp.Policy{DefaultAction: seccomp.ActionAllow, Syscalls: []seccomp.SyscallGroup{{Names: []string{"read", "write"}, Action: x},
				{Names: []string{"close"}, Action: seccomp.ActionTrap}}}
			seccomp.VerifSetArch(&p, a)
			out[fmt.Sprintf("group action %#x for %s", uint32(x), a.Name)] = p
			q := seccomp.Policy{DefaultAction: seccomp.ActionAllow, Syscalls: []seccomp.SyscallGroup{{Names: []string{"close"}, Action: seccomp.ActionTrap},
				{NamesWithCondtions: []seccomp.NameWithConditions{{Name: "ioctl", Conditions: []seccomp.Condition{{Argument: 1, Operation: seccomp.Equal, Value: 9}}}}, Action: x}}}
			seccomp.VerifSetArch(&q, a)
			out[fmt.Sprintf("second group action %#x for %s", uint32(x), a.Name)] = q
		}
		type v struct {
			arg        uint32
			op         seccomp.Operation
			val        uint64
			name, last string
			swap       bool
		}
		base := v{1, seccomp.Equal, 7, "ioctl", "listen", false}
		vars := map[string]v{"base": base}
		for l, f := range map[string]func(*v){
			"value 8": func(x *v) { x.val = 8 }, "value 7<<32": func(x *v) { x.val = 7 << 32 }, "value 7+1<<32": func(x *v) { x.val = 7 + 1<<32 },
			"argument 0": func(x *v) { x.arg = 0 }, "argument 5": func(x *v) { x.arg = 5 }, "NotEqual": func(x *v) { x.op = seccomp.NotEqual },
			"GreaterThan": func(x *v) { x.op = seccomp.GreaterThan }, "GreaterOrEqual": func(x *v) { x.op = seccomp.GreaterOrEqual },
			"LessThan": func(x *v) { x.op = seccomp.LessThan }, "BitsSet": func(x *v) { x.op = seccomp.BitsSet }, "BitsNotSet": func(x *v) { x.op = seccomp.BitsNotSet },
			"name fcntl": func(x *v) { x.name = "fcntl" }, "last name bind": func(x *v) { x.last = "bind" }, "names swapped": func(x *v) { x.swap = true },
		} {
			x := base
			f(&x)
			vars[l] = x
		}
		for l, x := range vars {
			names := []string{"read", "write", "open"}
			if x.swap {
				names = []string{"write", "read", "open"}
			}
			p := seccomp.Policy{DefaultAction: seccomp.ActionAllow, Syscalls: []seccomp.SyscallGroup{{Names: names, Action: seccomp.ActionErrno},
				{NamesWithCondtions: []seccomp.NameWithConditions{{Name: x.name, Conditions: []seccomp.Condition{{Argument: x.arg, Operation: x.op, Value: x.val},
					{Argument: 2, Operation: seccomp.LessThan, Value: 77}}}}, Action: seccomp.ActionKillProcess},
				{Names: []string{"socket", x.last}, Action: seccomp.ActionTrap}}}
			seccomp.VerifSetArch(&p, a)
			out[fmt.Sprintf("variant %s for %s", l, a.Name)] = p
		}
	}
	return out
}

func digest() string {
	h := sha256.New()
	for k := 0; k < 4; k++ {
		p := basePolicy(k)
		for _, a := range []*arch.Info{arch.X86_64, arch.I386, arch.ARM, arch.AARCH64} {
			q := p
			seccomp.VerifSetArch(&q, a)
			b, err := compileBytes(&q)
			if err != nil {
				fmt.Fprintf(h, "err %v\n", err)
			}
			h.Write(b)
			d, _ := dumpBytes(&q)
			h.Write(d)
		}
	}
	// ... and for the architecture the library picks by itself when the caller sets none (a property of the binary, not of the
	// process that runs it)
	for k := 0; k < 4; k++ {
		p := basePolicy(k)
		b, err := compileBytes(&p)
		fmt.Fprintf(h, "default arch: err %v\n", err)
		h.Write(b)
	}
	// ... and SIBLING policies - values that differ in one field only (the data bits of an action, one operand, one argument index,
	// one operation, one name, the order of two names) - compiled in an order that differs from process to process (-order): what a
	// policy compiles to does not depend on which policies the process compiled before it
	sib := siblings()
	labels := make([]string, 0, len(sib))
	for l := range sib {
		labels = append(labels, l)
	}
	sort.Strings(labels)
	perm := rand.New(rand.NewSource(int64(*order))).Perm(len(labels))
	res := make([]string, len(labels))
	for _, i := range perm {
		p := sib[labels[i]]
		b, err := compileBytes(&p)
		res[i] = fmt.Sprintf("%s: %x err=%v", labels[i], sha256.Sum256(b), err)
	}
	for _, r := range res {
		fmt.Fprintln(h, r)
	}
	for _, f := range []seccomp.FilterFlag{0, 1, 2, 3, 7, 0x8003} {
		fmt.Fprintln(h, f.String())
	}
	// the text form of every action value (named ones, data-carrying ones, unnamed ones), plain and as part of a marshalled policy
	for _, a := range []seccomp.Action{seccomp.ActionKillThread, seccomp.ActionKillProcess, seccomp.ActionTrap, seccomp.ActionErrno, seccomp.ActionTrace,
		seccomp.ActionLog, seccomp.ActionAllow, seccomp.ActionUserNotify, seccomp.ActionErrno | 2, 0x12340000} {
		t, err := a.MarshalText()
		fmt.Fprintln(h, uint32(a), a.String(), string(t), err)
		pol := seccomp.Policy{DefaultAction: a, Syscalls: []seccomp.SyscallGroup{{Names: []string{"read"}, Action: a}}}
		j, err := json.Marshal(pol)
		fmt.Fprintln(h, string(j), err)
		j, err = json.Marshal(seccomp.Filter{NoNewPrivs: true, Flag: seccomp.FilterFlagTSync | seccomp.FilterFlagLog, Policy: pol})
		fmt.Fprintln(h, string(j), err)
	}
	for _, o := range []seccomp.Operation{seccomp.Equal, seccomp.NotEqual, seccomp.GreaterThan, seccomp.GreaterOrEqual, seccomp.LessThan, seccomp.LessOrEqual,
		seccomp.BitsSet, seccomp.BitsNotSet} {
		fmt.Fprintln(h, string(o))
	}
	for _, n := range []string{"", "amd64", "X86_64", "arm64", "x32", "386"} {
		a, err := arch.GetInfo(n)
		if err == nil {
			fmt.Fprintln(h, a.Name, a.SyscallNames["execve"], a.SyscallNames["read"], a.SyscallNames["ioctl"], a.SyscallNames["rt_sigaction"])
		}
	}
	return hex.EncodeToString(h.Sum(nil))
}

// conc: ungated goroutines for one sharing configuration.
func conc(share string, n, rounds int) {
	master := basePolicy(3) // (the one with a big listing in front of further groups)
	want, _ := compileBytes(&master)
	masterSnap := snap(&master)
	pols := make([]seccomp.Policy, n)
	wants := make([][]byte, n)
	for i := range pols {
		switch share {
		case "groups": // copies of one policy value: share Syscalls (and everything below)
			pols[i] = seccomp.Policy{DefaultAction: master.DefaultAction, Syscalls: master.Syscalls}
			wants[i] = want
		case "names": // own group slice, shared Names backing arrays
			g := make([]seccomp.SyscallGroup, len(master.Syscalls))
			copy(g, master.Syscalls)
			g[1].NamesWithCondtions = append([]seccomp.NameWithConditions{}, g[1].NamesWithCondtions...)
			pols[i] = seccomp.Policy{DefaultAction: master.DefaultAction, Syscalls: g}
			wants[i] = want
		case "conds": // own groups and names, shared Conditions backing arrays
			g := make([]seccomp.SyscallGroup, len(master.Syscalls))
			for k, x := range master.Syscalls {
				g[k] = seccomp.SyscallGroup{Names: append([]string{}, x.Names...), Action: x.Action,
					NamesWithCondtions: append([]seccomp.NameWithConditions{}, x.NamesWithCondtions...)}
			}
			pols[i] = seccomp.Policy{DefaultAction: master.DefaultAction, Syscalls: g}
			wants[i] = want
		default: // distinct values
			pols[i] = basePolicy(i)
			fresh := basePolicy(i)
			wants[i], _ = compileBytes(&fresh)
		}
	}
	var wg sync.WaitGroup
	start := make(chan struct{})
	for i := 0; i < n; i++ {
		wg.Add(1)
		go func(i int) {
			defer wg.Done()
			<-start
			for r := 0; r < rounds; r++ {
				b, err := compileBytes(&pols[i])
				if err != nil || !bytes.Equal(b, wants[i]) {
					violate("%s: goroutine %d round %d: concurrent compilation gave a different program (err %v)", share, i, r, err)
					return
				}
				switch (i + r) % 4 {
				case 0:
					arch.GetInfo("AMD64")
				case 1:
					_ = seccomp.FilterFlag(3).String() + seccomp.ActionErrno.String()
					// concurrent text conversions whose results the callers extend in place (append): each caller owns its bytes
					ta, _ := seccomp.ActionAllow.MarshalText()
					ta = append(ta, byte('0'+i%10))
					tf, _ := seccomp.FilterFlagTSync.MarshalText()
					tf = append(tf, byte('0'+i%10))
					if string(ta) != "allow"+string(rune('0'+i%10)) || string(tf) != "tsync"+string(rune('0'+i%10)) {
						violate("%s: goroutine %d: the text a concurrent conversion returned was overwritten by another goroutine (%q, %q)", share, i, ta, tf)
						return
					}
				case 2:
					var a seccomp.Action
					a.Unpack("Kill_Process")
					var o seccomp.Operation
					o.Unpack("bitsset")
				case 3:
					dumpBytes(&pols[i])
				}
			}
		}(i)
	}
	close(start)
	wg.Wait()
	repMu.Lock()
	rep.Checked += n * rounds
	repMu.Unlock()
	if !reflect.DeepEqual(masterSnap, snap(&master)) {
		violate("%s: the shared policy was modified by concurrent compilations", share)
	}
}

func main() {
	mode := flag.String("mode", "seq", "seq | conc | digest | programs")
	order = flag.Int("order", 0, "digest: seed of the order in which the sibling policies are compiled")
	n := flag.Int("n", 16, "goroutines")
	rounds := flag.Int("rounds", 30, "rounds per goroutine")
	flag.Parse()
	rep.Mode = *mode
	switch *mode {
	case "programs":
		json.NewEncoder(os.Stdout).Encode(programs())
		return
	case "seq":
		var hists [][]string
		if err := json.NewDecoder(os.Stdin).Decode(&hists); err != nil {
			fmt.Fprintln(os.Stderr, err)
			os.Exit(3)
		}
		seq(hists)
	case "conc":
		for _, s := range []string{"distinct", "groups", "names", "conds"} {
			conc(s, *n, *rounds)
		}
	case "digest":
		rep.Digest = digest()
		textForms(func(s string) { violate("%s", s) })
	}
	if rep.Violations == nil {
		rep.Violations = []string{}
	}
	json.NewEncoder(os.Stdout).Encode(rep)
}
