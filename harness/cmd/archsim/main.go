// archsim compiles policies on the HOST as if runtime.GOARCH were another
// architecture (C19, and C07's "architecture without syscall tables"). It is
// built with `go build -overlay`, the overlay replacing the expression
// runtime.GOARCH in arch/info.go by a function that reads VERIF_GOARCH - the
// only way to execute the GOARCH lookup for targets this host cannot run.
// For every call of every sequence it prints whether an error came back and
// whether a program (or dump text) was produced.
package main

import (
	"bytes"
	"encoding/json"
	"fmt"
	"os"

	seccomp "github.com/elastic/go-seccomp-bpf"
)

type call struct {
	Op      string `json:"op"`
	Err     string `json:"err"`
	Program int    `json:"program"` // instructions returned / bytes dumped
	Panic   string `json:"panic,omitempty"`
}

type seqResult struct {
	Policy string `json:"policy"`
	Seq    string `json:"seq"`
	Calls  []call `json:"calls"`
}

func policies() map[string]func() seccomp.Policy {
	return map[string]func() seccomp.Policy{
		"names": func() seccomp.Policy {
			return seccomp.Policy{DefaultAction: seccomp.ActionAllow, Syscalls: []seccomp.SyscallGroup{{Action: seccomp.ActionErrno, Names: []string{"execve", "read"}}}}
		},
		"empty-groups": func() seccomp.Policy {
			return seccomp.Policy{DefaultAction: seccomp.ActionAllow, Syscalls: []seccomp.SyscallGroup{{Action: seccomp.ActionErrno}, {Action: seccomp.ActionTrap}}}
		},
		"conditions": func() seccomp.Policy {
			return seccomp.Policy{DefaultAction: seccomp.ActionErrno, Syscalls: []seccomp.SyscallGroup{{Action: seccomp.ActionAllow,
				NamesWithCondtions: []seccomp.NameWithConditions{{Name: "write", Conditions: []seccomp.Condition{{Argument: 0, Operation: seccomp.Equal, Value: 1}}}}}}}
		},
	}
}

func do(p *seccomp.Policy, op string) (c call) {
	c.Op = op
	defer func() {
		if r := recover(); r != nil {
			c.Panic = fmt.Sprint(r)
		}
	}()
	switch op {
	case "assemble":
		insts, err := p.Assemble()
		c.Program = len(insts)
		if err != nil {
			c.Err = err.Error()
		}
	case "dump":
		var b bytes.Buffer
		err := p.Dump(&b)
		c.Program = b.Len()
		if err != nil {
			c.Err = err.Error()
		}
	case "group":
		for i := range p.Syscalls {
			insts, err := p.Syscalls[i].Assemble(p.DefaultAction)
			c.Program += len(insts)
			if err != nil {
				c.Err = err.Error()
			}
		}
	}
	return
}

func main() {
	seqs := map[string][]string{"assemble x3": {"assemble", "assemble", "assemble"}, "dump, assemble": {"dump", "assemble"},
		"assemble, dump, assemble": {"assemble", "dump", "assemble"}}
	var out []seqResult
	for pn, mk := range policies() {
		for sn, ops := range seqs {
			p := mk()
			r := seqResult{Policy: pn, Seq: sn}
			for _, op := range ops {
				r.Calls = append(r.Calls, do(&p, op))
			}
			out = append(out, r)
			// ... and through a copy of the value that was compiled before
			q := p
			r2 := seqResult{Policy: pn, Seq: sn + ", then a copy"}
			r2.Calls = append(r2.Calls, do(&q, "assemble"))
			out = append(out, r2)
		}
	}
	json.NewEncoder(os.Stdout).Encode(map[string]interface{}{"goarch": os.Getenv("VERIF_GOARCH"), "results": out})
}
