//go:build !verif

package progset

import (
	seccomp "github.com/elastic/go-seccomp-bpf"
	"github.com/elastic/go-seccomp-bpf/arch"
)

func setArch(*seccomp.Policy, *arch.Info) bool { return false }
