// Package progset compiles a fixed set of policies (name lists, argument conditions, several groups) for every syscall table and
// for the architecture the library picks by itself. The result depends on nothing but the library: builds of the harness for other
// CPU targets, or with the file set of another operating system, must print the same programs (C13, C19).
package progset

import (
	"bytes"
	"crypto/sha256"
	"fmt"
	"sort"

	"golang.org/x/net/bpf"

	seccomp "github.com/elastic/go-seccomp-bpf"
	"github.com/elastic/go-seccomp-bpf/arch"
)

// BasePolicy is policy number k of the set.
func BasePolicy(k int) seccomp.Policy {
	names := make([]string, 0, 96) // spare capacity on purpose
	names = append(names, "write", "read", "open", "close", "execve")
	if k%2 == 1 {
		names = append(names, "fork", "vfork")
	}
	if k%4 == 3 {
		// a big listing (as generated profiles have) in front of further groups
		names = append(names, commonNames(70)...)
	}
	conds := make([]seccomp.Condition, 0, 8)
	conds = append(conds, seccomp.Condition{Argument: 3, Operation: seccomp.Equal, Value: uint64(k)},
		seccomp.Condition{Argument: 1, Operation: seccomp.BitsSet, Value: 0x10000000},
		seccomp.Condition{Argument: 2, Operation: seccomp.LessThan, Value: 77},
		seccomp.Condition{Argument: 0, Operation: seccomp.NotEqual, Value: 5}) // (arguments deliberately not in ascending order)
	nwc := make([]seccomp.NameWithConditions, 0, 4)
	nwc = append(nwc, seccomp.NameWithConditions{Name: "clone", Conditions: conds},
		seccomp.NameWithConditions{Name: "clone", Conditions: []seccomp.Condition{{Argument: 2, Operation: seccomp.GreaterThan, Value: 7}}},
		seccomp.NameWithConditions{Name: "ioctl", Conditions: conds[:1]})
	groups := make([]seccomp.SyscallGroup, 0, 4)
	groups = append(groups, seccomp.SyscallGroup{Names: names, Action: seccomp.ActionErrno},
		seccomp.SyscallGroup{NamesWithCondtions: nwc, Action: seccomp.ActionKillProcess},
		seccomp.SyscallGroup{Names: []string{"socket", "bind", "listen"}, Action: seccomp.ActionTrap})
	return seccomp.Policy{DefaultAction: seccomp.ActionAllow, Syscalls: groups}
}

// commonNames: the first n names (in alphabetical order) that all four tables have and BasePolicy does not use otherwise.
func commonNames(n int) []string {
	used := map[string]bool{"write": true, "read": true, "open": true, "close": true, "execve": true, "fork": true, "vfork": true,
		"clone": true, "ioctl": true, "socket": true, "bind": true, "listen": true}
	var out []string
	for name := range arch.X86_64.SyscallNames {
		if used[name] {
			continue
		}
		ok := true
		for _, a := range []*arch.Info{arch.I386, arch.ARM, arch.AARCH64} {
			if _, has := a.SyscallNames[name]; !has {
				ok = false
			}
		}
		if ok {
			out = append(out, name)
		}
	}
	sort.Strings(out)
	if len(out) > n {
		out = out[:n]
	}
	return out
}

// CompileBytes is the raw program of the policy as text.
func CompileBytes(p *seccomp.Policy) ([]byte, error) {
	insts, err := p.Assemble()
	if err != nil {
		return nil, err
	}
	raw, err := bpf.Assemble(insts)
	if err != nil {
		return nil, err
	}
	var b bytes.Buffer
	for _, r := range raw {
		fmt.Fprintf(&b, "%04x %02x %02x %08x\n", r.Op, r.Jt, r.Jf, r.K)
	}
	return b.Bytes(), nil
}

// Programs: policy x table -> digest of the program. Without the hook that sets a policy's architecture (a build without the
// verif tag) only the default architecture is reachable.
func Programs() map[string]string {
	out := map[string]string{}
	for k := 0; k < 4; k++ {
		for _, a := range []*arch.Info{arch.X86_64, arch.I386, arch.ARM, arch.AARCH64} {
			p := BasePolicy(k)
			if !setArch(&p, a) {
				continue
			}
			b, err := CompileBytes(&p)
			h := sha256.Sum256(b)
			out[fmt.Sprintf("policy %d for %s", k, a.Name)] = fmt.Sprintf("%x err=%v", h[:8], err)
		}
	}
	for _, a := range []*arch.Info{arch.X86_64, arch.I386, arch.ARM, arch.AARCH64} {
		a := a
		actionPrograms(out, a.Name, func(p *seccomp.Policy) bool { return setArch(p, a) })
	}
	return out
}

// every action constant the package exports (ActionUserNotify has no name: as a default action it is refused - everywhere)
var allActions = []seccomp.Action{seccomp.ActionKillThread, seccomp.ActionKillProcess, seccomp.ActionTrap, seccomp.ActionErrno, seccomp.ActionTrace,
	seccomp.ActionLog, seccomp.ActionAllow, seccomp.ActionUserNotify}

// actionPrograms: every action constant as the default action and as a group's action of a one-group policy (program or error text).
func actionPrograms(out map[string]string, archName string, set func(*seccomp.Policy) bool) {
	for _, d := range allActions {
		for _, g := range allActions {
			p := seccomp.Policy{DefaultAction: d, Syscalls: []seccomp.SyscallGroup{{Names: []string{"read", "write"}, Action: g}}}
			if !set(&p) {
				return
			}
			b, err := CompileBytes(&p)
			h := sha256.Sum256(b)
			out[fmt.Sprintf("default %#x group %#x for %s", uint32(d), uint32(g), archName)] = fmt.Sprintf("%x err=%v", h[:8], err)
		}
	}
}

// TextForms: how every action constant prints and what every action / operation name (and some that are none) parses to.
func TextForms() map[string]string {
	out := map[string]string{}
	for _, a := range append(append([]seccomp.Action{}, allActions...), seccomp.ActionErrno|2, 0x12340000) {
		t, err := a.MarshalText()
		out[fmt.Sprintf("text of action %#x", uint32(a))] = fmt.Sprintf("%q %q err=%v", a.String(), t, err)
	}
	for _, n := range []string{"kill_thread", "kill_process", "trap", "errno", "trace", "log", "allow", "user_notify", "user_notif", "notify", "unknown", "", "ALLOW", "kill"} {
		var a seccomp.Action
		err := a.Unpack(n)
		out[fmt.Sprintf("action named %q", n)] = fmt.Sprintf("%#x err=%v", uint32(a), err)
	}
	for _, n := range []string{"Equal", "NotEqual", "GreaterThan", "GreaterOrEqual", "LessThan", "LessOrEqual", "BitsSet", "BitsNotSet", "MaskedEqual", ""} {
		var o seccomp.Operation
		err := o.Unpack(n)
		out[fmt.Sprintf("operation named %q", n)] = fmt.Sprintf("%q err=%v", string(o), err)
	}
	for _, f := range []seccomp.FilterFlag{0, 1, 2, 3, 4, 7, 0x8003} {
		out[fmt.Sprintf("text of flag %#x", uint32(f))] = f.String()
	}
	return out
}

// DefaultArchPrograms: the same policies with no architecture set (the library takes the one of the CPU target it was built for).
func DefaultArchPrograms() map[string]string {
	out := map[string]string{}
	for k := 0; k < 4; k++ {
		p := BasePolicy(k)
		b, err := CompileBytes(&p)
		h := sha256.Sum256(b)
		out[fmt.Sprintf("policy %d for the default architecture", k)] = fmt.Sprintf("%x err=%v", h[:8], err)
	}
	actionPrograms(out, "the default architecture", func(*seccomp.Policy) bool { return true })
	for k, v := range TextForms() {
		out[k] = v
	}
	return out
}
