//go:build verif

package progset

import (
	seccomp "github.com/elastic/go-seccomp-bpf"
	"github.com/elastic/go-seccomp-bpf/arch"
)

func setArch(p *seccomp.Policy, a *arch.Info) bool {
	seccomp.VerifSetArch(p, a)
	return true
}
