// Package bpfvm is an independent interpreter and static checker for raw
// classic-BPF seccomp filters. It works on the sixteen native 32-bit words of
// struct seccomp_data (not on bytes), exactly as the kernel's seccomp BPF
// does after its load rewriting, and follows BPF.tla (Run / Path /
// KernelAccepts / RetSet).
package bpfvm

import (
	"fmt"

	"golang.org/x/net/bpf"
)

// Data is struct seccomp_data as sixteen native words:
// 0 nr, 1 arch, 2/3 instruction pointer, 4+2i / 5+2i argument i in memory order.
type Data [16]uint32

const (
	opLdAbsW = 0x20 // BPF_LD | BPF_W | BPF_ABS
	opJa     = 0x05 // BPF_JMP | BPF_JA
	opJeqK   = 0x15
	opJgtK   = 0x25
	opJgeK   = 0x35
	opJsetK  = 0x45
	opRetK   = 0x06
)

// Run executes prog on d and returns the returned value and the executed path
// (instruction indices). An error means control left the program or an
// instruction kind the seccomp verifier would refuse was met.
func Run(prog []bpf.RawInstruction, d *Data) (uint32, []int, error) {
	var a uint32
	pc := 0
	path := make([]int, 0, 16)
	for steps := 0; steps <= len(prog); steps++ {
		if pc < 0 || pc >= len(prog) {
			return 0, path, fmt.Errorf("pc %d outside program of %d instructions", pc, len(prog))
		}
		in := prog[pc]
		path = append(path, pc)
		switch in.Op {
		case opLdAbsW:
			if in.K%4 != 0 || in.K >= 64 {
				return 0, path, fmt.Errorf("insn %d: load at offset %d", pc, in.K)
			}
			a = d[in.K/4]
			pc++
		case opJa:
			pc += 1 + int(in.K)
		case opJeqK, opJgtK, opJgeK, opJsetK:
			var t bool
			switch in.Op {
			case opJeqK:
				t = a == in.K
			case opJgtK:
				t = a > in.K
			case opJgeK:
				t = a >= in.K
			case opJsetK:
				t = a&in.K != 0
			}
			if t {
				pc += 1 + int(in.Jt)
			} else {
				pc += 1 + int(in.Jf)
			}
		case opRetK:
			return in.K, path, nil
		default:
			return 0, path, fmt.Errorf("insn %d: opcode %#x is not admitted in a seccomp filter", pc, in.Op)
		}
	}
	return 0, path, fmt.Errorf("program did not terminate")
}

// KernelAccepts is the Go twin of BPF!KernelAccepts: the checks of
// bpf_check_classic and seccomp_check_filter for the instruction kinds above.
func KernelAccepts(prog []bpf.RawInstruction) error {
	n := len(prog)
	if n < 1 || n > 4096 {
		return fmt.Errorf("program has %d instructions", n)
	}
	for i, in := range prog {
		switch in.Op {
		case opLdAbsW:
			if in.K%4 != 0 || in.K >= 64 {
				return fmt.Errorf("insn %d: load at offset %d", i, in.K)
			}
		case opJa:
			if uint64(i)+1+uint64(in.K) >= uint64(n) {
				return fmt.Errorf("insn %d: ja %d leaves the program", i, in.K)
			}
		case opJeqK, opJgtK, opJgeK, opJsetK:
			if i+1+int(in.Jt) >= n || i+1+int(in.Jf) >= n {
				return fmt.Errorf("insn %d: jt %d / jf %d leave the program", i, in.Jt, in.Jf)
			}
		case opRetK:
		default:
			return fmt.Errorf("insn %d: opcode %#x not admitted", i, in.Op)
		}
	}
	if prog[n-1].Op != opRetK {
		return fmt.Errorf("last instruction is not a return")
	}
	return nil
}

// RetSet returns every value carried by a ret instruction that is reachable
// in the control-flow graph from instruction 0.
func RetSet(prog []bpf.RawInstruction) map[uint32]bool {
	out := map[uint32]bool{}
	seen := make([]bool, len(prog))
	stack := []int{0}
	for len(stack) > 0 {
		i := stack[len(stack)-1]
		stack = stack[:len(stack)-1]
		if i < 0 || i >= len(prog) || seen[i] {
			continue
		}
		seen[i] = true
		in := prog[i]
		switch in.Op {
		case opRetK:
			out[in.K] = true
		case opJa:
			stack = append(stack, i+1+int(in.K))
		case opJeqK, opJgtK, opJgeK, opJsetK:
			stack = append(stack, i+1+int(in.Jt), i+1+int(in.Jf))
		default:
			stack = append(stack, i+1)
		}
	}
	return out
}

// AllRetSet returns the values of all ret instructions, reachable or not.
func AllRetSet(prog []bpf.RawInstruction) map[uint32]bool {
	out := map[uint32]bool{}
	for _, in := range prog {
		if in.Op == opRetK {
			out[in.K] = true
		}
	}
	return out
}
