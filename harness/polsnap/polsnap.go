// Package polsnap takes deep snapshots of a seccomp.Policy: everything
// reachable from the exported fields, including the capacity tails of all
// slices, so that "the compiler never modifies the caller's policy" (C13) can
// be checked by comparing snapshots.
package polsnap

import (
	seccomp "github.com/elastic/go-seccomp-bpf"
)

type Snapshot struct {
	Default seccomp.Action
	Groups  []GroupSnap
	Tail    []GroupSnap
}
type GroupSnap struct {
	Names, NamesTail []string
	Action           seccomp.Action
	NWC, NWCTail     []NWCSnap
}
type NWCSnap struct {
	Name        string
	Conds, Tail []seccomp.Condition
}

func snapNWC(n []seccomp.NameWithConditions) []NWCSnap {
	var out []NWCSnap
	for _, x := range n {
		c := x.Conditions
		out = append(out, NWCSnap{x.Name, append([]seccomp.Condition{}, c...), append([]seccomp.Condition{}, c[len(c):cap(c)]...)})
	}
	return out
}

func snapGroups(g []seccomp.SyscallGroup) []GroupSnap {
	var out []GroupSnap
	for _, x := range g {
		out = append(out, GroupSnap{append([]string{}, x.Names...), append([]string{}, x.Names[len(x.Names):cap(x.Names)]...), x.Action,
			snapNWC(x.NamesWithCondtions), snapNWC(x.NamesWithCondtions[len(x.NamesWithCondtions):cap(x.NamesWithCondtions)])})
	}
	return out
}

// Take snapshots p.
func Take(p *seccomp.Policy) Snapshot {
	return Snapshot{p.DefaultAction, snapGroups(p.Syscalls), snapGroups(p.Syscalls[len(p.Syscalls):cap(p.Syscalls)])}
}
