"""Replay of TableGen.tla on the real table generator arch/mk_syscalls_linux.go (anchor of C12).

The generator downloads five files of a kernel tree from a fixed https URL. It is copied to the scratch directory with
that one constant pointed at a local HTTP server (the repository is not touched), built once, and run once per abstract
kernel tree exported by TLC: the tree's rows are rendered as syscall.tbl / unistd.h text in the layouts the real files
use, the generated zsyscalls.go is parsed back and compared with the tables TableGen.tla expects."""
import functools
import http.server
import os
import random
import re
import threading

import vlib

URL_RE = re.compile(r'(baseURL\s*=\s*)"https://raw\.githubusercontent\.com/torvalds/linux/"')
ARCH_VARS = {"ARM": "ARM", "AARCH64": "AARCH64", "386": "I386", "X32": "X32", "X86_64": "X86_64"}


def render_tbl(rows, rnd, compat=False):
    out = ["#", "# system call numbers and entry vectors", "#", "# The format is:", "# <number> <abi> <name> <entry point>", "#", ""]
    for r in sorted(rows, key=lambda r: r["nr"]):
        sep = rnd.choice(["\t", "\t\t", "  ", " \t"])
        line = sep.join([str(r["nr"]), r["abi"], r["name"]])
        k = rnd.randrange(3)
        if k >= 1:
            line += sep + "sys_" + r["name"]
        if k == 2 and compat:
            line += sep + "compat_sys_" + r["name"]
        if rnd.randrange(4) == 0:
            line += " "
        out.append(line)
        if rnd.randrange(5) == 0:
            out += ["", "# a comment between entries"]
    if rnd.randrange(2):
        out += ["", "#", "# Due to a historical design error, certain syscalls are numbered differently", "#"]
    return "\n".join(out) + "\n"


def render_arm_unistd(priv, rnd):
    out = ["/* SPDX-License-Identifier: GPL-2.0 WITH Linux-syscall-note */", "#ifndef _UAPI__ASM_ARM_UNISTD_H", "#define _UAPI__ASM_ARM_UNISTD_H", "",
           "#define __NR_OABI_SYSCALL_BASE\t0x900000", "#define __NR_SYSCALL_BASE\t0", "",
           "/*", " * The following SWIs are ARM private.", " */", "#define __ARM_NR_BASE\t\t\t(__NR_SYSCALL_BASE+0x0f0000)"]
    for p in sorted(priv, key=lambda p: p["n"]):
        out.append("#define __ARM_NR_%s%s(__ARM_NR_BASE+%d)" % (p["name"], rnd.choice(["\t\t", "\t", "  "]), p["n"]))
    out += ["", "#endif /* _UAPI__ASM_ARM_UNISTD_H */"]
    return "\n".join(out) + "\n"


def render_generic_unistd(defs, rnd):
    out = ["/* SPDX-License-Identifier: GPL-2.0 WITH Linux-syscall-note */", "#include <asm/bitsperlong.h>", "", "#ifndef __SYSCALL", "#define __SYSCALL(x, y)", "#endif", ""]
    sentinel = [d for d in defs if d["name"] == "syscalls"]
    for d in sorted([d for d in defs if d["name"] != "syscalls"], key=lambda d: (d["nr"], d["name"] != "sync_file_range2")):
        prefix = "__NR3264_" if d["kind"] == "nr3264" else "__NR_"
        if d["name"] == "sync_file_range2":
            out.append("#ifdef __ARCH_WANT_SYNC_FILE_RANGE2")
        elif d["name"] == "sync_file_range" and any(x["name"] == "sync_file_range2" for x in defs):
            out.append("#else")
        out.append("#define %s%s %d" % (prefix, d["name"], d["nr"]))
        if d["name"] != "arch_specific_syscall":
            out.append("__SYSCALL(%s%s, sys_%s)" % (prefix, d["name"], d["name"]))
        if d["name"] == "sync_file_range" and any(x["name"] == "sync_file_range2" for x in defs):
            out.append("#endif")
        if rnd.randrange(4) == 0:
            out += ["", "/* kernel/fork.c */"]
    for d in sentinel:
        out += ["", "#undef __NR_syscalls", "#define __NR_syscalls %d" % d["nr"]]
    # the 32/64-bit aliases at the end of the real file refer to names, not numbers: they must not produce entries
    out += ["", "#if __BITS_PER_LONG == 64 && !defined(__SYSCALL_COMPAT)"]
    out += ["#define __NR_%s __NR3264_%s" % (d["name"], d["name"]) for d in defs if d["kind"] == "nr3264"]
    out += ["#endif"]
    return "\n".join(out) + "\n"


def parse_generated(text):
    tabs = {}
    for name, body in re.findall(r"var syscalls(\w+) = map\[int\]string\{(.*?)\n\}", text, re.S):
        tabs[ARCH_VARS.get(name, name)] = sorted((int(n), s) for n, s in re.findall(r"(\d+):\s*\"([^\"]*)\"", body))
    return tabs


def replay(ctx, cases, limit):
    """Returns dict(ran, mismatches=[...], skipped=reason or None)."""
    src = os.path.join(vlib.REPO, "arch", "mk_syscalls_linux.go")
    if not os.path.exists(src):
        return {"ran": 0, "mismatches": [], "skipped": "arch/mk_syscalls_linux.go is not in the tree"}
    text = open(src).read()
    if not URL_RE.search(text):
        return {"ran": 0, "mismatches": [], "skipped": "the generator's base URL constant was not recognised"}
    root = os.path.dirname(ctx.path("tablegen", "root", "x"))
    class Quiet(http.server.SimpleHTTPRequestHandler):
        def log_message(self, *a, **k):
            pass
    handler = functools.partial(Quiet, directory=root)
    try:
        srv = http.server.ThreadingHTTPServer(("127.0.0.1", 0), handler)
    except OSError as e:
        return {"ran": 0, "mismatches": [], "skipped": "no loopback socket: %s" % e}
    port = srv.server_address[1]
    threading.Thread(target=srv.serve_forever, daemon=True).start()
    try:
        gdir = os.path.dirname(ctx.path("tablegen", "gen", "x"))
        with open(os.path.join(gdir, "mk.go"), "w") as f:
            f.write(URL_RE.sub(r'\1"http://127.0.0.1:%d/"' % port, text))
        binary = os.path.join(gdir, "mkgen")
        rc, o, e = ctx.run(["go", "build", "-o", binary, "mk.go"], cwd=gdir, timeout=600)
        if rc != 0:
            return {"ran": 0, "mismatches": [], "skipped": "the generator does not build stand-alone: " + e[-300:]}
        rnd = random.Random(ctx.seed)
        idx = list(range(len(cases)))
        rnd.shuffle(idx)
        ran, mism = 0, []
        for k in idx[:limit]:
            c = cases[k]
            base = os.path.join(root, "case%d" % k)
            files = {"arch/arm/tools/syscall.tbl": render_tbl(c["arm"], rnd),
                     "arch/arm/include/uapi/asm/unistd.h": render_arm_unistd(c["armpriv"], rnd),
                     "include/uapi/asm-generic/unistd.h": render_generic_unistd(c["gen"], rnd),
                     "arch/x86/entry/syscalls/syscall_32.tbl": render_tbl(c["t32"], rnd, compat=True),
                     "arch/x86/entry/syscalls/syscall_64.tbl": render_tbl(c["t64"], rnd, compat=True)}
            for rel, content in files.items():
                p = os.path.join(base, rel)
                os.makedirs(os.path.dirname(p), exist_ok=True)
                with open(p, "w") as f:
                    f.write(content)
            out = os.path.join(gdir, "z%d.go" % k)
            rc, o, e = ctx.run([binary, "-version", "case%d" % k, "-out", out], cwd=gdir, timeout=60)
            ran += 1
            if rc != 0 or not os.path.exists(out):
                mism.append({"case": k, "what": "the generator failed (rc %d): %s" % (rc, e[-200:])})
                continue
            got = parse_generated(open(out).read())
            for arch, exp in c["expect"].items():
                want = sorted((r["nr"], r["name"]) for r in exp)
                if got.get(arch) != want:
                    mism.append({"case": k, "arch": arch, "generated": got.get(arch), "expected": want,
                                 "tree": {"syscall_64.tbl": c["t64"]} if arch in ("X86_64", "X32") else None})
        return {"ran": ran, "mismatches": mism, "skipped": None}
    finally:
        srv.shutdown()
        srv.server_close()
