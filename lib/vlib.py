"""Shared machinery of the /verif checks: scratch space, harness build, TLC
runs, verdict bookkeeping, evidence and replay files.

Exit codes of a check: 0 property held on everything explored (KNOWN-FINDING
lines possible), 1 at least one VIOLATION line, 2 machinery failure (never a
verdict)."""
import atexit
import glob
import hashlib
import json
import os
import re
import shutil
import signal
import subprocess
import sys
import tempfile
import time

VERIF = os.path.dirname(os.path.dirname(os.path.abspath(__file__)))
REPO = os.environ.get("VERIF_REPO", "/repo")            # the self-test points this at a scratch worktree
OUTDIR = os.environ.get("VERIF_OUTDIR", VERIF)          # where evidence/ and replays/ are written (self-test: scratch)
GOENV = {
    "GOFLAGS": "-mod=mod", "GOPROXY": "off", "GOSUMDB": "off", "GOTOOLCHAIN": "local",
    "CGO_ENABLED": "0",
}
NCPU = os.cpu_count() or 4


class Machinery(Exception):
    """Something in the machinery (not in the code under test) failed."""


def log(*a):
    print(*a, file=sys.stderr, flush=True)


class Ctx:
    def __init__(self, pid, tier, level="model_checking"):
        self.pid = pid
        self.tier = tier
        self.level = level
        self.seed = int(os.environ.get("VERIF_SEED", "1") or 1)
        self.t0 = time.time()
        self.scratch = tempfile.mkdtemp(prefix="verif-%s-" % pid)
        self.procs = []
        atexit.register(self.cleanup)
        for s in (signal.SIGTERM, signal.SIGINT):
            signal.signal(s, lambda *_: sys.exit(2))
        self.cov = {"states": 0, "transitions": 0, "traces_validated_against_impl": 0,
                    "evaluations": 0, "distinct_nontrivial": 0, "samples": [], "rule": "",
                    "tlc_runs": [], "model_drift": [], "skipped": [], "notes": []}
        self.assumptions = []
        self.violations = []      # (message, replay path)
        self.findings = {}        # finding id -> count
        self.known = load_known().get(pid, [])
        self._bin = None

    # ---------------------------------------------------------------- scratch
    def cleanup(self):
        for p in self.procs:
            try:
                os.killpg(p.pid, signal.SIGKILL)
            except Exception:
                pass
        if os.environ.get("VERIF_KEEP"):
            log("scratch kept: " + self.scratch)
            return
        shutil.rmtree(self.scratch, ignore_errors=True)

    def path(self, *a):
        p = os.path.join(self.scratch, *a)
        os.makedirs(os.path.dirname(p), exist_ok=True)
        return p

    def run(self, cmd, timeout=600, cwd=None, env=None, input=None, check=False):
        e = dict(os.environ)
        e.update(GOENV)
        if env:
            e.update(env)
        p = subprocess.Popen(cmd, cwd=cwd or self.scratch, env=e, stdout=subprocess.PIPE,
                             stderr=subprocess.PIPE, stdin=subprocess.PIPE if input is not None else subprocess.DEVNULL,
                             start_new_session=True, text=True)
        self.procs.append(p)
        try:
            out, err = p.communicate(input=input, timeout=timeout)
        except subprocess.TimeoutExpired:
            os.killpg(p.pid, signal.SIGKILL)
            p.communicate()
            raise Machinery("timeout after %ss: %s" % (timeout, " ".join(map(str, cmd))[:200]))
        finally:
            self.procs.remove(p)
        if check and p.returncode != 0:
            raise Machinery("command failed (%d): %s\n%s\n%s" % (p.returncode, " ".join(map(str, cmd))[:300], out[-2000:], err[-3000:]))
        return p.returncode, out, err

    # ---------------------------------------------------------------- harness
    def harness(self):
        """Builds /verif/harness against /repo's current working tree (tag verif)."""
        if self._bin:
            return self._bin
        src = self.path("harness", "x")
        src = os.path.dirname(src)
        shutil.rmtree(src, ignore_errors=True)
        shutil.copytree(os.path.join(VERIF, "harness"), src)
        shutil.copy(os.path.join(src, "go.mod.tmpl"), os.path.join(src, "go.mod"))
        with open(os.path.join(src, "go.mod")) as f:
            gm = f.read().replace("=> /repo", "=> " + REPO)
        with open(os.path.join(src, "go.mod"), "w") as f:
            f.write(gm)
        shutil.copy(os.path.join(REPO, "go.sum"), os.path.join(src, "go.sum"))
        bindir = os.path.join(src, "bin")
        rc, out, err = self.run(["go", "build", "-tags", "verif", "-o", bindir + "/", "./cmd/..."], cwd=src, timeout=900)
        if rc != 0:
            raise Machinery("harness does not build against %s:\n%s" % (REPO, err[-4000:]))
        self._bin = bindir
        return bindir

    def harness_for(self, goarch, cmd):
        """One harness command built for another Linux target the host can execute (386 on an x86_64 kernel); None if it does not build."""
        bindir = self.harness()
        src = os.path.dirname(bindir)
        out = os.path.join(src, "bin_" + goarch, cmd)
        if os.path.exists(out):
            return out
        rc, o, e = self.run(["go", "build", "-tags", "verif", "-o", out, "./cmd/" + cmd], cwd=src, env={"GOARCH": goarch, "CGO_ENABLED": "0"}, timeout=900)
        if rc != 0:
            raise Machinery("harness command %s does not build for linux/%s against %s:\n%s" % (cmd, goarch, REPO, e[-3000:]))
        # a host that cannot execute programs of that target (no 32-bit emulation in the kernel) is not a finding: the caller skips
        try:
            subprocess.run([out, "-h"], capture_output=True, timeout=30)
        except OSError as ex:
            self.note("programs built for linux/%s do not run on this host (%s): that build target is not replayed" % (goarch, ex))
            return None
        return out

    def gobuild(self, pkgdir, out, tags="verif", extra=None, env=None):
        cmd = ["go", "build", "-tags", tags, "-o", out] + (extra or []) + ["."]
        rc, o, e = self.run(cmd, cwd=pkgdir, timeout=900, env=env)
        if rc != 0:
            raise Machinery("go build failed in %s:\n%s" % (pkgdir, e[-4000:]))
        return out

    # -------------------------------------------------------------------- TLC
    def tlc(self, module, cfg, name=None, workers=None, timeout=900, extra=None, simulate=None,
            expect_violation=False, java_opts=None, files=None):
        """Runs TLC on spec/<module>.tla with the given cfg text in a private
        work dir. Returns dict(rc, out, generated, distinct, violated, workdir)."""
        name = name or module
        wd = self.path("tlc", name, "x")
        wd = os.path.dirname(wd)
        for f in glob.glob(os.path.join(VERIF, "spec", "*.tla")):
            shutil.copy(f, wd)
        with open(os.path.join(wd, name + ".cfg"), "w") as f:
            f.write(cfg)
        for fn, content in (files or {}).items():
            with open(os.path.join(wd, fn), "w") as f:
                f.write(content)
        cmd = ["tlc", "-workers", str(workers or NCPU), "-metadir", os.path.join(wd, "md"),
               "-config", name + ".cfg"]
        if simulate:
            cmd += ["-simulate", simulate]
        cmd += (extra or [])
        cmd += [module + ".tla"]
        # TLC leaves an empty tlc-<n> directory per run in java.io.tmpdir: keep it inside the scratch directory
        jtmp = os.path.join(wd, "jtmp")
        os.makedirs(jtmp, exist_ok=True)
        env = {"JAVA_TOOL_OPTIONS": ("-Djava.io.tmpdir=%s %s" % (jtmp, java_opts or "")).strip()}
        t = time.time()
        for attempt in (1, 2):
            rc, out, err = self.run(cmd, cwd=wd, timeout=timeout, env=env)
            out = "\n".join(l for l in out.splitlines() if not l.startswith(("Parsing file", "Semantic processing", "Linting of")))
            # TLC's exit status is 0 (ok), 10-13 (assumption / deadlock / safety / liveness violated); anything else that is not an
            # explained violation is a tool failure. A sporadic one (seen once under heavy load: status 76 without a message) gets one retry.
            explained = rc in (0, 10, 11, 12, 13) or "is violated" in out or "is false" in out or "equal to FALSE" in out
            if explained or attempt == 2:
                break
            log("TLC %s: unexplained exit status %d, retrying once" % (name, rc))
            self.cov["notes"].append("TLC %s: unexplained exit status %d on the first attempt (retried)" % (name, rc))
            shutil.rmtree(os.path.join(wd, "md"), ignore_errors=True)
        res = {"rc": rc, "out": out + err, "workdir": wd, "generated": 0, "distinct": 0,
               "violated": None, "wall_s": round(time.time() - t, 1), "name": name}
        m = re.findall(r"(\d+) states generated, (\d+) distinct states found", out)
        if m:
            res["generated"], res["distinct"] = int(m[-1][0]), int(m[-1][1])
        m = re.search(r"Invariant (\S+) is violated", out) or re.search(r"The invariant of (\S+) is equal to FALSE", out)
        if m:
            res["violated"] = m.group(1)
        m2 = re.search(r"(Temporal properties were violated|Action property (\S+) is violated|is violated by the initial state)", out)
        if m2 and not res["violated"]:
            res["violated"] = m2.group(2) or m2.group(1)
        if "Assumption" in out and "is false" in out:
            res["violated"] = res["violated"] or "ASSUME"
        if re.search(r"Postcondition \S+ .* is false", out):
            res["violated"] = res["violated"] or "POSTCONDITION"
        ok_end = "Model checking completed. No error has been found" in out or (simulate and rc in (0,))
        if not res["violated"] and not ok_end and rc != 0:
            raise Machinery("TLC failed on %s (rc %d):\n%s" % (name, rc, (out + err)[-3000:]))
        if not res["violated"] and rc != 0:
            raise Machinery("TLC rc %d on %s:\n%s" % (rc, name, (out + err)[-3000:]))
        self.cov["tlc_runs"].append({"name": name, "module": module, "generated": res["generated"],
                                     "distinct": res["distinct"], "violated": res["violated"],
                                     "wall_s": res["wall_s"]})
        if not expect_violation:
            self.cov["states"] += res["distinct"]
            self.cov["transitions"] += res["generated"]
        return res

    def tlc_many(self, jobs, parallel=4):
        """Runs several TLC jobs concurrently; jobs are dicts of tlc() kwargs."""
        from concurrent.futures import ThreadPoolExecutor
        w = max(1, NCPU // max(1, min(parallel, len(jobs))))
        def one(j):
            j = dict(j)
            j.setdefault("workers", w)
            return self.tlc(**j)
        with ThreadPoolExecutor(max_workers=parallel) as ex:
            return list(ex.map(one, jobs))

    # ---------------------------------------------------------------- verdicts
    def replay_file(self, obj):
        os.makedirs(os.path.join(OUTDIR, "replays"), exist_ok=True)
        blob = json.dumps(obj, sort_keys=True, indent=1)
        dig = hashlib.sha256(blob.encode()).hexdigest()[:12]
        p = os.path.join(OUTDIR, "replays", "%s-%s.json" % (self.pid, dig))
        with open(p, "w") as f:
            f.write(blob + "\n")
        return p

    def violation(self, message, replay_obj):
        """Records a violation of the property by the real code unless it is a
        listed known finding (matched by the finding's `match` predicate)."""
        for k in self.known:
            if k.get("status") == "finding" and finding_matches(k, replay_obj, message):
                self.findings[k["id"]] = self.findings.get(k["id"], 0) + 1
                return False
        if len(self.violations) < 5:
            replay_obj = dict(replay_obj)
            replay_obj["property"] = self.pid
            replay_obj["message"] = message
            p = self.replay_file(replay_obj)
            self.violations.append((message, p))
        else:
            self.violations.append((message, self.violations[0][1]))
        return True

    def sample(self, obj, limit=6):
        if len(self.cov["samples"]) < limit:
            self.cov["samples"].append(obj)

    def drift(self, what):
        if len(self.cov["model_drift"]) < 20:
            self.cov["model_drift"].append(what)

    def skip(self, what):
        if what not in self.cov["skipped"]:
            self.cov["skipped"].append(what)

    def note(self, what):
        self.cov["notes"].append(what)

    # ---------------------------------------------------------------- finish
    def finish(self):
        cov = self.cov
        if not cov["samples"]:
            cov["samples"] = ["(no sample recorded)"]
        ev = {"property_id": self.pid, "tier": self.tier, "seed": self.seed, "level": self.level,
              "coverage": cov, "assumptions": self.assumptions,
              "wall_s": round(time.time() - self.t0, 1), "violations": len(self.violations),
              "known_findings_seen": self.findings}
        os.makedirs(os.path.join(OUTDIR, "evidence"), exist_ok=True)
        with open(os.path.join(OUTDIR, "evidence", self.pid + ".json"), "w") as f:
            json.dump(ev, f, indent=1, sort_keys=True)
            f.write("\n")
        for k in self.known:
            if k.get("status") == "finding" and self.findings.get(k["id"]):
                print("KNOWN-FINDING: property=%s %s (%d cases)" % (self.pid, k["what"], self.findings[k["id"]]))
        seen = set()
        for msg, p in self.violations:
            if p in seen:
                continue
            seen.add(p)
            print("VIOLATION property=%s replay=%s" % (self.pid, p))
            log("  " + msg)
        sys.stdout.flush()
        return 1 if self.violations else 0


def load_known():
    p = os.path.join(VERIF, "known_findings.json")
    if not os.path.exists(p):
        return {}
    with open(p) as f:
        data = json.load(f)
    out = {}
    for e in data.get("entries", []):
        out.setdefault(e["property"], []).append(e)
    return out


def finding_matches(k, replay_obj, message):
    """A finding suppresses exactly the cases its `match` dict describes:
    every key must equal the replay object's value (dotted keys descend)."""
    m = k.get("match")
    if not m:
        return False
    for key, want in m.items():
        cur = replay_obj
        for part in key.split("."):
            if isinstance(cur, dict) and part in cur:
                cur = cur[part]
            else:
                cur = None
                break
        if key == "message_contains":
            if want not in message:
                return False
            continue
        if cur != want:
            return False
    return True


def read_ndjson(path):
    out = []
    with open(path) as f:
        for line in f:
            line = line.strip()
            if line:
                out.append(json.loads(line))
    return out


def write_ndjson(path, rows):
    with open(path, "w") as f:
        for r in rows:
            f.write(json.dumps(r, separators=(",", ":")) + "\n")


def main(check_fn, pid, level="model_checking"):
    """Entry point used by every check module."""
    import argparse
    ap = argparse.ArgumentParser()
    ap.add_argument("tier", nargs="?", default=os.environ.get("VERIF_TIER", "quick"), choices=["quick", "thorough"])
    ap.add_argument("--replay", default=None)
    a = ap.parse_args(sys.argv[2:])
    ctx = Ctx(pid, a.tier, level)
    try:
        if a.replay:
            rc = check_fn(ctx, replay=a.replay)
            sys.exit(rc or 0)
        check_fn(ctx, replay=None)
        rc = ctx.finish()
    except Machinery as e:
        log("MACHINERY FAILURE in %s: %s" % (pid, e))
        rc = 2
    except SystemExit:
        raise
    except BaseException:  # a bug in the machinery is never a verdict
        import traceback
        traceback.print_exc()
        log("MACHINERY FAILURE in %s: unexpected exception" % pid)
        rc = 2
    sys.exit(rc)
