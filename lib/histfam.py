"""Shared driver for the property "the library has no memory" (spec/Hist.tla): TLC checks Memoryless over all histories of
two calls, HistGen exports histories, harness/cmd/histreplay replays a seeded sample on the real library -
one fresh process per history, every call compared with the same call made alone in a fresh ordinary process. A check
reports the finding kinds it owns:
  compile, text, resolve -> C13    installed -> C08    flags -> C10    nnp -> C11    getinfo, table -> C12    parse -> C14    dump -> note
"""
import json
import os
import random

import vlib

MC_CFG = "CONSTANTS\n  MaxCalls = %d\n  Dev = %s\nSPECIFICATION Spec\nINVARIANTS Memoryless%s\nCHECK_DEADLOCK FALSE\n"
GEN_CFG = ("CONSTANTS\n  MaxCalls = 0\n  Dev = {}\n  OutFile = \"%s\"\n  Stride = %d\n  Offset = %d\n  Triples = TRUE\nSPECIFICATION Spec\nCHECK_DEADLOCK FALSE\n")
OPS = {"C13": {"compile", "recompile", "text", "resolve", "dump"}, "C08": {"load"}, "C10": {"load"}, "C11": {"load"}, "C12": {"getinfo", "table", "resolve"}, "C14": {"parse", "text"}}
OWNS = {"C13": {"compile", "text", "resolve"}, "C08": {"installed"}, "C10": {"flags"}, "C11": {"nnp"}, "C12": {"getinfo", "table"}, "C14": {"parse"}}


def mc_job(maxcalls=2, dev="{}", name="Hist"):
    return dict(module="Hist", cfg=MC_CFG % (maxcalls, dev, " NothingRemembered" if dev == "{}" else ""), name=name, timeout=3000)


def run(ctx, n=None):
    th = ctx.tier == "thorough"
    bindir = ctx.harness()
    out = ctx.path("hist_cases.json")
    stride = 8 if th else 16
    jobs = [mc_job(2), dict(module="HistGen", cfg=GEN_CFG % (out, stride, ctx.seed % stride), name="HistGen", workers=1, timeout=3000)]
    res = ctx.tlc_many(jobs, parallel=2)
    if res[0]["violated"]:
        raise vlib.Machinery("TLC: %s violated in Hist: the specification of the unchanged design does not satisfy its own invariant" % res[0]["violated"])
    ctx.cov["states"] -= res[1]["distinct"]
    ctx.cov["transitions"] -= res[1]["generated"]
    hists = json.load(open(out))
    mine = [h for h in hists if any(c["op"] in OPS[ctx.pid] for c in h)]
    rnd = random.Random(ctx.seed)
    rnd.shuffle(mine)
    n = n or (len(mine) if th else 3000)
    picked = mine[:n]
    if len(picked) < 200:
        raise vlib.Machinery("only %d histories exported for %s" % (len(picked), ctx.pid))
    sample = ctx.path("hist_sample.json")
    json.dump(picked, open(sample, "w"))
    bare = os.path.dirname(ctx.path("hist_bare", "x")) if os.geteuid() == 0 else ""
    find = ctx.path("hist_findings.ndjson")
    rc, o, e = ctx.run([os.path.join(bindir, "histreplay"), "-in", sample, "-out", find] + (["-bare", bare] if bare else []) + (["-blockseccomp"] if os.uname().machine == "x86_64" else []), timeout=3000)
    if rc != 0:
        raise vlib.Machinery("histreplay failed: " + e[-1500:])
    s = json.loads(o.strip().splitlines()[-1])
    if s["children_failed"] > s["histories"] // 10:
        raise vlib.Machinery("%d of %d history processes failed: %s" % (s["children_failed"], s["histories"], e[-600:]))
    ctx.cov["evaluations"] += s["calls"]
    ctx.cov["traces_validated_against_impl"] += s["histories"] - s["children_failed"]
    ctx.cov["memoryless_histories"] = {"exported": len(hists), "replayed": s["histories"], "in_a_process_without_a_file_system": s["histories_in_a_process_without_a_file_system"],
                                      "in_a_process_whose_seccomp_call_is_answered_ENOSYS": s["histories_in_a_process_whose_seccomp_call_is_answered_ENOSYS"],
                                      "calls": s["calls"], "distinct_calls": s["distinct_calls"], "loads": s["loads"], "findings_by_kind": s["findings"]}
    other = {k: v for k, v in s["findings"].items() if k not in OWNS[ctx.pid] and k != "dump"}
    if other:
        ctx.cov.setdefault("failures_owned_by_other_properties", []).append({"scope": "histories (Hist.tla)", "kinds": other})
    for f in vlib.read_ndjson(find):
        if f["kind"] in OWNS[ctx.pid]:
            f["how"] = "./check %s quick" % ctx.pid
            ctx.violation("history: %s" % f["why"], f)
        elif f["kind"] == "dump":
            ctx.note("Policy.Dump depends on the history of the process (no statement speaks about Dump): %s" % f["why"])
