"""Shared driver for the compiler properties C01-C05, C07: model check a scope
with CompileMC, export the same scope with CompileGen, replay it on the real
compiler with polreplay."""
import json
import os

import vlib

KIND_OWNER = {"decision": None, "foreign": "C04", "x32": "C04", "invalid": "C05", "accept": "C07", "panic": "C07", "determinism": "C13", "dump": "-"}


def consts(scope, W=1, X32Bit=4, NSys=2, MaxSkip=255, dev="{}"):
    return ("CONSTANTS\n  MaxSkip = %d\n  W = %d\n  X32Bit = %d\n  NSys = %d\n  Dev = %s\n  Scope = \"%s\"\n"
            % (MaxSkip, W, X32Bit, NSys, dev, scope))


def mc_job(scope, invariants, name=None, **kw):
    cfg = consts(scope, **kw) + "  NShards = 16\nSPECIFICATION Spec\nINVARIANTS %s\nCHECK_DEADLOCK FALSE\n" % " ".join(invariants)
    return dict(module="CompileMC", cfg=cfg, name=name or ("MC_%s_m%d" % (scope, kw.get("MaxSkip", 255))), timeout=3000, java_opts="-Xss512m")


def gen_job(ctx, scope, stride=1, offset=0, le=True, name=None, with_model=True, **kw):
    out = ctx.path("cases_%s.ndjson" % (name or scope))
    cfg = consts(scope, **kw) + "  OutFile = \"%s\"\n  Stride = %d\n  Offset = %d\n  Le = %s\n  WithModel = %s\n" % (
        out, stride, offset % stride if stride > 1 else 0, "TRUE" if le else "FALSE", "TRUE" if with_model else "FALSE") + "SPECIFICATION Spec\nCHECK_DEADLOCK FALSE\n"
    return dict(module="CompileGen", cfg=cfg, name="Gen_" + (name or scope), workers=1, timeout=3000, java_opts="-Xss512m"), out


# scopes that are about operands and argument words: also replayed by a 32-bit build of the harness (a linux/386 program compiles the same
# programs - C19 - and what a 64-bit operand compiles to must not depend on the word size of the program that compiles it)
SCOPES_386 = {"single", "boundary", "guarded", "allops", "pairs", "eqruns", "mergeops", "rich", "longops", "klong", "actions"}


def replay(ctx, cases, concs=3, expand=3, tag="", jail=False, block=False, goarch=None):
    """jail: the replaying process changes its root to an empty directory before its first compilation (no /proc, /sys, /etc): what a
    policy compiles to is a function of the policy, not of what the process can find out about the machine."""
    bindir = ctx.harness()
    fails = ctx.path("fail_%s.ndjson" % tag)
    summ = ctx.path("sum_%s.json" % tag)
    extra = []
    if jail and os.geteuid() == 0:
        jd = ctx.path("jail", "x")
        jd = os.path.dirname(jd)
        extra = ["-jail", jd]
    if block and os.uname().machine == "x86_64":
        # ... nor of what the kernel lets the process do: seccomp(2) itself is answered with ENOSYS (a container profile, an old kernel)
        extra.append("-blockseccomp")
    binary = os.path.join(bindir, "polreplay")
    if goarch:
        binary = ctx.harness_for(goarch, "polreplay")
        if binary is None:
            return None, []
        extra = [x for x in extra if x != "-blockseccomp"]
    rc, out, err = ctx.run([binary, "-in", cases, "-failures", fails, "-summary", summ,
                            "-seed", str(ctx.seed), "-concs", str(concs), "-expand", str(expand)] + extra, timeout=3000)
    if rc != 0:
        raise vlib.Machinery("polreplay%s failed: %s" % (" (linux/%s build)" % goarch if goarch else "", err[-2000:]))
    s = json.load(open(summ))
    s["build_target"] = "linux/" + (goarch or "amd64")
    return s, vlib.read_ndjson(fails)


def account(ctx, summary, failures, mine, decision_owner):
    """Adds a replay summary to the evidence and turns the failures whose kind
    belongs to this property into violations. `mine` = kinds this property
    owns; `decision_owner` = property that owns native decision mismatches in
    this scope."""
    cov = ctx.cov
    cov["evaluations"] += summary["events"]
    cov["distinct_nontrivial"] += summary["distinct_nontrivial"]
    cov["traces_validated_against_impl"] += summary["compilations"]
    cov.setdefault("replayed", []).append({k: summary[k] for k in ("scope", "cases", "compilations", "accepted", "rejected", "events", "drift", "programs_over_255", "xnet_crosschecked", "dump_checked", "retargeted_values", "host_order_compilations", "whole_table_compilations", "compilations_under_PER_LINUX32", "policy_values_compiled_before_with_another_content", "process_without_a_file_system", "process_whose_seccomp_call_is_answered_ENOSYS", "build_target")})
    for s in summary["samples"] or []:
        ctx.sample(s)
    for d in summary["drift_sample"] or []:
        ctx.drift({"scope": summary["scope"], "what": d})
    other = {}
    for kind, n in summary["failures"].items():
        owner = KIND_OWNER[kind] or decision_owner
        if owner != ctx.pid and kind not in mine:
            other[kind] = other.get(kind, 0) + n
    if other:
        cov.setdefault("failures_owned_by_other_properties", []).append({"scope": summary["scope"], "kinds": other})
    for f in failures:
        kind = f["kind"]
        owner = KIND_OWNER[kind] or decision_owner
        if owner == ctx.pid or kind in mine:
            f = dict(f)
            f["how"] = "./check %s --replay <this file>" % ctx.pid
            ctx.violation("%s: %s" % (kind, f["why"]), f)


def replay_one(ctx, path):
    bindir = ctx.harness()
    rc, out, err = ctx.run([os.path.join(bindir, "polreplay"), "-replay", os.path.abspath(path)], timeout=300)
    print(out.strip())
    if rc == 1:
        print("VIOLATION property=%s replay=%s" % (ctx.pid, path))
    elif rc != 0:
        raise vlib.Machinery("polreplay -replay failed: " + err[-2000:])
    return rc


def run_family(ctx, plan, mine, decision_owner):
    """plan: list of dict(scope, mc=[invariants] or None, mc_kw, gen_kw, stride, concs, expand)."""
    mcjobs, genjobs, outs = [], [], []
    for i, p in enumerate(plan):
        kw = p.get("kw", {})
        for ms in p.get("mc_maxskips", [255]):
            if p.get("mc"):
                k2 = dict(kw)
                k2["MaxSkip"] = ms
                mcjobs.append(mc_job(p["scope"], p["mc"], name="MC_%s_%d_m%d" % (p["scope"], i, ms), **k2))
        j, out = gen_job(ctx, p["scope"], stride=p.get("stride", 1), offset=ctx.seed, le=(i + ctx.seed) % 2 == 0, name="%s_%d" % (p["scope"], i),
                          with_model=p.get("with_model", True), **kw)
        genjobs.append(j)
        outs.append(out)
    results = ctx.tlc_many(mcjobs + genjobs, parallel=4)
    for r in results:
        if r["violated"]:
            raise vlib.Machinery("TLC: %s violated in %s: the specification of the unchanged design does not satisfy its own invariant" % (r["violated"], r["name"]))
    for i, (p, out) in enumerate(zip(plan, outs)):
        # of every three scopes (which ones depends on the seed) one is replayed by a process that has no file system left and one by a process
        # whose seccomp(2) calls are answered with ENOSYS; the scope of all action constants by a process with both
        s, f = replay(ctx, out, concs=p.get("concs", 3), expand=p.get("expand", 3), tag=os.path.basename(out),
                      jail=p.get("jail", p["scope"] in ("actions", "kactions") or (i + ctx.seed) % 3 == 1),
                      block=p.get("block", p["scope"] in ("actions", "kactions") or (i + ctx.seed) % 3 == 2))
        account(ctx, s, f, mine, decision_owner)
        if p["scope"] in SCOPES_386 and os.uname().machine == "x86_64" and p.get("build386", True):
            s, f = replay(ctx, out, concs=min(2, p.get("concs", 3)), expand=min(2, p.get("expand", 3)) or 1, tag=os.path.basename(out) + ".386", goarch="386")
            for x in f:
                x["build_target"] = "linux/386"
                x["why"] = "(harness built for linux/386) " + x["why"]
            if s is not None:
                account(ctx, s, f, mine, decision_owner)
