"""Shared helpers for the command properties C15, C17, C18: building the real
binaries from /repo's working tree, the probe target, the objdump site model
and the fake `go` tool."""
import hashlib
import json
import os
import shutil
import stat
import subprocess

import vlib

PROBES = [("tuxcall", 184), ("security", 185), ("afs_syscall", 183), ("getpmsg", 181), ("putpmsg", 182), ("vserver", 236),
          ("create_module", 174), ("get_kernel_syms", 177), ("query_module", 178), ("nfsservctl", 180)]


def pubdir(ctx):
    d = "/tmp/verif-pub-%s-%d" % (ctx.pid, os.getpid())
    if not os.path.isdir(d):
        os.makedirs(d, exist_ok=True)
        os.chmod(d, 0o755)
        import atexit
        atexit.register(lambda: shutil.rmtree(d, ignore_errors=True))
    return d


def build_cmds(ctx):
    """sandbox and seccomp-profiler from the current tree, probetarget from the harness; all in a world-readable dir."""
    d = pubdir(ctx)
    for pkg, name in (("./cmd/sandbox", "sandbox"), ("./cmd/seccomp-profiler", "seccomp-profiler")):
        out = os.path.join(d, name)
        rc, o, e = ctx.run(["go", "build", "-o", out, pkg], cwd=vlib.REPO, timeout=900)
        if rc != 0:
            raise vlib.Machinery("cannot build %s: %s" % (pkg, e[-2000:]))
        os.chmod(out, 0o755)
    bindir = ctx.harness()
    for b in ("probetarget", "underblock"):
        shutil.copy(os.path.join(bindir, b), os.path.join(d, b))
        os.chmod(os.path.join(d, b), 0o755)
    return d


SANDBOX_DUMP_SRC = """//go:build verif

package main

import (
	"fmt"
	"os"
	"syscall"

	seccomp "github.com/elastic/go-seccomp-bpf"
)

// Added to cmd/sandbox through a build overlay (never written into the repository): when VERIF_DUMP_PROG is set, the program
// and flags that LoadFilter is about to hand to the kernel are written there (hook H2, VerifBeforeInstall).
func init() {
	path := os.Getenv("VERIF_DUMP_PROG")
	if path == "" {
		return
	}
	seccomp.VerifBeforeInstall = func(prog []syscall.SockFilter, flags seccomp.FilterFlag) {
		f, err := os.Create(path)
		if err != nil {
			return
		}
		for _, i := range prog {
			fmt.Fprintf(f, "%04x %02x %02x %08x\\n", i.Code, i.Jt, i.Jf, i.K)
		}
		f.Close()
	}
}
"""


def build_sandbox_dump(ctx, d):
    """cmd/sandbox of the current tree plus one overlay file that dumps what is about to be installed. None if it does not build."""
    src = os.path.join(d, "zz_verif_dump.go")
    with open(src, "w") as f:
        f.write(SANDBOX_DUMP_SRC)
    ov = os.path.join(d, "overlay_sandbox.json")
    with open(ov, "w") as f:
        json.dump({"Replace": {os.path.join(os.path.realpath(vlib.REPO), "cmd", "sandbox", "zz_verif_dump.go"): src}}, f)
    out = os.path.join(d, "sandbox_dump")
    rc, o, e = ctx.run(["go", "build", "-tags", "verif", "-overlay", ov, "-o", out, "./cmd/sandbox"], cwd=vlib.REPO, timeout=900)
    if rc != 0:
        ctx.note("the sandbox command with the dump overlay does not build: " + e[-300:])
        return None
    os.chmod(out, 0o755)
    return out


def sandbox_installs(sb, policy_file, scratch, tag):
    """Runs the overlay build of the sandbox on a policy file with /bin/true as the target; returns (program text or None, rc, stderr)."""
    dump = os.path.join(scratch, "dump_%s.txt" % tag)
    if os.path.exists(dump):
        os.remove(dump)
    import resource
    rc, err = None, "timeout"
    try:
        # a policy whose default action kills threads or the process takes the sandbox's own Go runtime down after the install
        # (it may hang): what matters here was written before the install
        p = subprocess.run([sb, "-policy", policy_file, "/bin/true"], capture_output=True, text=True, timeout=4, cwd="/",
                           env={"PATH": "/usr/bin:/bin", "VERIF_DUMP_PROG": dump, "HOME": "/"},
                           preexec_fn=lambda: resource.setrlimit(resource.RLIMIT_CORE, (0, 0)))
        rc, err = p.returncode, p.stderr[-300:]
    except subprocess.TimeoutExpired:
        pass
    prog = open(dump).read() if os.path.exists(dump) else None
    return prog, rc, err


# ---- objdump site model (text in `go tool objdump` layout)

def site_function(idx, name, nr, via="raw", pad=0, raw_ins="SYSCALL"):
    """One function that makes one syscall."""
    lines = ["TEXT main.%s(SB) /src/main.go" % name]
    a = 0x460000 + idx * 0x100
    for k in range(pad):
        lines.append("  main.go:%d\t0x%x\t\t4883ec18\t\tSUBQ $0x18, SP\t" % (100 + k, a + 4 * k))
    if via == "raw":
        lines.append("  main.go:%d\t0x%x\t\t48c7c0%08x\t\tMOVQ $0x%x, AX\t" % (200 + idx, a + 0x40, nr, nr))
        lines.append("  main.go:%d\t0x%x\t\t0f05\t\t\t%s\t" % (201 + idx, a + 0x47, raw_ins))
    else:
        lines.append("  main.go:%d\t0x%x\t\t48c70424%08x\t\tMOVQ $0x%x, 0(SP)\t" % (200 + idx, a + 0x40, nr, nr))
        lines.append("  main.go:%d\t0x%x\t\te800000000\t\tCALL syscall.Syscall(SB)\t" % (201 + idx, a + 0x48))
    lines.append("  main.go:%d\t0x%x\t\tc3\t\t\tRET\t" % (202 + idx, a + 0x50))
    return lines


def cache_path(binary):
    ab = os.path.abspath(binary)
    h = hashlib.sha256(ab.encode()).hexdigest()[:10]
    import pwd
    home = pwd.getpwuid(os.getuid()).pw_dir
    return os.path.join(home, ".seccomp-profiler", os.path.basename(binary) + "-" + h)


def file_sha256(path):
    h = hashlib.sha256()
    with open(path, "rb") as f:
        h.update(f.read())
    return h.hexdigest()


FAKE_GO = r"""#!/bin/sh
# fake `go` for the profiler: `go tool objdump <binary>` serves the canned listing in chunks.
d="$FAKEGO_DIR"
mode=$(cat "$d/mode")
# a run of its own can be given its mode through the environment (overlapping runs):
#   gate_after_<i>:<file>      after chunk i wait until <file> exists, then go on to the end
#   gatefail_after_<i>:<file>  after chunk i wait until <file> exists, then exit 3
if [ -n "$FAKEGO_MODE" ]; then mode="${FAKEGO_MODE%%:*}"; gate="${FAKEGO_MODE#*:}"; fi
# an OLDER version of the binary (its last bytes say so) makes fewer system calls: its whole listing is the first chunk
# (the binary is the last argument that names a file: a disassembler may be given an address range or a symbol pattern as well)
for a in "$@"; do if [ -f "$a" ]; then bin="$a"; fi; done
if [ -f "$bin" ] && [ "$(tail -c 10 "$bin")" = "OLDVERSION" ]; then cat "$d"/chunk_01; exit 0; fi
waitgate() { n=0; while [ ! -e "$gate" ] && [ $n -lt 1000 ]; do sleep 0.02; n=$((n+1)); done; }
case "$mode" in fail_after_0) exit 3;; kill_after_0) kill -9 $PPID; exit 3;; sig_after_0) kill -KILL $$;; term_after_0) kill -TERM $PPID; sleep 0.15;; int_after_0) kill -INT $PPID; sleep 0.15;; hup_after_0) kill -HUP $PPID; sleep 0.15; exit 3;; esac
i=0
for c in "$d"/chunk_*; do
  i=$((i+1))
  cat "$c"
  case "$mode" in
    fail_after_$i) exit 3;;
    kill_after_$i) sleep 0.15; kill -9 $PPID; exit 3;;
    sig_after_$i) kill -KILL $$;;
    term_after_$i) kill -TERM $PPID; sleep 0.15;;
    int_after_$i) kill -INT $PPID; sleep 0.15;;
    hup_after_$i) kill -HUP $PPID; sleep 0.15; exit 3;;
    gate_after_$i) waitgate;;
    gatefail_after_$i) waitgate; exit 3;;
  esac
done
exit 0
"""


def make_fake_go(dirpath, chunks):
    os.makedirs(dirpath, exist_ok=True)
    p = os.path.join(dirpath, "go")
    with open(p, "w") as f:
        f.write(FAKE_GO)
    os.chmod(p, 0o755)
    for i, c in enumerate(chunks, 1):
        with open(os.path.join(dirpath, "chunk_%02d" % i), "w") as f:
            f.write(c)
    set_mode(dirpath, "ok")
    return p


def set_mode(dirpath, mode):
    with open(os.path.join(dirpath, "mode"), "w") as f:
        f.write(mode)


def parse_profile_yaml(text):
    """Names of the emitted YAML profile (one allow group)."""
    names = []
    innames = False
    for line in text.splitlines():
        s = line.strip()
        if s.startswith("names:") or s.startswith("- names:"):
            innames = True
            if s.endswith("[]"):
                innames = False
            continue
        if innames:
            if s.startswith("- "):
                names.append(s[2:].strip())
            elif s:
                innames = False
    return names
