-------------------------------- MODULE Text --------------------------------
(***************************************************************************)
(* C14: text and configuration forms denote the same policy.               *)
(*                                                                         *)
(* Part 1 - parsers.  Names are sequences of one-character strings.        *)
(*   ParseAction(s)    = the action whose documented name equals Lower(s), *)
(*                       else "error" (never a permissive default)         *)
(*   ParseOperation(s) = the operation whose name equals s ignoring case   *)
(*   PrintAction(a)    = the documented name                               *)
(* Cases(kind) is the finite set of strings offered to the real parsers:   *)
(* every name under case masks (all masks for short names, a systematic    *)
(* family for long ones) and near misses; each with the expected result.   *)
(*                                                                         *)
(* Part 2 - documents.  A struct value is a function from Go field names   *)
(* to values; Marshal(fmt, ...) produces a document keyed by the fmt tags  *)
(* (yaml / json), Unpack(...) reads a document by the config tags, absent  *)
(* keys give the zero value.  The tag tables are DATA EXTRACTED FROM THE   *)
(* CODE by reflection at run time (module TextData: Fields[struct] =       *)
(* sequence of [go, config, yaml, json, kind, elem]).  RoundTrip says the  *)
(* marshalled form reads back as the same value.                           *)
(***************************************************************************)
EXTENDS TextData, Integers, Sequences, FiniteSets, TLC, SequencesExt

UpperS == <<"A","B","C","D","E","F","G","H","I","J","K","L","M","N","O","P","Q","R","S","T","U","V","W","X","Y","Z">>
LowerS == <<"a","b","c","d","e","f","g","h","i","j","k","l","m","n","o","p","q","r","s","t","u","v","w","x","y","z">>
IsUp(c) == \E i \in 1..26 : UpperS[i] = c
IsLo(c) == \E i \in 1..26 : LowerS[i] = c
ToLo(c) == IF IsUp(c) THEN LowerS[CHOOSE i \in 1..26 : UpperS[i] = c] ELSE c
ToUp(c) == IF IsLo(c) THEN UpperS[CHOOSE i \in 1..26 : LowerS[i] = c] ELSE c
Lower(s) == [i \in 1..Len(s) |-> ToLo(s[i])]

\* the documented names (README, seccomp.yml, constants.go)
ActionName ==
  [a \in {"kill_thread", "kill_process", "trap", "errno", "trace", "log", "allow"} |-> a]
ActionNames == DOMAIN ActionName
OperationNames == {"Equal", "NotEqual", "GreaterThan", "LessThan", "GreaterOrEqual", "LessOrEqual", "BitsSet", "BitsNotSet"}

\* strings <-> character sequences: the data module supplies Chars[name]
ParseAction(s) ==
  LET hit == {a \in ActionNames : Chars[a] = Lower(s)} IN
  IF hit = {} THEN "error" ELSE CHOOSE a \in hit : TRUE
ParseOperation(s) ==
  LET hit == {o \in OperationNames : Lower(Chars[o]) = Lower(s)} IN
  IF hit = {} THEN "error" ELSE CHOOSE o \in hit : TRUE

\* case masks of a name: all masks when it has at most MaxMaskLetters letters,
\* else all-lower, all-upper, one letter flipped at each position, alternating
LetterPos(s) == {i \in 1..Len(s) : IsUp(s[i]) \/ IsLo(s[i])}
Flip(s, P) == [i \in 1..Len(s) |-> IF i \in P THEN (IF IsUp(s[i]) THEN ToLo(s[i]) ELSE ToUp(s[i])) ELSE s[i]]
Masks(s) ==
  LET L == LetterPos(s) IN
  IF Cardinality(L) <= MaxMaskLetters THEN {Flip(s, P) : P \in SUBSET L}
  ELSE {Lower(s), [i \in 1..Len(s) |-> ToUp(s[i])], Flip(s, {i \in L : i % 2 = 0}), Flip(s, {i \in L : i % 2 = 1})}
       \cup {Flip(s, {i}) : i \in L} \cup {Flip(Lower(s), {i}) : i \in L}
\* near misses: prefix, suffix, surrounding blank, one edit, empty
NearMisses(s) ==
  {SubSeq(s, 1, Len(s) - 1), Tail(s), <<" ">> \o s, s \o <<" ">>, s \o <<"s">>, <<>>, s \o s,
   [s EXCEPT ![1] = "_"], [s EXCEPT ![Len(s)] = "0"]}
ActionCases ==
  UNION {{[kind |-> "action", s |-> m, expect |-> a] : m \in Masks(Chars[a])} : a \in ActionNames}
  \cup UNION {{[kind |-> "action", s |-> m, expect |-> ParseAction(m)] : m \in NearMisses(Chars[a])} : a \in ActionNames}
  \cup {[kind |-> "action", s |-> Chars[x], expect |-> "error"] : x \in {"user_notif", "unknown", "kill", "deny", "0"}}
OperationCases ==
  UNION {{[kind |-> "operation", s |-> m, expect |-> o] : m \in Masks(Chars[o])} : o \in OperationNames}
  \cup UNION {{[kind |-> "operation", s |-> m, expect |-> ParseOperation(m)] : m \in NearMisses(Chars[o])} : o \in OperationNames}
\* the model's own sanity: masks parse back, documented names are fixed points
ParsersOK ==
  /\ \A a \in ActionNames : \A m \in Masks(Chars[a]) : ParseAction(m) = a
  /\ \A o \in OperationNames : \A m \in Masks(Chars[o]) : ParseOperation(m) = o
  /\ \A a \in ActionNames : ParseAction(Chars[ActionName[a]]) = a

---------------------------------------------------------------------------
(* Documents                                                               *)
Tag(fmt, f) == CASE fmt = "yaml" -> f.yaml [] fmt = "json" -> f.json [] fmt = "config" -> f.config
FieldsOf(st) == Fields[st]
\* marshal a struct value v of struct type st into a document keyed by fmt tags
RECURSIVE Marshal(_, _, _)
Marshal(fmt, st, v) ==
  LET fs == FieldsOf(st) IN
  [k \in {Tag(fmt, fs[i]) : i \in 1..Len(fs)} |->
     LET f == fs[CHOOSE i \in 1..Len(fs) : Tag(fmt, fs[i]) = k] IN
     CASE f.kind = "scalar" -> v[f.go]
       [] f.kind = "slice"  -> v[f.go]
       [] f.kind = "struct" -> Marshal(fmt, f.elem, v[f.go])
       [] f.kind = "structs" -> [i \in 1..Len(v[f.go]) |-> Marshal(fmt, f.elem, v[f.go][i])]]
\* read a document by the config tags; an absent key gives the zero value
Zero(f) == CASE f.kind = "scalar" -> "ZERO" [] OTHER -> <<>>
RECURSIVE Unpack(_, _)
Unpack(st, doc) ==
  LET fs == FieldsOf(st) IN
  [g \in {fs[i].go : i \in 1..Len(fs)} |->
     LET f == fs[CHOOSE i \in 1..Len(fs) : fs[i].go = g] IN
     IF Tag("config", f) \notin DOMAIN doc THEN Zero(f) ELSE
     LET d == doc[Tag("config", f)] IN
     CASE f.kind = "scalar" -> d
       [] f.kind = "slice" -> d
       [] f.kind = "struct" -> Unpack(f.elem, d)
       [] f.kind = "structs" -> [i \in 1..Len(d) |-> Unpack(f.elem, d[i])]]
RoundTrip(fmt, st, v) == Unpack(st, Marshal(fmt, st, v)) = v

\* policy values of the document scope (values are tokens: no arithmetic)
Cond(a, o, val) == [Argument |-> a, Operation |-> o, Value |-> val]
NWC(n, cs) == [Name |-> n, Conditions |-> cs]
Group(ns, nw, act) == [Names |-> ns, NamesWithCondtions |-> nw, Action |-> act]
Policy(def, gs) == [DefaultAction |-> def, Syscalls |-> gs]
DocPolicies ==
  {Policy(d, <<Group(<<"read">>, <<NWC("write", <<Cond(a, o, v)>>)>>, act)>>) :
     d \in {"allow", "errno"}, act \in {"errno", "kill_thread"}, a \in {"a1", "a5"}, o \in {"Equal", "BitsSet"}, v \in {"1", "max"}}
  \cup {Policy("allow", <<Group(<<>>, <<NWC("write", <<Cond("a3", "LessThan", "v1"), Cond("a4", "NotEqual", "v2")>>), NWC("close", <<Cond("a2", "Equal", "v3")>>)>>, "trap"),
                         Group(<<"open", "close">>, <<>>, "log")>>)}
RoundTripOK == \A fmt \in {"yaml", "json"} : \A p \in DocPolicies : RoundTrip(fmt, "Policy", p)
\* field by field: the key a value is written with is the key it is read from
TagsAgree == \A st \in DOMAIN Fields : \A i \in 1..Len(Fields[st]) :
               Fields[st][i].yaml = Fields[st][i].config /\ Fields[st][i].json = Fields[st][i].config

---------------------------------------------------------------------------
(* Policies for the behavioural replay through the configuration path, in  *)
(* the shape of the documented configuration (keys as in seccomp.yml).     *)
(* Operands are tokens the harness parses: the model does no arithmetic.   *)
Operands == {"0", "1", "0x80000000", "0xffffffff", "0x100000000", "0x7fffffffffffffff", "0x8000000000000000", "0xffffffffffffffff"}
CArg(a, o, v) == [argument |-> a, operation |-> o, value |-> v]
CNWC(n, cs) == [name |-> n, arguments |-> cs]
CGroup(ns, nw, act) == [names |-> ns, names_with_args |-> nw, action |-> act]
CPolicy(d, gs) == [default_action |-> d, syscalls |-> gs]
ConfigPolicies ==
  \* every default x every group action
  {CPolicy(d, <<CGroup(<<"read", "write">>, <<CNWC("clone", <<CArg(0, "BitsNotSet", "0x10000000")>>)>>, a)>>) : d \in ActionNames, a \in ActionNames}
  \* every operation x every argument index x every operand
  \cup {CPolicy("allow", <<CGroup(<<>>, <<CNWC("ioctl", <<CArg(i, o, v)>>)>>, "errno")>>) : i \in 0..5, o \in OperationNames, v \in Operands}
  \* group actions that carry data bits (an errno, a tracer message): valid in memory, without a documented text form; whatever a
  \* marshalled form of such a policy says, it must not load back as a DIFFERENT policy (a loud refusal is admissible)
  \cup {CPolicy("allow", <<CGroup(<<"read", "write">>, <<>>, a), CGroup(<<"close">>, <<>>, "errno")>>) : a \in {"errno+38", "errno+13", "errno+1", "trace+7", "trap+2"}}
  \* several conditions / entries / groups
  \cup {CPolicy("errno", <<CGroup(<<"open">>, <<CNWC("ioctl", <<CArg(i, "Equal", v), CArg(5 - i, "GreaterThan", w)>>), CNWC("ioctl", <<CArg(i, "LessOrEqual", w)>>),
                                                CNWC("write", <<CArg(2, "NotEqual", v)>>)>>, "allow"),
                           CGroup(<<"close", "read">>, <<>>, "kill_process")>>) : i \in 0..5, v \in Operands, w \in {"1", "0xffffffffffffffff"}}
=============================================================================
