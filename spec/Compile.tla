------------------------------ MODULE Compile ------------------------------
(***************************************************************************)
(* filter.go: the policy compiler, transcribed function by function on top *)
(* of the builder of Asm.tla, and - written only from the property         *)
(* statements C01-C05, C07 - the reference decision function Decide.       *)
(*                                                                         *)
(* A policy is                                                             *)
(*   [def    : action,                      DefaultAction                  *)
(*    x86    : BOOLEAN,                     target is x86_64 (x32 guard)   *)
(*    groups : Seq([names : Seq(sys),       SyscallGroup.Names             *)
(*                  conds : Seq([num : sys, NamesWithCondtions             *)
(*                               conds : Seq([arg, op, val])]),            *)
(*                  act   : action])]                                      *)
(* `sys` is an abstract syscall: a small natural that is also its number   *)
(* in the abstract table 0..NSys-1; Unknown stands for a name the table    *)
(* does not have.  Words have W bits, a "64-bit" value is a natural below  *)
(* 2^(2W) (DESIGN 3.1).  The nr word ranges over 0..NrMax, X32Bit is the   *)
(* image of 0x40000000.                                                    *)
(*                                                                         *)
(* Dev is the set of named deviations from the ideal design; each names a  *)
(* behaviour the pinned commit had and a "fix:" commit removed.  With      *)
(* Dev = {} the module describes the tree as it is now.                    *)
(*   "LegacyLayout"    every group assembled on its own and ended with     *)
(*                     `ret default; ret action` (groups after the first   *)
(*                     were dead code; all-empty groups gave an invalid    *)
(*                     program)                                            *)
(*   "NoNrReload"      the syscall number was loaded once; after a         *)
(*                     conditional entry failed the accumulator held an    *)
(*                     argument word                                       *)
(*   "UnknownOpDropped" a condition with an unknown operation emitted      *)
(*                     nothing instead of being refused                    *)
(*   "LegacyAssembler" Program.Assemble of the pinned commit               *)
(***************************************************************************)
EXTENDS Asm
CONSTANTS W, X32Bit, NSys, Dev

B == 2^W
Hi(v) == v \div B
Lo(v) == v % B
Unknown == 99

Ops == <<"Equal", "NotEqual", "GreaterThan", "LessThan",
         "GreaterOrEqual", "LessOrEqual", "BitsSet", "BitsNotSet">>
OpSet == {Ops[i] : i \in 1..Len(Ops)}
NamedActions == {"kill_thread", "kill_process", "trap", "errno", "trace", "log", "allow"}
\* an action value may carry data bits (the errno to return, the tracer's message); a group's action is not validated and is
\* returned as written: only the bare errno action gets EPERM
DataActions == {"errno+2", "errno+13", "errno+38", "errno+4094", "trace+42", "trap+6"}
\* constants.go: errno carries EPERM, everything else is returned as is
EncAct(a) == IF a = "errno" THEN "errno|EPERM" ELSE a

---------------------------------------------------------------------------
(* assembler.go LdHi / LdLo: word slot of the halves of argument a for the *)
(* byte order in effect (le = little endian: low half first).              *)
HiSlot(a, le) == 4 + 2*a + (IF le THEN 1 ELSE 0)
LoSlot(a, le) == 4 + 2*a + (IF le THEN 0 ELSE 1)

(* SyscallWithConditions.Assemble, the operation chain: one 64-bit         *)
(* comparison as two (three) 32-bit tests.  An operation outside the eight *)
(* emits nothing (if/else chain without default) - reachable only under    *)
(* "UnknownOpDropped", otherwise validation refuses it first.              *)
EmitCond(p, c, match, noMatch, le) ==
  LET hi == Hi(c.val) lo == Lo(c.val)
      h  == Emit(p, Ld(HiSlot(c.arg, le)))
      L(q) == Emit(q, Ld(LoSlot(c.arg, le))) IN
  CASE c.op = "Equal" ->
         JmpIf(L(JmpIfTrue(h, "ne", hi, noMatch)), "eq", lo, match, noMatch)
    [] c.op = "NotEqual" ->
         JmpIf(L(JmpIfTrue(h, "ne", hi, match)), "ne", lo, match, noMatch)
    [] c.op = "GreaterThan" ->
         JmpIf(L(JmpIfTrue(JmpIfTrue(h, "gt", hi, match), "ne", hi, noMatch)), "gt", lo, match, noMatch)
    [] c.op = "GreaterOrEqual" ->
         JmpIf(L(JmpIfTrue(JmpIfTrue(h, "gt", hi, match), "ne", hi, noMatch)), "ge", lo, match, noMatch)
    [] c.op = "LessThan" ->
         JmpIf(L(JmpIfTrue(JmpIfTrue(h, "lt", hi, match), "ne", hi, noMatch)), "lt", lo, match, noMatch)
    [] c.op = "LessOrEqual" ->
         JmpIf(L(JmpIfTrue(JmpIfTrue(h, "lt", hi, match), "ne", hi, noMatch)), "le", lo, match, noMatch)
    [] c.op = "BitsSet" ->
         JmpIf(L(JmpIfTrue(h, "set", hi, match)), "set", lo, match, noMatch)
    [] c.op = "BitsNotSet" ->
         JmpIf(L(JmpIfTrue(h, "set", hi, noMatch)), "nset", lo, match, noMatch)
    [] OTHER -> p

\* one condition list: all conditions must hold (nextArgument / match labels)
RECURSIVE EmitList(_, _, _, _, _, _)
EmitList(p, conds, i, action, noMatch, le) ==
  IF i > Len(conds) THEN p ELSE
  LET p1 == NewLabel(p) nextArg == LastLabel(p1)
      match == IF i = Len(conds) THEN action ELSE nextArg
      p2 == EmitCond(p1, conds[i], match, noMatch, le)
  IN EmitList(SetLabel(p2, nextArg), conds, i + 1, action, noMatch, le)

\* the OR over the condition lists of one syscall (noMatch label per list)
RECURSIVE EmitLists(_, _, _, _, _)
EmitLists(p, lists, k, action, le) ==
  IF k > Len(lists) THEN p ELSE
  LET p1 == NewLabel(p) noMatch == LastLabel(p1)
      p2 == EmitList(p1, lists[k], 1, action, noMatch, le)
  IN EmitLists(SetLabel(p2, noMatch), lists, k + 1, action, le)

\* SyscallWithConditions.Assemble; s = [num, lists]
EmitSyscall(p, s, action, le) ==
  IF s.lists = <<>> THEN JmpIfTrue(p, "eq", s.num, action) ELSE
  LET p1 == NewLabel(p) nextSys == LastLabel(p1)
      p2 == EmitLists(JmpIfTrue(p1, "ne", s.num, nextSys), s.lists, 1, action, le)
      \* no list matched: the accumulator holds an argument word, reload nr
      p3 == IF "NoNrReload" \in Dev THEN p2 ELSE Emit(p2, Ld(0))
  IN SetLabel(p3, nextSys)

---------------------------------------------------------------------------
(* SyscallGroup.toSyscallsWithConditions: a problem-collecting pass.       *)
(* acc = [list : Seq([num, lists]), problems : set of tags]                *)
InTable(n) == n \in 0..(NSys - 1)
RECURSIVE AddNames(_, _, _)
AddNames(acc, names, i) ==
  IF i > Len(names) THEN acc ELSE
  LET n == names[i] IN
  IF ~InTable(n) THEN AddNames([acc EXCEPT !.problems = @ \cup {"unknown"}], names, i + 1) ELSE
  IF \E k \in 1..Len(acc.list) : acc.list[k].num = n
  THEN AddNames([acc EXCEPT !.problems = @ \cup {"duplicate"}], names, i + 1)
  ELSE AddNames([acc EXCEPT !.list = Append(@, [num |-> n, lists |-> <<>>])], names, i + 1)

\* ArgumentConditions.Validate
CondProblems(cs) ==
  (IF \E k \in 1..Len(cs) : cs[k].arg \notin 0..5 THEN {"argument"} ELSE {}) \cup
  (IF "UnknownOpDropped" \notin Dev /\ \E k \in 1..Len(cs) : cs[k].op \notin OpSet THEN {"operation"} ELSE {})

RECURSIVE AddConds(_, _, _)
AddConds(acc, cs, i) ==
  IF i > Len(cs) THEN acc ELSE
  LET c == cs[i] IN
  IF ~InTable(c.num) THEN AddConds([acc EXCEPT !.problems = @ \cup {"unknown"}], cs, i + 1) ELSE
  LET ks == {k \in 1..Len(acc.list) : acc.list[k].num = c.num}
      pr == CondProblems(c.conds) IN
  IF pr # {} THEN AddConds([acc EXCEPT !.problems = @ \cup pr], cs, i + 1) ELSE
  IF ks = {} THEN AddConds([acc EXCEPT !.list = Append(@, [num |-> c.num, lists |-> <<c.conds>>])], cs, i + 1) ELSE
  LET k == CHOOSE k \in ks : TRUE IN
  IF acc.list[k].lists = <<>>
  THEN AddConds([acc EXCEPT !.problems = @ \cup {"cond+uncond"}], cs, i + 1)
  ELSE AddConds([acc EXCEPT !.list[k].lists = Append(@, c.conds)], cs, i + 1)

ToSyscalls(g) == AddConds(AddNames([list |-> <<>>, problems |-> {}], g.names, 1), g.conds, 1)

RECURSIVE EmitAll(_, _, _, _, _)
EmitAll(p, list, i, action, le) ==
  IF i > Len(list) THEN p ELSE EmitAll(EmitSyscall(p, list[i], action, le), list, i + 1, action, le)

AsmAlgo(p) == IF "LegacyAssembler" \in Dev THEN AssembleLegacy(p) ELSE Assemble(p)

(* SyscallGroup.Assemble(defaultAction): the public stand-alone entry      *)
(* point: checks; ret default; action: ret g.act                           *)
GroupAssemble(g, def, le) ==
  IF g.names = <<>> /\ g.conds = <<>> THEN [err |-> "", insts |-> <<>>] ELSE
  LET sc == ToSyscalls(g) IN
  IF sc.problems # {} THEN [err |-> "invalid", insts |-> <<>>] ELSE
  LET p0 == NewLabel(NewProg) action == LastLabel(p0)
      p1 == EmitAll(p0, sc.list, 1, action, le)
      p2 == Emit(p1, RetI(EncAct(def)))
      p3 == Emit(SetLabel(p2, action), RetI(EncAct(g.act)))
      a == AsmAlgo(p3)
  IN [err |-> a.err, insts |-> a.insts]

---------------------------------------------------------------------------
(* Policy.Validate                                                         *)
ValidateErr(pol) ==
  IF pol.def \notin NamedActions THEN "default_action"
  ELSE IF pol.groups = <<>> THEN "empty" ELSE ""

(* Policy.Assemble, the part that builds the rules.                        *)
(* Now: one Program for the policy; per non-empty group a fresh action     *)
(* label and the group's checks; then `ret default` once, then one         *)
(* `ret action` per group.  acts = sequence of [label, act].               *)
RECURSIVE EmitGroups(_, _, _, _, _)
EmitGroups(p, gs, i, le, acts) ==
  IF i > Len(gs) THEN [p |-> p, err |-> "", acts |-> acts] ELSE
  LET g == gs[i] IN
  IF g.names = <<>> /\ g.conds = <<>> THEN EmitGroups(p, gs, i + 1, le, acts) ELSE
  LET sc == ToSyscalls(g) IN
  IF sc.problems # {} THEN [p |-> p, err |-> "invalid", acts |-> acts] ELSE
  LET p0 == NewLabel(p) action == LastLabel(p0)
      p1 == EmitAll(p0, sc.list, 1, action, le)
  IN EmitGroups(p1, gs, i + 1, le, Append(acts, [label |-> action, act |-> g.act]))
RECURSIVE EmitRets(_, _, _)
EmitRets(p, acts, i) ==
  IF i > Len(acts) THEN p
  ELSE EmitRets(Emit(SetLabel(p, acts[i].label), RetI(EncAct(acts[i].act))), acts, i + 1)

\* rules of the policy -> [err, insts, nacts]
Rules(pol, le) ==
  LET eg == EmitGroups(NewProg, pol.groups, 1, le, <<>>) IN
  IF eg.err # "" THEN [err |-> eg.err, insts |-> <<>>, nacts |-> 0] ELSE
  LET p2 == Emit(eg.p, RetI(EncAct(pol.def)))
      a == AsmAlgo(EmitRets(p2, eg.acts, 1)) IN
  [err |-> a.err, insts |-> IF a.err = "" THEN a.insts ELSE <<>>, nacts |-> Len(eg.acts)]

\* pinned commit: groups assembled separately and concatenated
RECURSIVE LegacyGroups(_, _, _, _)
LegacyGroups(gs, i, def, le) ==
  IF i > Len(gs) THEN [err |-> "", insts |-> <<>>] ELSE
  LET g == GroupAssemble(gs[i], def, le) IN
  IF g.err # "" THEN g ELSE
  LET r == LegacyGroups(gs, i + 1, def, le) IN
  IF r.err # "" THEN r ELSE [err |-> "", insts |-> g.insts \o r.insts]
LegacyRules(pol, le) ==
  LET g == LegacyGroups(pol.groups, 1, pol.def, le) IN
  [err |-> g.err, insts |-> g.insts, nacts |-> 1]

(* Policy.Assemble: validation, rules, prologue (arch load, jump to the    *)
(* default return in its short or long form, nr load, x32 guard).          *)
(* ArchJumpLimit is 255 in the code; it is MaxSkip here.                   *)
Compile(pol, le) ==
  IF ValidateErr(pol) # "" THEN [err |-> ValidateErr(pol), insts |-> <<>>] ELSE
  LET r == IF "LegacyLayout" \in Dev THEN LegacyRules(pol, le) ELSE Rules(pol, le) IN
  IF r.err # "" THEN [err |-> r.err, insts |-> <<>>] ELSE
  LET x32 == IF pol.x86 THEN << Jif("ge", X32Bit, 0, 1), RetI("errno|ENOSYS") >> ELSE <<>>
      \* distance from the arch jump to the `ret default`
      jumpN == Len(x32) + Len(r.insts) - r.nacts
      head == IF jumpN <= MaxSkip
              THEN << Ld(1), Jif("ne", "own", jumpN, 0) >>
              ELSE << Ld(1), Jif("eq", "own", 1, 0), Ja(jumpN) >>
  IN [err |-> "", insts |-> head \o << Ld(0) >> \o x32 \o r.insts]

\* Policy.Dump (beyond the listed properties): one line "<index>: <instruction>" per instruction of exactly the program
\* Assemble returns; an error instead of output when Assemble fails
Dump(pol, le) ==
  LET c == Compile(pol, le) IN
  IF c.err # "" THEN [err |-> c.err, lines |-> <<>>]
  ELSE [err |-> "", lines |-> [i \in 1..Len(c.insts) |-> [n |-> i - 1, inst |-> c.insts[i]]]]

\* index (0-based) of the first rule instruction = end of the prologue
PrologueLen(pol, prog) ==
  (IF prog[2].c = "ne" THEN 2 ELSE 3) + 1 + (IF pol.x86 THEN 2 ELSE 0)

---------------------------------------------------------------------------
(* Events and the word layout of seccomp_data.                             *)
(* ev = [arch : "own" | other ids, nr : 0..NrMax, args : [0..5 -> value]]  *)
(* (only the argument positions a scope uses need to be in DOMAIN args)    *)
Data(ev, le) ==
  [s \in 0..15 |->
     IF s = 0 THEN ev.nr ELSE IF s = 1 THEN ev.arch ELSE
     IF s >= 4 THEN LET a == (s - 4) \div 2 h == (s - 4) % 2 IN
                    IF a \in DOMAIN ev.args
                    THEN (IF (h = 1) = le THEN Hi(ev.args[a]) ELSE Lo(ev.args[a]))
                    ELSE 0
     ELSE 0]
RunEv(prog, ev, le) == Run(prog, Data(ev, le))

---------------------------------------------------------------------------
(* Reference semantics, from the statements of C01-C04 only.               *)
Rel(op, a, v) ==
  CASE op = "Equal" -> a = v              [] op = "NotEqual" -> a # v
    [] op = "GreaterThan" -> a > v        [] op = "LessThan" -> a < v
    [] op = "GreaterOrEqual" -> a >= v    [] op = "LessOrEqual" -> a <= v
    [] op = "BitsSet" -> (a & v) # 0      [] op = "BitsNotSet" -> (a & v) = 0
ListHolds(l, ev) == \A i \in 1..Len(l) : Rel(l[i].op, ev.args[l[i].arg], l[i].val)
GroupMatches(g, ev) ==
  \/ \E i \in 1..Len(g.names) : g.names[i] = ev.nr
  \/ \E i \in 1..Len(g.conds) : g.conds[i].num = ev.nr /\ ListHolds(g.conds[i].conds, ev)
Decide(pol, ev) ==
  IF ev.arch # "own" THEN EncAct(pol.def) ELSE
  IF pol.x86 /\ ev.nr >= X32Bit THEN "errno|ENOSYS" ELSE
  LET ms == {i \in 1..Len(pol.groups) : GroupMatches(pol.groups[i], ev)} IN
  IF ms = {} THEN EncAct(pol.def)
  ELSE EncAct(pol.groups[CHOOSE i \in ms : \A k \in ms : i <= k].act)

\* What the calling thread observes when the running kernel answers its system call with decision d (kernel/seccomp.c
\* __seccomp_filter), for a call the kernel does not implement (the probe calls: "runs" shows as ENOSYS), with no tracer
\* attached and no notification listener installed: trace and user_notif then fail the call with ENOSYS, an errno action
\* returns its data bits, trap delivers SIGSYS to the thread, kill_thread ends the thread and leaves the process, and
\* kill_process - like every value the kernel has no case for - ends the whole process with SIGSYS.
Decisions == {EncAct(a) : a \in NamedActions \cup DataActions \cup {"user_notif", "unnamed"}} \cup {"errno|ENOSYS"}
KernelObserves(d) ==
  CASE d \in {"allow", "log", "trace", "trace+42", "user_notif", "errno|ENOSYS", "errno+38"} -> "errno:38"
    [] d = "errno|EPERM" -> "errno:1"
    [] d = "errno+2" -> "errno:2"
    [] d = "errno+13" -> "errno:13"
    [] d = "errno+4094" -> "errno:4094"
    [] d \in {"trap", "trap+6"} -> "sigsys"
    [] d = "kill_thread" -> "thread-gone"
    [] d \in {"kill_process", "unnamed"} -> "killed"

\* The same policy compiled for the x32 description of the architecture (arch.X32: the audit id of x86_64, the table of
\* the x32 ABI, SeccompMask = the x32 bit).  Every number in the rules then carries the x32 bit, and the guard in front of
\* the rules answers every number that carries it with ENOSYS: no rule can match any event, so a native event gets the
\* default action.  (A consequence of the code as it is; the statement of C04 only fixes the ENOSYS half.)  Conformance
\* only: the compiler model is not instantiated for this target.
DecideX32Target(pol, ev) ==
  IF ev.arch # "own" THEN EncAct(pol.def) ELSE
  IF ev.nr >= X32Bit THEN "errno|ENOSYS" ELSE EncAct(pol.def)

(* C07: the defects the statement lists (as far as a policy value of this  *)
(* model can have them).                                                   *)
GroupDefect(g) ==
  \/ \E i \in 1..Len(g.names) : ~InTable(g.names[i])
  \/ \E i \in 1..Len(g.conds) : ~InTable(g.conds[i].num)
  \/ \E i, k \in 1..Len(g.names) : i # k /\ g.names[i] = g.names[k]
  \/ \E i \in 1..Len(g.names), k \in 1..Len(g.conds) : g.names[i] = g.conds[k].num
  \/ \E i \in 1..Len(g.conds) : \E k \in 1..Len(g.conds[i].conds) :
        g.conds[i].conds[k].arg \notin 0..5 \/ g.conds[i].conds[k].op \notin OpSet
HasDefect(pol) ==
  \/ pol.def \notin NamedActions
  \/ pol.groups = <<>>
  \/ \E i \in 1..Len(pol.groups) : GroupDefect(pol.groups[i])
\* the statement's carve-out: conditional entries each carry >= 1 condition
EveryEntryHasCondition(pol) ==
  \A i \in 1..Len(pol.groups) : \A k \in 1..Len(pol.groups[i].conds) :
     pol.groups[i].conds[k].conds # <<>>

(* C05: allowed return values                                              *)
AllowedRets(pol) ==
  {EncAct(pol.def)} \cup {EncAct(pol.groups[i].act) : i \in 1..Len(pol.groups)}
  \cup (IF pol.x86 THEN {"errno|ENOSYS"} ELSE {})
=============================================================================
