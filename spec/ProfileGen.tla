----------------------------- MODULE ProfileGen -----------------------------
(* Exports the disjoint cases of Profile.tla with the reference result     *)
(* (sorting is left to the harness: TLA+ strings have no order).           *)
EXTENDS Profile, Json
CONSTANT OutFile
Out == SetToSeq({[found |-> c.found, bl |-> SetToSeq(c.bl), al |-> SetToSeq(c.al),
                  expect |-> SetToSeq(Reference(c.found, c.bl, c.al)),
                  code |-> SetToSeq(ProfileNames(c.found, c.bl, c.al))] : c \in {x \in Cases : Disjoint(x)}})
ASSUME JsonSerialize(OutFile, Out)
ASSUME AlgebraOK
ASSUME OutputIsTheProfile
=============================================================================
