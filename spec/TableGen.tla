------------------------------ MODULE TableGen ------------------------------
(***************************************************************************)
(* arch/mk_syscalls_linux.go: the program that generates arch/zsyscalls.go *)
(* (the five number -> name tables, anchor of C12) from a kernel source    *)
(* tree.  One builder per table:                                           *)
(*                                                                         *)
(*   buildX86_64  arch/x86/entry/syscalls/syscall_64.tbl, rows whose ABI   *)
(*                column is not "x32"                                      *)
(*   buildX32     the same file, rows whose ABI column is not "64"         *)
(*   build386     arch/x86/entry/syscalls/syscall_32.tbl, every row        *)
(*   buildARM     arch/arm/tools/syscall.tbl, rows whose ABI column is not *)
(*                "oabi", plus the private calls of asm/unistd.h           *)
(*                (#define __ARM_NR_x (__ARM_NR_BASE+n)) at 0x0f0000 + n   *)
(*   buildAARCH64 include/uapi/asm-generic/unistd.h: every                 *)
(*                #define __NR_x n / #define __NR3264_x n except the       *)
(*                sentinel __NR_syscalls and sync_file_range2              *)
(*                                                                         *)
(* A kernel tree is abstracted to the rows of these files.  The IDEAL      *)
(* tables are what the kernel's own scripts/syscalltbl.sh semantics give:  *)
(* an ABI's table holds the rows of the ABIs it accepts (x86_64: common +  *)
(* 64; x32: common + x32; ARM EABI: common + eabi).  For well-formed trees *)
(* (ABI column drawn from the file's alphabet) the builders' "not equal"   *)
(* filters coincide with the ideal - that is checked here - and the        *)
(* generated tables then satisfy C12's clauses: no name with two numbers,  *)
(* every number the ABI's own.                                             *)
(*                                                                         *)
(* Dev (behaviour that is NOT in the tree):                                *)
(*   "X64Filter"   the pinned commit: buildX32 dropped rows whose ABI      *)
(*                 column is "x64", a value the file never uses, so the    *)
(*                 x32 table also got every 64-only row (repaired by       *)
(*                 fix d93a6d9; 49 names had two numbers)                  *)
(* Named deviation that IS in the tree and is kept:                        *)
(*   the asm-generic header also defines __NR_arch_specific_syscall 244,   *)
(*   which is a range marker, not a call; the builder emits it as a table  *)
(*   entry (`PseudoEntries`).  No source lists it, so C12's agreement      *)
(*   clause does not speak about it.                                       *)
(***************************************************************************)
EXTENDS Integers, Sequences, FiniteSets, TLC
CONSTANT Dev

ArmBase == 983040                    \* 0x0f0000
Slots == 0..2
SlotName == [s \in Slots |-> <<"alpha", "beta", "gamma">>[s + 1]]
Row(nr, abi, name) == [nr |-> nr, abi |-> abi, name |-> name]

---------------------------------------------------------------------------
(* abstract kernel trees                                                   *)
\* syscall_64.tbl: every slot is absent or has one ABI; a 64-only slot may have an x32 twin of the same name at 512 + slot
\* (as rt_sigaction 13 / 512 in the real file)
Choice64 == [Slots -> {"absent", "common", "64", "x32"}]
Trees64 ==
  UNION {{ {Row(s, c[s], SlotName[s]) : s \in {t \in Slots : c[t] # "absent"}}
           \cup {Row(512 + s, "x32", SlotName[s]) : s \in tw} :
           tw \in SUBSET {t \in Slots : c[t] = "64"}} : c \in Choice64}
\* syscall_32.tbl: one ABI
Trees32 == {{Row(s, "i386", SlotName[s]) : s \in S} : S \in SUBSET Slots}
\* arm syscall.tbl + private calls; an oabi-only slot may have an eabi twin under another number (as in the real file:
\* e.g. `sync_file_range2` / `arm_sync_file_range`); the twin carries its own name
ChoiceArm == [Slots -> {"absent", "common", "oabi", "eabi"}]
Priv == {[n |-> 1, name |-> "breakpoint"], [n |-> 2, name |-> "cacheflush"]}
TreesArm ==
  {[rows |-> {Row(s, c[s], SlotName[s]) : s \in {t \in Slots : c[t] # "absent"}}, priv |-> p] : c \in ChoiceArm, p \in SUBSET Priv}
\* asm-generic unistd.h: #define lines; kind "nr" / "nr3264"; the sentinel is always there; sync_file_range2 may share a number
ChoiceGen == [Slots -> {"absent", "nr", "nr3264"}]
TreesGen ==
  {[defs |-> {[nr |-> 60 + s, kind |-> c[s], name |-> SlotName[s]] : s \in {t \in Slots : c[t] # "absent"}}
             \cup {[nr |-> 451, kind |-> "nr", name |-> "syscalls"]}
             \cup (IF sfr THEN {[nr |-> 84, kind |-> "nr", name |-> "sync_file_range2"], [nr |-> 84, kind |-> "nr", name |-> "sync_file_range"]} ELSE {})
             \cup (IF pseudo THEN {[nr |-> 244, kind |-> "nr", name |-> "arch_specific_syscall"]} ELSE {})]
     : c \in ChoiceGen, sfr \in BOOLEAN, pseudo \in BOOLEAN}

---------------------------------------------------------------------------
(* the builders (code shaped): sets of <<number, name>>                    *)
Pairs(rows) == {<<r.nr, r.name>> : r \in rows}
BuildX86_64(t) == Pairs({r \in t : r.abi # "x32"})
BuildX32(t) == LET drop == IF "X64Filter" \in Dev THEN "x64" ELSE "64" IN Pairs({r \in t : r.abi # drop})
Build386(t) == Pairs(t)
BuildARM(t) == Pairs({r \in t.rows : r.abi # "oabi"}) \cup {<<ArmBase + p.n, p.name>> : p \in t.priv}
BuildAARCH64(t) == {<<d.nr, d.name>> : d \in {x \in t.defs : x.name \notin {"syscalls", "sync_file_range2"}}}

(* the ideal tables: the rows of the ABIs the table's ABI accepts          *)
IdealX86_64(t) == Pairs({r \in t : r.abi \in {"common", "64"}})
IdealX32(t) == Pairs({r \in t : r.abi \in {"common", "x32"}})
IdealARM(t) == Pairs({r \in t.rows : r.abi \in {"common", "eabi"}}) \cup {<<ArmBase + p.n, p.name>> : p \in t.priv}
PseudoEntries == {"arch_specific_syscall"}
IdealAARCH64(t) == {<<d.nr, d.name>> : d \in {x \in t.defs : x.name \notin {"syscalls", "sync_file_range2"}}}

\* C12's clauses on a generated table
Unambiguous(tab) == \A a, b \in tab : (a[2] = b[2] => a[1] = b[1]) /\ (a[1] = b[1] => a[2] = b[2])

BuildersIdeal ==
  /\ \A t \in Trees64 : BuildX86_64(t) = IdealX86_64(t) /\ BuildX32(t) = IdealX32(t)
  /\ \A t \in TreesArm : BuildARM(t) = IdealARM(t)
  /\ \A t \in TreesGen : BuildAARCH64(t) = IdealAARCH64(t)
GeneratedUnambiguous ==
  /\ \A t \in Trees64 : Unambiguous(BuildX86_64(t)) /\ Unambiguous(BuildX32(t))
  /\ \A t \in Trees32 : Unambiguous(Build386(t))
  /\ \A t \in TreesArm : Unambiguous(BuildARM(t))
  /\ \A t \in TreesGen : Unambiguous(BuildAARCH64(t))
\* the two x86 tables of one tree share exactly the common rows
SharedIsCommon == \A t \in Trees64 : BuildX86_64(t) \cap BuildX32(t) = Pairs({r \in t : r.abi = "common"})
=============================================================================
