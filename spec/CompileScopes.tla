--------------------------- MODULE CompileScopes ---------------------------
(***************************************************************************)
(* The finite policy and event spaces ("scopes") explored for C01-C05 and  *)
(* C07.  A scope is a set of groups GroupSet(s), a maximal number of       *)
(* groups, the defaults / targets it varies, and a sequence of events.     *)
(* Shared by CompileMC (exhaustive check of the compiler model) and        *)
(* CompileGen (export of the same policies with the reference decisions    *)
(* for replay on the real compiler).                                       *)
(***************************************************************************)
EXTENDS Compile, SequencesExt
CONSTANT Scope

Mk(def, x86, gs) == [def |-> def, x86 |-> x86, groups |-> gs]
Sys == 0..(NSys - 1)
\* ordered duplicate-free name lists of length 0..2
NameLists(S) == {<<>>} \cup {<<a>> : a \in S} \cup {s \in S \X S : s[1] # s[2]}
Vals == 0..(B*B - 1)

---------------------------------------------------------------------------
(* condition alphabets (W = 1: values 0..3, words 0..1)                    *)
Ops4 == {"Equal", "GreaterThan", "BitsSet", "NotEqual"}
CondSet == [arg : {0, 1}, op : Ops4, val : {1, 2}]
Singles == {<<c>> : c \in CondSet}
ListSet == Singles \cup
           {<<c, d>> : c \in {x \in CondSet : x.arg = 0},
                       d \in {x \in CondSet : x.arg = 1 /\ x.op \in {"Equal", "BitsSet"}}}
SmallConds == [arg : {0, 1}, op : {"Equal", "GreaterThan"}, val : {1, 2}]
AllOpConds == [arg : {0}, op : OpSet, val : {1, 2}]

Entry(n, l) == [num |-> n, conds |-> l]

GroupSet(s) ==
  CASE s \in {"groups", "groups2"} ->     \* C01: names only
         [names : NameLists(Sys), conds : {<<>>}, act : {"allow", "errno", "kill_process"}]
    [] s = "actions" ->    \* C01: every action constant
         [names : {<<0>>}, conds : {<<>>},
          act : NamedActions \cup {"user_notif", "unnamed"} \cup DataActions]
    [] s = "kactions" ->   \* every action constant on the running kernel (C08): one or two groups, a permissive default
         [names : {<<0>>, <<1>>}, conds : {<<>>},
          act : NamedActions \cup {"user_notif", "unnamed"} \cup DataActions]
    [] s = "rich" ->       \* C03 (i): one rich conditional entry among other entries
         [names : NameLists(Sys),
          conds : {<<>>} \cup {<<Entry(n, l)>> : n \in Sys, l \in ListSet}
                  \cup {<<Entry(0, l), Entry(1, m)>> : l \in ListSet, m \in Singles},
          act : {"errno"}]
    [] s = "merge" ->      \* C03: same-name entries merged into one OR-list
         [names : {<<>>, <<1>>},
          conds : {<<Entry(0, l), Entry(0, m)>> : l \in Singles, m \in Singles}
                  \cup {<<Entry(0, l), Entry(1, k), Entry(0, m)>> :
                          l \in {<<c>> : c \in SmallConds}, m \in {<<c>> : c \in SmallConds},
                          k \in {<<c>> : c \in SmallConds}},
          act : {"errno"}]
    [] s = "many" ->       \* C03 (ii)/(iii): several groups, same syscall in several
         [names : {<<>>, <<0>>, <<1>>},
          conds : {<<>>} \cup {<<Entry(n, <<c>>)>> : n \in Sys, c \in SmallConds},
          act : {"errno", "kill_process"}]
    [] s = "manywide" ->
         [names : NameLists(Sys),
          conds : {<<>>} \cup {<<Entry(n, <<c>>)>> : n \in Sys, c \in CondSet},
          act : {"errno", "kill_process"}]
    [] s = "allops" ->     \* every operation next to an unconditional entry
         [names : {<<>>, <<1>>},
          conds : {<<Entry(0, <<c>>)>> : c \in AllOpConds}
                  \cup {<<Entry(0, <<c, d>>)>> : c \in AllOpConds, d \in [arg : {1}, op : {"Equal"}, val : {1}]},
          act : {"errno", "trap"}]
    [] s = "subsume" ->    \* C03: the same syscall with conditions in two groups, where one group's list is a part of the other's
                           \* (a stricter and a more general rule for one syscall, in either order)
         LET c1 == [arg |-> 0, op |-> "Equal", val |-> 1]
             c2 == [arg |-> 0, op |-> "GreaterThan", val |-> 1]
             d1 == [arg |-> 1, op |-> "Equal", val |-> 1]
             d2 == [arg |-> 1, op |-> "BitsSet", val |-> 2]
             ls == {<<c1>>, <<c2>>, <<d1>>, <<d2>>, <<c1, d1>>, <<c1, d2>>, <<c2, d1>>, <<d1, c1>>, <<c2, d2>>} IN
         [names : {<<>>},
          conds : {<<Entry(0, l)>> : l \in ls} \cup {<<Entry(0, l), Entry(0, m)>> : l \in {<<c1, d1>>, <<c2>>}, m \in {<<d2>>, <<c1>>}},
          act : {"errno", "trap"}]
    [] s = "mergeops" ->   \* C02 / C03: two single-condition entries of one syscall on the same argument (alternatives), every pair of operations
         [names : {<<>>, <<1>>},
          conds : {<<Entry(0, <<c>>), Entry(0, <<d>>)>> : c \in [arg : {0}, op : OpSet, val : {1, 2}], d \in [arg : {0}, op : OpSet, val : {0, 1, 2, 3}]}
                  \* ... one of the two alternatives holds for every argument value (>= 0, no bit of 0 set), in front of or behind the other
                  \cup {<<Entry(0, <<c>>), Entry(0, <<d>>)>> : c \in [arg : {0, 1}, op : {"GreaterOrEqual", "BitsNotSet"}, val : {0}], d \in [arg : {0}, op : OpSet, val : {1, 2}]}
                  \cup {<<Entry(0, <<c>>), Entry(1, <<e>>), Entry(0, <<d>>)>> : c \in [arg : {0}, op : {"GreaterOrEqual", "BitsNotSet"}, val : {0}],
                                                                               e \in [arg : {0}, op : {"Equal"}, val : {1}], d \in [arg : {1}, op : {"Equal", "BitsSet"}, val : {1, 2}]},
          act : {"errno"}]
    [] s = "eqruns" ->     \* C03: one syscall with three or four alternatives, each a single Equal test - on alternating arguments, with operands
                           \* whose high words differ (0..3 at W = 1: high word 0 or 1), with another operation between them
         LET E == [arg : {0, 1}, op : {"Equal"}, val : {0, 1, 2, 3}]
             E2 == [arg : {0, 1}, op : {"Equal"}, val : {1, 2}]
             G == {[arg |-> 0, op |-> "GreaterThan", val |-> 1], [arg |-> 1, op |-> "BitsSet", val |-> 2]} IN
         [names : {<<>>},
          conds : {<<Entry(0, <<a>>), Entry(0, <<b>>), Entry(0, <<c>>)>> : a \in E, b \in E, c \in E}
                  \cup {<<Entry(0, <<a>>), Entry(0, <<g>>), Entry(0, <<b>>), Entry(0, <<c>>)>> : a \in E2, b \in E2, c \in E2, g \in G}
                  \cup {<<Entry(0, <<a>>), Entry(0, <<b>>), Entry(0, <<c>>), Entry(0, <<d>>)>> : a \in E2, b \in E2, c \in E2, d \in E2},
          act : {"errno"}]
    [] s = "pairs" ->      \* C03: AND of two conditions on the SAME argument, every pair of operations and operands (0 and the
                           \* largest value included: conditions that hold for every argument, or for none)
         [names : {<<>>},
          conds : {<<Entry(0, <<c, d>>)>> : c \in [arg : {0}, op : OpSet, val : {0, 1, 2, 3}], d \in [arg : {0}, op : OpSet, val : {0, 1, 2, 3}]}
                  \cup {<<Entry(0, <<c>>)>> : c \in [arg : {0, 1}, op : OpSet, val : {0, 3}]}
                  \* the same condition written twice in a list, with other conditions between, before or behind the two
                  \cup UNION {{<<Entry(0, <<c, d, c>>)>>, <<Entry(0, <<c, d, e, c>>)>>, <<Entry(0, <<d, c, c>>)>>, <<Entry(0, <<c, c, d>>)>>, <<Entry(0, <<c, d, c, e>>)>>} :
                                c \in [arg : {0}, op : {"Equal", "GreaterThan", "BitsSet"}, val : {1}],
                                d \in [arg : {1}, op : {"Equal", "BitsSet"}, val : {1, 2}],
                                e \in [arg : {1}, op : {"NotEqual"}, val : {3}]}
                  \cup {<<Entry(0, <<c, e, d>>)>> : c \in [arg : {0}, op : {"BitsSet", "BitsNotSet", "Equal"}, val : {1}], e \in [arg : {1}, op : {"Equal"}, val : {1}],
                                                      d \in [arg : {0}, op : {"BitsSet", "BitsNotSet", "NotEqual"}, val : {2}]},
          act : {"errno"}]
    [] s = "single" ->     \* C02: one condition, every operation, operand and position
         [names : {<<>>},
          conds : {<<Entry(0, <<c>>)>> : c \in [arg : {0, 5}, op : OpSet, val : Vals]},
          act : {"errno"}]
    [] s = "boundary" ->   \* C02 at W = 15: halves on the word boundaries
         LET H == {0, 1, 2^(W-1) - 1, 2^(W-1), 2^W - 2, 2^W - 1}
             V == {h * B + l : h \in H, l \in H} IN
         [names : {<<>>},
          conds : {<<Entry(0, <<c>>)>> : c \in [arg : {0}, op : OpSet, val : V]},
          act : {"errno"}]

MaxGroups(s) ==
  CASE s \in {"groups"} -> 3
    [] s \in {"groups2"} -> 2
    [] s \in {"many", "manywide", "subsume", "kactions"} -> 2
    [] OTHER -> 1
Defaults(s) ==
  CASE s = "actions" -> NamedActions
    [] s \in {"groups", "groups2"} -> {"allow", "errno"}
    [] s = "kactions" -> {"allow", "log"}
    [] OTHER -> {"allow"}
Targets(s) ==   \* values of pol.x86
  \* FALSE: the policy is compiled for an architecture other than x86_64 (the replay rotates i386, arm, aarch64: the two 32-bit
  \* architectures compare the full 64 bits of an argument like the others)
  CASE s \in {"groups", "groups2", "actions", "many", "manywide", "defects", "single", "boundary", "allops", "deep", "mergeops"} -> {TRUE, FALSE}
    [] OTHER -> {TRUE}

---------------------------------------------------------------------------
(* events                                                                  *)
NrMax == 2 * X32Bit - 1
Args2 == [{0, 1} -> Vals]
NoArgs == [a \in {0} |-> 0]
Ev(ar, nr, args) == [arch |-> ar, nr |-> nr, args |-> args]

---------------------------------------------------------------------------
(* C07: every listed defect injected at every position of valid policies.  *)
DC1 == [arg |-> 0, op |-> "Equal", val |-> 1]
DC2 == [arg |-> 1, op |-> "BitsSet", val |-> 2]
DB1 == [names |-> <<0, 1>>, conds |-> <<Entry(2, <<DC1, DC2>>)>>, act |-> "errno"]
DB2 == [names |-> <<2>>, conds |-> <<Entry(0, <<DC1>>), Entry(1, <<DC2>>), Entry(0, <<DC2>>)>>, act |-> "kill_process"]
DB3 == [names |-> <<>>, conds |-> <<Entry(1, <<DC2, DC1>>)>>, act |-> "trap"]
BasePolicies(dummy) == {Mk("allow", x, gs) : x \in {TRUE, FALSE},
                 gs \in {<<DB1>>, <<DB2>>, <<DB3>>, <<DB1, DB2>>, <<DB2, DB1>>, <<DB3, DB1>>}}
BigArg == 2147483647
BadOps == {"Foo", "equal", "", "EQUAL", "Equal ", "BitsSetX"}
InsertSeq(q, k, x) == SubSeq(q, 1, k - 1) \o <<x>> \o SubSeq(q, k, Len(q))
\* all single-defect variants of p
Inject(p) ==
  {[p EXCEPT !.def = d] : d \in {"user_notif", "unnamed"}}
  \cup {[p EXCEPT !.groups = <<>>]}
  \cup UNION {
       {[p EXCEPT !.groups[g].names[k] = Unknown] : k \in 1..Len(p.groups[g].names)}
       \cup {[p EXCEPT !.groups[g].names = InsertSeq(@, at, p.groups[g].names[k])] :
               k \in 1..Len(p.groups[g].names), at \in 1..(Len(p.groups[g].names) + 1)}
       \cup {[p EXCEPT !.groups[g].conds[e].num = Unknown] : e \in 1..Len(p.groups[g].conds)}
       \cup {[p EXCEPT !.groups[g].names = InsertSeq(@, at, p.groups[g].conds[e].num)] :
               e \in 1..Len(p.groups[g].conds), at \in 1..(Len(p.groups[g].names) + 1)}
       \* ... the same two defects in an entry that carries NO condition (a nil / empty list: such an entry is outside what the statement
       \* obliges the compiler to accept, but a defect in it is a defect)
       \cup {[p EXCEPT !.groups[g].conds = InsertSeq(@, at, Entry(Unknown, <<>>))] : at \in 1..(Len(p.groups[g].conds) + 1)}
       \cup {[p EXCEPT !.groups[g].conds = InsertSeq(@, at, Entry(p.groups[g].names[k], <<>>))] :
               k \in 1..Len(p.groups[g].names), at \in 1..(Len(p.groups[g].conds) + 1)}
       \cup {[p EXCEPT !.groups[g].conds[e] = Entry(Unknown, <<>>)] : e \in 1..Len(p.groups[g].conds)}
       \cup UNION {
            {[p EXCEPT !.groups[g].conds[e].conds[c].arg = a] :
               \* (an index is a 32-bit unsigned number in the code; TLC's integers are 32-bit signed, so the upper half is written
               \* negative: -k stands for 2^32 - k.  2^29, 2^30, 2^31 + 1 ... are the values whose byte offset 8 * index wraps to 0..40)
               c \in 1..Len(p.groups[g].conds[e].conds), a \in {6, 7, BigArg, 536870912, 536870917, 1073741824, 1073741826, -2147483647, -2147483646, -2, -1}}
            \cup {[p EXCEPT !.groups[g].conds[e].conds[c].op = o] :
               c \in 1..Len(p.groups[g].conds[e].conds), o \in BadOps}
            : e \in 1..Len(p.groups[g].conds)}
       : g \in 1..Len(p.groups)}
Defective1(dummy) == UNION {Inject(p) : p \in BasePolicies(0)}
Defective2(dummy) == UNION {Inject(p) : p \in {q \in Defective1(0) : q.groups # <<>>}}


---------------------------------------------------------------------------
(* Real-scale scopes (MaxSkip = 255, NSys ~ 300, W = 8): sizes chosen so   *)
(* that the distances of the architecture jump, of `action`, `nextSyscall` *)
(* and `noMatch` jumps land on 253..258, and whole-table lists.            *)
IdxRange(a, b) == [i \in 1..(b - a + 1) |-> a + i - 1]
LongSizes == {1, 2, 126, 127, 128, 250, 251, 252, 253, 254, 255, 256, 257, 258, NSys}
LG(names, act) == [names |-> names, conds |-> <<>>, act |-> act]
\* k lists of c Equal-conditions: list j constrains argument i-1 to j+i
EqLists(k, c) == [j \in 1..k |-> [i \in 1..c |-> [arg |-> i - 1, op |-> "Equal", val |-> j + i]]]
KC == {<<1, 1>>, <<2, 1>>, <<62, 1>>, <<63, 1>>, <<64, 1>>, <<65, 1>>, <<21, 3>>, <<32, 2>>, <<31, 2>>,
       <<11, 6>>, <<10, 6>>, <<16, 4>>, <<13, 5>>, <<127, 1>>, <<128, 1>>}
LongPolicies(s) ==
  CASE s = "long1" ->
         {Mk(d, x, <<LG(IdxRange(0, n - 1), a)>>) :
            d \in {"allow", "kill_process", "errno"}, x \in {TRUE, FALSE}, n \in LongSizes, a \in {"errno", "allow"}}
    [] s = "long2" ->
         LET G1(n) == LG(IdxRange(0, n - 1), "errno")
             G2(m) == LG(IdxRange(m, NSys - 1), "kill_process")
             G3 == LG(IdxRange(0, NSys - 1), "trap")
             E  == LG(<<>>, "log") IN
         UNION {{Mk("allow", x, <<G1(n), G2(m)>>), Mk("errno", x, <<G2(m), G1(n)>>),
                 Mk("allow", x, <<G1(n), E, G2(m), G3>>)} :
                 x \in {TRUE, FALSE}, n \in {1, 128, 254, 255, 256}, m \in {0, 127, 253, 254, 255, 256}}
    [] s \in {"longconds", "klong"} ->
         {Mk("allow", x,
             << [names |-> IdxRange(0, n - 1),
                 conds |-> <<Entry(NSys - 2, EqLists(kc[1], kc[2])[1])>> \o
                           [j \in 1..(kc[1] - 1) |-> Entry(NSys - 2, EqLists(kc[1], kc[2])[j + 1])] \o
                           <<Entry(NSys - 1, <<[arg |-> 5, op |-> "GreaterThan", val |-> 7]>>)>>,
                 act |-> "errno"],
                LG(<<NSys - 3, NSys - 2>>, "kill_process") >>) :
            x \in (IF s = "klong" THEN {TRUE} ELSE {TRUE, FALSE}),
            n \in (IF s = "klong" THEN {0, 1, NSys - 3} ELSE {0, 1, 200}), kc \in KC}
LongArgs(j) == [a \in 0..5 |-> j + a + 1]
LongEvents(s) ==
  LET Nrs == {0, 1, 2, 125, 126, 127, 128, 129, 249, 250, 251, 252, 253, 254, 255, 256, 257, 258,
              NSys - 3, NSys - 2, NSys - 1, NSys, X32Bit, X32Bit + 1, X32Bit + 255, X32Bit + NSys - 1} IN
  IF s \in {"long1", "long2"}
  THEN SetToSeq({Ev(ar, nr, NoArgs) : ar \in {"own", "other"}, nr \in Nrs})
  ELSE LET Js == {1, 2, 10, 11, 21, 31, 32, 62, 63, 64, 65, 127, 128, 129}
           AS == {LongArgs(j) : j \in Js}
                 \cup {[LongArgs(j) EXCEPT ![p] = 0] : j \in Js, p \in {0, 1, 2, 5}}
                 \cup {[LongArgs(j) EXCEPT ![5] = 300] : j \in {1, 64}} IN
       SetToSeq({Ev(ar, nr, a) : ar \in {"own", "other"}, nr \in ({0, 199, 200, NSys - 3, NSys - 2, NSys - 1, NSys, X32Bit + NSys - 2} \cap (0..(2 * X32Bit - 1))) , a \in AS})

\* many groups (C01): 1..10 single-name groups, names and actions rotating, every default
ChainActs == <<"errno", "allow", "kill_process", "trap", "log", "trace", "kill_thread">>
ChainPolicies ==
  {Mk(d, x, [k \in 1..n |-> [names |-> <<(k + r) % NSys>>, conds |-> <<>>, act |-> ChainActs[((k + r) % 7) + 1]]]) :
     d \in {"allow", "errno", "kill_process"}, x \in {TRUE, FALSE}, n \in 1..10, r \in 0..2}
\* deep entries (C03): up to three lists per syscall, up to three conditions per list, the same argument constrained twice
DC(a, o, v) == [arg |-> a, op |-> o, val |-> v]
DeepLists == {<<DC(0, "Equal", 1)>>, <<DC(0, "GreaterThan", 0), DC(0, "NotEqual", 1)>>, <<DC(1, "BitsSet", 1), DC(0, "Equal", 2), DC(1, "Equal", 1)>>,
              <<DC(0, "NotEqual", 1)>>, <<DC(1, "Equal", 1), DC(1, "GreaterThan", 0)>>, <<DC(0, "BitsSet", 2), DC(0, "LessThan", 3)>>}
DeepEntries == {<<Entry(0, l1)>> : l1 \in DeepLists}
               \cup {<<Entry(0, l1), Entry(0, l2)>> : l1 \in DeepLists, l2 \in DeepLists}
               \cup {<<Entry(0, l1), Entry(0, l2), Entry(0, l3)>> : l1 \in DeepLists, l2 \in DeepLists, l3 \in DeepLists}
DeepPolicies ==
  {Mk("allow", TRUE, << [names |-> ns, conds |-> es \o <<Entry(1, <<DC(0, "Equal", 2)>>)>>, act |-> "errno"],
                        [names |-> <<0>>, conds |-> <<>>, act |-> "kill_process"] >>) : ns \in {<<>>}, es \in DeepEntries}

\* defects at real scale (C07): a duplicate / unknown name / conditional twin far into a long list
LongDefectPolicies ==
  LET base(n) == IdxRange(0, n - 1) IN
  UNION {{Mk("allow", TRUE, <<LG(Append(base(n), 0), "errno")>>),                        \* duplicate of the first name at the end
          Mk("allow", TRUE, <<LG(Append(base(n), n - 1), "errno")>>),                    \* duplicate of the last name
          Mk("allow", TRUE, <<LG(<<n - 1>> \o base(n), "errno")>>),                      \* duplicate at the front
          Mk("allow", TRUE, <<LG(Append(base(n), Unknown), "errno")>>),                  \* unknown name at the end
          Mk("allow", FALSE, <<LG(base(n), "errno"), LG(Append(base(n), Unknown), "trap")>>),
          Mk("allow", TRUE, << [names |-> base(n), conds |-> <<Entry(n - 1, <<DC(0, "Equal", 1)>>)>>, act |-> "errno"] >>),   \* conditional twin of the last name
          Mk("allow", TRUE, << [names |-> base(n), conds |-> <<Entry(n, <<DC(6, "Equal", 1)>>)>>, act |-> "errno"] >>),       \* argument index 6 behind a long list
          Mk("allow", TRUE, <<LG(base(n), "errno")>>),                                   \* (valid controls)
          Mk("allow", TRUE, <<LG(base(n), "errno"), LG(base(n), "trap")>>)} : n \in {2, 255, 256, 257, 299}}
\* every operation at real scale (C03): list j constrains argument j % 6 with operation number j % 8 and operand j
OpLists(k) == [j \in 1..k |-> <<[arg |-> j % 6, op |-> Ops[(j % 8) + 1], val |-> j]>>]
LongOpsPolicies ==
  {Mk("allow", x, << [names |-> <<0>>, conds |-> [j \in 1..k |-> Entry(NSys - 2, OpLists(k)[j])] \o <<Entry(NSys - 1, <<DC(5, "GreaterThan", 7)>>)>>, act |-> "errno"],
                     LG(<<NSys - 3, NSys - 2>>, "kill_process") >>) : x \in {TRUE, FALSE}, k \in {8, 60, 64, 127, 128}}

\* one long list (C03: "any conditions per list"; C06: the meaning does not depend on the size): a list of c conditions (4 instructions
\* each, so 64 and more make the list's own `noMatch` distance exceed 255) next to short lists of the same syscall, in every order;
\* the conditional group is the LAST one, so that the instructions in front of the default return are argument checks
NeList(c, base) == [i \in 1..c |-> [arg |-> i % 6, op |-> "NotEqual", val |-> base + i]]
LongListShapes(c) ==
  LET s1 == <<DC(0, "Equal", 1)>>
      s2 == <<DC(1, "Equal", 2), DC(0, "GreaterThan", 250)>> IN
  {<<s1, NeList(c, 100)>>, <<NeList(c, 100), s1>>, <<s1, NeList(c, 100), s2>>, <<s1, s2, NeList(c, 100)>>, <<NeList(c, 100), NeList(c, 50)>>, <<NeList(c, 100)>>}
\* "shortlist" is the same family at small sizes (no program above 255 instructions): C06 compares the two
LongListPolicies(ns, cs) ==
  UNION {{Mk(d, TRUE, << LG(IdxRange(0, n - 1), "kill_process"),
                         [names |-> <<>>, conds |-> [j \in 1..Len(sh) |-> Entry(NSys - 2, sh[j])] \o <<Entry(NSys - 1, <<DC(5, o, 7)>>)>>, act |-> "errno"] >>) :
            n \in ns, sh \in LongListShapes(c), o \in {"NotEqual", "Equal"}, d \in {"allow", "errno"}} : c \in cs}

\* unconditional names and conditional entries in ONE group (C03), the conditional syscalls numbered below and above all the names
\* of their group (in the identity concretisation): n names 10..10+n-1, entries for 3 and NSys-2, a later group repeating them
MixLists == {<<DC(0, "Equal", 1)>>, <<DC(1, "Equal", 2), DC(0, "GreaterThan", 0)>>}
MixPolicies ==
  {Mk(d, x, << [names |-> IdxRange(10, 10 + n - 1),
                conds |-> IF sw THEN <<Entry(3, l1), Entry(NSys - 2, l2)>> ELSE <<Entry(NSys - 2, l2), Entry(3, l1)>>,
                act |-> "errno"],
               LG(<<3, NSys - 2, 10>>, "trap") >>) :
     d \in {"allow", "kill_process"}, x \in {TRUE, FALSE}, n \in {1, 7, 8, 9, 16, 64}, l1 \in MixLists, l2 \in MixLists, sw \in BOOLEAN}

\* one list of 129..300 conditions of five to six instructions each (its own no-match distance is a multiple of the jump limit:
\* bridges behind bridges), satisfiable: every argument must be >= 1, <= 900, > 0, < 1000 and differ from some values above 100
HugeOps == <<"NotEqual", "GreaterOrEqual", "LessOrEqual", "NotEqual", "GreaterThan", "LessThan">>
HugeVal(j) == CASE HugeOps[(j % 6) + 1] = "NotEqual" -> 100 + j
                [] HugeOps[(j % 6) + 1] = "GreaterOrEqual" -> 1
                [] HugeOps[(j % 6) + 1] = "LessOrEqual" -> 900
                [] HugeOps[(j % 6) + 1] = "GreaterThan" -> 0
                [] OTHER -> 1000
HugeList(c) == [j \in 1..c |-> [arg |-> (j \div 6) % 6, op |-> HugeOps[(j % 6) + 1], val |-> HugeVal(j)]]
HugeListPolicies ==
  UNION {{Mk(d, TRUE, << LG(IdxRange(0, n - 1), "kill_process"),
                         [names |-> <<>>, conds |-> [j \in 1..Len(sh) |-> Entry(NSys - 2, sh[j])] \o <<Entry(NSys - 1, <<DC(5, "Equal", 7)>>)>>, act |-> "errno"] >>) :
            n \in {0, 3}, sh \in {<<HugeList(c)>>, <<<<DC(0, "Equal", 2000)>>, HugeList(c)>>, <<HugeList(c), <<DC(1, "Equal", 2000)>>>>}, d \in {"allow", "errno"}} : c \in {129, 160, 200, 300}}

\* a single-condition entry in company (C02: it matches exactly when its relation holds, wherever it stands): in a second group behind a
\* group whose conditional entry for the SAME syscall tests the other argument (= 1: false for the events of scope single unless v = 1),
\* and in a first group in front of such a group
GuardedPolicies ==
  UNION {LET g == [names |-> <<>>, conds |-> <<Entry(0, <<[arg |-> (IF c.arg = 0 THEN 5 ELSE 0), op |-> "Equal", val |-> 1]>>)>>, act |-> "kill_process"]
             t == [names |-> <<>>, conds |-> <<Entry(0, <<c>>)>>, act |-> "errno"] IN
         {Mk("allow", x, <<g, t>>), Mk("allow", x, <<t, g>>)} : x \in {TRUE, FALSE}, c \in [arg : {0, 5}, op : OpSet, val : Vals]}

\* the kernel's limit (C07: every defect-free policy that fits 4096 instructions is accepted): 993 single-condition lists
\* for one syscall (4 instructions each) in one group plus n names in a second group put the program size at 4090..4101
LimitPolicies ==
  {Mk("allow", x, << [names |-> <<>>, conds |-> [j \in 1..993 |-> Entry(NSys - 1, EqLists(993, 1)[j])], act |-> "errno"],
                     LG(IdxRange(0, n - 1), "kill_process") >>) : x \in {TRUE}, n \in 90..101}

Explicit(s) == s \in {"defects", "defects2", "long1", "long2", "longconds", "klong", "chain", "deep", "limit", "longdefects", "longops", "longlist", "shortlist", "mixgroup", "hugelist", "guarded"}
ExplicitPolicies(s) ==
  CASE s = "defects" -> BasePolicies(0) \cup Defective1(0)
    [] s = "defects2" -> BasePolicies(0) \cup Defective1(0) \cup Defective2(0)
    [] s \in {"long1", "long2", "longconds", "klong"} -> LongPolicies(s)
    [] s = "chain" -> ChainPolicies
    [] s = "limit" -> LimitPolicies
    [] s = "longdefects" -> LongDefectPolicies
    [] s = "longops" -> LongOpsPolicies
    [] s = "longlist" -> LongListPolicies({0, 200}, {63, 64, 65, 128})
    [] s = "shortlist" -> LongListPolicies({0, 3}, {1, 2, 3, 7})
    [] s = "deep" -> DeepPolicies
    [] s = "mixgroup" -> MixPolicies
    [] s = "hugelist" -> HugeListPolicies
    [] s = "guarded" -> GuardedPolicies

---------------------------------------------------------------------------
\* SetToSeq fixes one order; it is exported with the cases
EventSeq(s) ==
  CASE s \in {"groups", "actions"} ->
         SetToSeq({Ev(ar, nr, NoArgs) : ar \in {"own", "other"}, nr \in 0..NrMax})
    [] s \in {"groups2", "chain", "kactions"} ->
         SetToSeq({Ev(ar, nr, NoArgs) : ar \in {"own", "other"}, nr \in 0..NrMax})
    [] s \in {"rich", "merge", "many", "manywide", "allops", "defects", "defects2", "deep", "pairs", "mergeops", "subsume", "eqruns"} ->
         SetToSeq({Ev(ar, nr, a) : ar \in {"own", "other"},
                                   nr \in Sys \cup {NSys, X32Bit, X32Bit + 1}, a \in Args2})
    [] s \in {"long1", "long2", "longconds", "klong"} -> LongEvents(s)
    [] s = "longdefects" -> LongEvents("long1")
    [] s = "longops" ->
         SetToSeq({Ev(ar, nr, [a \in 0..5 |-> v]) : ar \in {"own", "other"}, nr \in {0, NSys - 3, NSys - 2, NSys - 1, NSys, X32Bit + NSys - 2},
                                                  v \in {0, 1, 7, 8, 59, 60, 63, 64, 65, 127, 128, 129, 200, 255, 256, 65535}})
    [] s \in {"longlist", "shortlist"} ->
         \* all six arguments equal to v; v = 1 satisfies the first short list, 2 none of the short ones, 101..228 break the long list at one place
         SetToSeq({Ev(ar, nr, [a \in 0..5 |-> v]) : ar \in {"own", "other"}, nr \in {0, NSys - 2, NSys - 1, NSys}, v \in {0, 1, 2, 7, 8, 51, 101, 106, 112, 163, 164, 165, 228, 251}}
                  \cup {Ev(ar, NSys - 2, [a \in 0..5 |-> IF a = 0 THEN 251 ELSE IF a = 1 THEN 2 ELSE v]) : ar \in {"own"}, v \in {0, 103, 200}})
    [] s = "hugelist" ->
         SetToSeq({Ev(ar, nr, [a \in 0..5 |-> v]) : ar \in {"own", "other"}, nr \in {0, NSys - 2, NSys - 1, NSys},
                                                  v \in {0, 1, 5, 7, 101, 104, 106, 160, 233, 300, 397, 401, 899, 900, 901, 999, 1000, 2000}}
                  \cup {Ev("own", NSys - 2, [a \in 0..5 |-> IF a = p THEN w ELSE 5]) : p \in 0..5, w \in {0, 901, 2000}})
    [] s = "mixgroup" ->
         SetToSeq({Ev(ar, nr, [a \in 0..5 |-> v]) : ar \in {"own", "other"}, nr \in {0, 3, 10, 16, 17, 18, 25, 73, 74, NSys - 2, NSys - 1, NSys, X32Bit + 3}, v \in {0, 1, 2}})
    [] s = "limit" ->
         SetToSeq({Ev(ar, nr, [a \in 0..5 |-> v]) : ar \in {"own", "other"}, nr \in {0, 89, 90, 95, 101, NSys - 1, NSys, X32Bit + 1}, v \in {0, 2, 500, 994, 995}})
    [] s \in {"single", "guarded"} ->
         SetToSeq({Ev("own", 0, [a \in {0, 5} |-> IF a = 0 THEN v ELSE w]) : v \in Vals, w \in {0, B*B - 1}}
                  \cup {Ev("own", 0, [a \in {0, 5} |-> IF a = 5 THEN v ELSE w]) : v \in Vals, w \in {0, B*B - 1}})
    [] s = "boundary" ->
         LET H == {0, 1, 2^(W-1) - 1, 2^(W-1), 2^W - 2, 2^W - 1} IN
         SetToSeq({Ev("own", 0, [a \in {0} |-> h * B + l]) : h \in H, l \in H})
=============================================================================
