------------------------------ MODULE ProfCache ------------------------------
(***************************************************************************)
(* cmd/seccomp-profiler/main.go doObjdump + hashBinary and the cache file  *)
(* (C17): two consecutive profiler runs on one binary, the first of which  *)
(* may be killed at any step or see its disassembler fail.                 *)
(*                                                                         *)
(* Disk                                                                    *)
(*   cache   the cache file: "absent" or [hash, body, ...]                 *)
(*           hash  : "cur" (hash of the binary as it is now) | "old"       *)
(*           body  : number of listing chunks in the file (0..NChunks)     *)
(*   tmp     the temporary file of a run in progress (same shape)          *)
(* Process (one run)                                                       *)
(*   pc      start | compare | create | hashline | dump | flush | close |  *)
(*           rename | use | done | failed | dead                           *)
(*   buf     what the buffered writer holds: [hash : BOOLEAN, chunks]      *)
(*   sent    chunks the disassembler has produced so far                   *)
(*   used    body length of the file the run finally parses (-1 = none)    *)
(* The disassembler produces NChunks chunks and may fail (tool missing, or *)
(* non-zero exit after any chunk); the buffered writer flushes whenever it *)
(* likes; Kill may strike between any two steps (the disk keeps what was   *)
(* flushed).  The binary may be rebuilt between the runs.                  *)
(*                                                                         *)
(* Dev = {"InPlaceCache"}: the pinned commit - the cache file itself was   *)
(* created and written in place, hash line first.                          *)
(***************************************************************************)
EXTENDS Integers, Sequences, FiniteSets, TLC
CONSTANTS NChunks, Dev

VARIABLES cache, tmp, pc, buf, sent, used, run, toolOK, failAt, rebuilt, fate
vars == <<cache, tmp, pc, buf, sent, used, run, toolOK, failAt, rebuilt, fate>>

Absent == [hash |-> "none", body |-> 0]
InPlace == "InPlaceCache" \in Dev
\* the file the writer of this run writes to
Target == IF InPlace THEN cache ELSE tmp

Init ==
  /\ cache = Absent /\ tmp = Absent
  /\ pc = "start" /\ buf = [hash |-> FALSE, chunks |-> 0] /\ sent = 0 /\ used = -1 /\ run = 1
  /\ toolOK \in BOOLEAN /\ failAt \in 0..(NChunks + 1)   \* NChunks + 1 = the tool succeeds
  /\ rebuilt \in BOOLEAN
  /\ fate = <<>>

Set(f) == IF InPlace THEN cache' = f /\ UNCHANGED tmp ELSE tmp' = f /\ UNCHANGED cache
KeepProc == UNCHANGED <<run, toolOK, failAt, rebuilt, fate>>

\* os.Open + read 64 bytes + compare with the hash of the binary
Compare ==
  /\ pc = "start"
  /\ IF cache.hash = "cur" THEN pc' = "use" /\ used' = cache.body ELSE pc' = "create" /\ UNCHANGED used
  /\ UNCHANGED <<cache, tmp, buf, sent>> /\ KeepProc
\* os.Create / os.CreateTemp: an empty file
Create ==
  /\ pc = "create"
  /\ Set([hash |-> "none", body |-> 0])
  /\ pc' = "hashline" /\ UNCHANGED <<buf, sent, used>> /\ KeepProc
\* out.WriteString(hash): goes to the buffer
HashLine ==
  /\ pc = "hashline"
  /\ buf' = [buf EXCEPT !.hash = TRUE]
  /\ pc' = "dump" /\ UNCHANGED <<cache, tmp, sent, used>> /\ KeepProc
\* the buffered writer writes out what it holds (any time while dumping)
Spill ==
  /\ pc \in {"dump", "flush"} /\ (buf.hash \/ buf.chunks > 0)
  /\ Set([hash |-> IF buf.hash THEN "cur" ELSE Target.hash, body |-> Target.body + buf.chunks])
  /\ buf' = [hash |-> FALSE, chunks |-> 0]
  /\ pc' = IF pc = "flush" THEN "close" ELSE pc
  /\ UNCHANGED <<sent, used>> /\ KeepProc
\* go tool objdump: missing tool, a chunk, a failure after some chunks, or a clean exit
Dump ==
  /\ pc = "dump"
  /\ \/ /\ ~toolOK /\ pc' = "failed" /\ UNCHANGED <<buf, sent>>
     \/ /\ toolOK /\ sent = failAt /\ pc' = "failed" /\ UNCHANGED <<buf, sent>>
     \/ /\ toolOK /\ sent # failAt /\ sent < NChunks
        /\ sent' = sent + 1 /\ buf' = [buf EXCEPT !.chunks = @ + 1] /\ UNCHANGED pc
     \/ /\ toolOK /\ sent = NChunks /\ failAt > NChunks
        /\ pc' = (IF buf.hash \/ buf.chunks > 0 THEN "flush" ELSE "close") /\ UNCHANGED <<buf, sent>>
  /\ UNCHANGED <<cache, tmp, used>> /\ KeepProc
\* pinned commit: the deferred Flush and Close also ran on the failure path
FailedCleanup ==
  /\ pc = "failed"
  /\ IF InPlace
     THEN /\ cache' = [hash |-> IF buf.hash THEN "cur" ELSE cache.hash, body |-> cache.body + buf.chunks] /\ UNCHANGED tmp
     ELSE /\ tmp' = Absent /\ UNCHANGED cache            \* os.Remove of the temporary file
  /\ pc' = "done" /\ used' = -1
  /\ buf' = [hash |-> FALSE, chunks |-> 0] /\ UNCHANGED sent /\ KeepProc
Close ==
  /\ pc = "close"
  /\ pc' = IF InPlace THEN "use" ELSE "rename"
  /\ used' = IF InPlace THEN cache.body ELSE used
  /\ UNCHANGED <<cache, tmp, buf, sent>> /\ KeepProc
Rename ==
  /\ pc = "rename"
  /\ cache' = tmp /\ tmp' = Absent
  /\ pc' = "use" /\ used' = tmp.body
  /\ UNCHANGED <<buf, sent>> /\ KeepProc
Use == /\ pc = "use" /\ pc' = "done" /\ UNCHANGED <<cache, tmp, buf, sent, used>> /\ KeepProc
\* SIGKILL between any two steps of the first run
Kill ==
  /\ run = 1 /\ pc \notin {"done", "dead"}
  /\ pc' = "dead" /\ used' = -1
  /\ fate' = Append(fate, pc)
  /\ UNCHANGED <<cache, tmp, buf, sent, run, toolOK, failAt, rebuilt>>
\* the next run: a normal one (tool present and succeeding); the binary may have been rebuilt
NextRun ==
  /\ run = 1 /\ pc \in {"done", "dead"}
  /\ run' = 2 /\ pc' = "start" /\ buf' = [hash |-> FALSE, chunks |-> 0] /\ sent' = 0 /\ used' = -1
  /\ toolOK' = TRUE /\ failAt' = NChunks + 1
  /\ cache' = IF rebuilt /\ cache.hash = "cur" THEN [cache EXCEPT !.hash = "old"] ELSE cache
  /\ fate' = Append(fate, IF pc = "dead" THEN "killed" ELSE IF used = -1 THEN "failed" ELSE "ok")
  /\ UNCHANGED <<tmp, rebuilt>>
Next == Compare \/ Create \/ HashLine \/ Spill \/ Dump \/ FailedCleanup \/ Close \/ Rename \/ Use \/ Kill \/ NextRun
Spec == Init /\ [][Next]_vars

\* C17: whatever happened to the first run, the second one parses a complete listing of
\* the current binary (or fails): never a profile with fewer syscalls
SecondRunSound == (run = 2 /\ pc = "done" /\ used # -1) => used = NChunks
\* a file that carries the current hash is complete
ValidMeansComplete == cache.hash = "cur" => cache.body = NChunks
\* a run that was not disturbed succeeds
UndisturbedSucceeds == (run = 2 /\ pc = "done") => used = NChunks
=============================================================================
