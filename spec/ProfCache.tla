------------------------------ MODULE ProfCache ------------------------------
(***************************************************************************)
(* cmd/seccomp-profiler/main.go doObjdump + hashBinary and the cache file  *)
(* (C17): two consecutive profiler runs on one binary, the first of which  *)
(* may be killed or interrupted by a catchable signal at any step, see its *)
(* disassembler fail, or have a write                                      *)
(* to the file fail part-way.                                              *)
(*                                                                         *)
(* Disk                                                                    *)
(*   cache   the cache file: [hash, body]                                  *)
(*           hash  : "none" | "cur" (hash of the binary as it is now) |    *)
(*                   "old"                                                 *)
(*           body  : number of listing chunks in the file (0..NChunks)     *)
(*   tmp     the temporary file of a run in progress (same shape)          *)
(* Process (one run)                                                       *)
(*   pc      start | create | hashline | dump | flush | close | rename |   *)
(*           lateflush | use | failed | done | dead                        *)
(*   buf     what the buffered writer holds: [hash : BOOLEAN, chunks]      *)
(*   sent    chunks the disassembler has produced so far                   *)
(*   used    body length of the file the run finally parses (-1 = none)    *)
(*   where   the name the writer's file currently has: "tmp" | "cache"     *)
(* The disassembler produces NChunks chunks and may fail (tool missing, or *)
(* non-zero exit after any chunk); the buffered writer writes out whenever *)
(* it likes, and a write may fail part-way (disk full, file size limit):   *)
(* a part of the buffered data reaches the file and the writer gets an     *)
(* error; Kill may strike between any two steps (the disk keeps what was   *)
(* written).  The binary may be rebuilt between the runs.                  *)
(*                                                                         *)
(* Dev (behaviours that are NOT in the tree; each breaks the property):    *)
(*   "InPlaceCache"      the pinned commit: the cache file itself was      *)
(*                       created and written in place, hash line first     *)
(*   "FlushAfterRename"  (a seeded change) the temporary file is renamed   *)
(*                       to the cache name before the final flush          *)
(*   "InPlaceFallback"   (a seeded change) when the temporary file cannot  *)
(*                       be created the cache file is written in place,    *)
(*                       removed again by a deferred clean-up unless the   *)
(*                       run completed - which a kill never executes       *)
(*   "ToolFailureIgnored" (a seeded change) a disassembler that dies from  *)
(*                       a signal is taken for one that finished           *)
(*   "ScanLeftovers"     (a seeded change) a run that finds no cache file  *)
(*                       under its own name also accepts any other file of *)
(*                       the cache directory that starts with the right    *)
(*                       hash line - such as the temporary file a killed   *)
(*                       run left behind                                   *)
(*   "SidecarHash"       (a seeded change) the hash is kept in a file of   *)
(*                       its own, written before the listing is complete:  *)
(*                       a disturbed run leaves the new hash next to the   *)
(*                       complete listing of an OLDER version of the binary*)
(*   "InterruptEndsDump" (a seeded change) a catchable signal (SIGINT,      *)
(*                       SIGTERM) stops the disassemblers and the listing  *)
(*                       written so far is flushed, closed and renamed as  *)
(*                       if the tool had finished                          *)
(* tempOK: whether a temporary file can be created next to the cache file  *)
(* (its name is longer than the cache file's: for binary names of 240 and  *)
(* more characters it exceeds NAME_MAX while the cache file's does not).   *)
(***************************************************************************)
EXTENDS Integers, Sequences, FiniteSets, TLC
CONSTANTS NChunks, Dev

VARIABLES cache, tmp, pc, buf, sent, used, run, toolOK, failAt, rebuilt, fate, where, tempOK
vars == <<cache, tmp, pc, buf, sent, used, run, toolOK, failAt, rebuilt, fate, where, tempOK>>

Absent == [hash |-> "none", body |-> 0]
InPlace == "InPlaceCache" \in Dev
EarlyRename == "FlushAfterRename" \in Dev
Empty == [hash |-> FALSE, chunks |-> 0]
HasData == buf.hash \/ buf.chunks > 0

\* the file the writer of this run writes to, and how to replace its content
Target == IF where = "cache" THEN cache ELSE tmp
Set(f) == IF where = "cache" THEN cache' = f /\ UNCHANGED tmp ELSE tmp' = f /\ UNCHANGED cache
Keep == UNCHANGED <<run, toolOK, failAt, rebuilt, fate, tempOK>>
Fallback == "InPlaceFallback" \in Dev /\ ~tempOK

\* what an undisturbed earlier run on an OLDER version of the binary (which makes fewer system calls: a one-chunk listing) left behind
OldComplete == [hash |-> "old", body |-> 1]
Init ==
  /\ cache \in {Absent, OldComplete} /\ tmp = Absent
  /\ pc = "start" /\ buf = Empty /\ sent = 0 /\ used = -1 /\ run = 1
  /\ toolOK \in BOOLEAN /\ failAt \in 0..(NChunks + 1)   \* NChunks + 1 = the tool succeeds
  /\ rebuilt \in BOOLEAN
  /\ fate = <<>> /\ where = IF InPlace THEN "cache" ELSE "tmp"
  /\ tempOK \in BOOLEAN

\* os.Open + read 64 bytes + compare with the hash of the binary
Compare ==
  /\ pc = "start"
  /\ IF cache.hash = "cur" THEN pc' = "use" /\ used' = cache.body
     ELSE IF "ScanLeftovers" \in Dev /\ tmp.hash = "cur" THEN pc' = "use" /\ used' = tmp.body
     ELSE pc' = "create" /\ UNCHANGED used
  /\ UNCHANGED <<cache, tmp, buf, sent, where>> /\ Keep
\* os.Create / os.CreateTemp: an empty file
Create ==
  /\ pc = "create"
  /\ IF "SidecarHash" \in Dev /\ tempOK
     THEN \* the hash record is a file of its own and is written first: the listing under the cache name now counts as the current binary's
          tmp' = Absent /\ cache' = [cache EXCEPT !.hash = "cur"] /\ pc' = "hashline" /\ UNCHANGED where
     ELSE IF InPlace \/ tempOK THEN Set(Absent) /\ pc' = "hashline" /\ UNCHANGED where
     ELSE IF Fallback THEN where' = "cache" /\ cache' = Absent /\ UNCHANGED tmp /\ pc' = "hashline"
     ELSE pc' = "failed" /\ UNCHANGED <<cache, tmp, where>>        \* os.CreateTemp fails: the run fails
  /\ UNCHANGED <<buf, sent, used>> /\ Keep
\* out.WriteString(hash): goes to the buffer
HashLine ==
  /\ pc = "hashline"
  /\ buf' = [buf EXCEPT !.hash = TRUE]
  /\ pc' = "dump" /\ UNCHANGED <<cache, tmp, sent, used, where>> /\ Keep
\* the buffered writer writes out what it holds (any time while dumping, and at the flush)
Written(k) == [hash |-> IF buf.hash THEN "cur" ELSE Target.hash, body |-> Target.body + k]
Spill ==
  /\ pc \in {"dump", "flush", "lateflush"} /\ HasData
  /\ Set(Written(buf.chunks))
  /\ buf' = Empty
  /\ pc' = CASE pc = "flush" -> "close" [] pc = "lateflush" -> "use" [] OTHER -> pc
  /\ used' = IF pc = "lateflush" THEN Written(buf.chunks).body ELSE used
  /\ UNCHANGED <<sent, where>> /\ Keep
\* ... or the write fails part-way: k of the buffered chunks (and the hash line, which comes first) reach the file
SpillFails ==
  /\ pc \in {"dump", "flush", "lateflush"} /\ HasData
  /\ \E k \in 0..buf.chunks : Set(Written(k))
  /\ buf' = Empty /\ pc' = "failed"
  /\ UNCHANGED <<sent, used, where>> /\ Keep
\* go tool objdump: missing tool, a chunk, a failure after some chunks, or a clean exit
Dump ==
  /\ pc = "dump"
  /\ \/ /\ ~toolOK /\ pc' = "failed" /\ UNCHANGED <<buf, sent>>
     \/ /\ toolOK /\ sent = failAt /\ "ToolFailureIgnored" \notin Dev /\ pc' = "failed" /\ UNCHANGED <<buf, sent>>
     \/ /\ toolOK /\ sent = failAt /\ "ToolFailureIgnored" \in Dev
        /\ pc' = (IF HasData THEN "flush" ELSE "close") /\ UNCHANGED <<buf, sent>>
     \/ /\ toolOK /\ sent # failAt /\ sent < NChunks
        /\ sent' = sent + 1 /\ buf' = [buf EXCEPT !.chunks = @ + 1] /\ UNCHANGED pc
     \/ /\ toolOK /\ sent = NChunks /\ failAt > NChunks
        /\ pc' = (IF EarlyRename THEN "rename" ELSE IF HasData THEN "flush" ELSE "close") /\ UNCHANGED <<buf, sent>>
  /\ UNCHANGED <<cache, tmp, used, where>> /\ Keep
\* the error path: the pinned commit's deferred Flush and Close ran here too; now the temporary file is removed
\* (a file that already carries the cache name stays)
FailedCleanup ==
  /\ pc = "failed"
  /\ IF where = "cache"
     THEN /\ cache' = (IF InPlace THEN Written(buf.chunks) ELSE IF Fallback THEN Absent ELSE cache) /\ UNCHANGED tmp
     ELSE /\ tmp' = Absent /\ UNCHANGED cache
  /\ pc' = "done" /\ used' = -1 /\ buf' = Empty
  /\ UNCHANGED <<sent, where>> /\ Keep
Close ==
  /\ pc = "close"
  /\ pc' = IF InPlace \/ where = "cache" THEN "use" ELSE "rename"
  /\ used' = IF InPlace \/ where = "cache" THEN cache.body ELSE used
  /\ UNCHANGED <<cache, tmp, buf, sent, where>> /\ Keep
Rename ==
  /\ pc = "rename"
  /\ cache' = tmp /\ tmp' = Absent /\ where' = "cache"
  /\ pc' = IF EarlyRename THEN (IF HasData THEN "lateflush" ELSE "use") ELSE "use"
  /\ used' = tmp.body
  /\ UNCHANGED <<buf, sent>> /\ Keep
Use == /\ pc = "use" /\ pc' = "done" /\ UNCHANGED <<cache, tmp, buf, sent, used, where>> /\ Keep
\* SIGKILL between any two steps of the first run
Kill ==
  /\ run = 1 /\ pc \notin {"done", "dead"}
  /\ pc' = "dead" /\ used' = -1
  /\ fate' = Append(fate, pc)
  /\ UNCHANGED <<cache, tmp, buf, sent, run, toolOK, failAt, rebuilt, where, tempOK>>
\* SIGINT / SIGTERM / SIGHUP between any two steps of the first run: the program installs no handler, so the process ends like a
\* killed one (no deferred clean-up runs, the disk keeps what was written); the disassembler may go on writing into the broken pipe
Interrupt ==
  /\ run = 1 /\ pc \notin {"done", "dead"}
  /\ IF "InterruptEndsDump" \in Dev /\ pc = "dump"
     THEN /\ pc' = (IF HasData THEN "flush" ELSE "close") /\ UNCHANGED used
          /\ fate' = Append(fate, "interrupted")
     ELSE /\ pc' = "dead" /\ used' = -1
          /\ fate' = Append(fate, "signal")
  /\ UNCHANGED <<cache, tmp, buf, sent, run, toolOK, failAt, rebuilt, where, tempOK>>
\* the next run: a normal one (tool present and succeeding, no write failures); the binary may have been rebuilt
NextRun ==
  /\ run = 1 /\ pc \in {"done", "dead"}
  /\ run' = 2 /\ pc' = "start" /\ buf' = Empty /\ sent' = 0 /\ used' = -1
  /\ toolOK' = TRUE /\ failAt' = NChunks + 1
  /\ cache' = IF rebuilt /\ cache.hash = "cur" THEN [cache EXCEPT !.hash = "old"] ELSE cache
  /\ fate' = Append(fate, IF pc = "dead" THEN "killed" ELSE IF used = -1 THEN "failed" ELSE "ok")
  /\ where' = IF InPlace THEN "cache" ELSE "tmp"
  /\ UNCHANGED <<tmp, rebuilt, tempOK>>
Next == Compare \/ Create \/ HashLine \/ Spill \/ (run = 1 /\ SpillFails) \/ Dump \/ FailedCleanup \/ Close \/ Rename \/ Use \/ Kill \/ Interrupt \/ NextRun
Spec == Init /\ [][Next]_vars

\* C17: whatever happened to the first run, the second one parses a complete listing of
\* the current binary (or fails): never a profile with fewer syscalls
SecondRunSound == (run = 2 /\ pc = "done" /\ used # -1) => used = NChunks
\* a file that carries the current hash under the cache name is complete
ValidMeansComplete == (cache.hash = "cur" /\ ~(pc = "lateflush")) => cache.body = NChunks
\* a run that was not disturbed succeeds
UndisturbedSucceeds == (run = 2 /\ pc = "done" /\ tempOK) => used = NChunks
=============================================================================
