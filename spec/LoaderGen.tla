----------------------------- MODULE LoaderGen -----------------------------
(***************************************************************************)
(* History generation for the replay of Loader.tla on the real kernel      *)
(* (C09, C11): the same actions with a history variable.  A history is the *)
(* sequence of top-level operations a child process can stage -            *)
(*   spawn(t)                  a new OS thread created by a runtime thread *)
(*   load / supported / setnnp on thread t, with the environment steps     *)
(*                             that happened at the schedule point between *)
(*                             prctl and seccomp (hook H2): spawn, migrate *)
(*                             and during assembly (hook H3): migrate_asm  *)
(* - each with the result class and the kernel state (chain, nnp per       *)
(* thread) the specification expects afterwards.  Every maximal history is *)
(* printed as one JSON line.                                               *)
(***************************************************************************)
EXTENDS Loader, Json

VARIABLES hist, hook, callerT
gvars == <<vars, hist, hook, callerT>>
CONSTANT Migration   \* TRUE: migration attempts are generated (C11); FALSE: calls run on wired harness threads (C09)

Snap == [t \in threads |-> [chain |-> chain[t], nnp |-> nnp[t]]]
FlagSeq(f) == SetToSeq(f)

GInit == Init /\ hist = <<>> /\ hook = <<>> /\ callerT = "none"

GSpawn(p, n) ==
  /\ ThreadCreate(p, n)
  /\ IF pc = "idle"
     THEN hist' = Append(hist, [op |-> "spawn", t |-> n, state |-> Snap']) /\ UNCHANGED hook
     ELSE hook' = Append(hook, [op |-> "spawn", t |-> n]) /\ UNCHANGED hist
  /\ UNCHANGED callerT
GMigrate(t) ==
  /\ AttemptMigrate(t)
  /\ (Migration \/ t = m)
  /\ UNCHANGED callerT
  \* one attempt per call; t = m stands for "no attempt"
  /\ hook' = IF t = m THEN hook ELSE Append(hook, [op |-> "migrate", to |-> t])
  /\ UNCHANGED hist
\* the same during assembly (hook H3), before the library wires the goroutine
GMigrateAsm(t) ==
  /\ AttemptMigrateAsm(t) /\ Migration
  /\ hook' = Append(hook, [op |-> "migrate_asm", to |-> t])
  /\ UNCHANGED <<hist, callerT>>
\* another (wired) thread loads a filter of its own while the call is parked at the schedule point
GOther(t) ==
  /\ OtherLoad(t)
  /\ hook' = Append(hook, [op |-> "load", t |-> t, fid |-> OtherId])
  /\ UNCHANGED <<hist, callerT>>
GBlock(t) ==
  /\ BlockSeccomp(t)
  /\ hist' = Append(hist, [op |-> "block", t |-> t, state |-> Snap'])
  /\ UNCHANGED <<hook, callerT>>
GDeny(t) ==
  /\ DenyPrctl(t)
  /\ hist' = Append(hist, [op |-> "denyprctl", t |-> t, state |-> Snap'])
  /\ UNCHANGED <<hook, callerT>>
GLib ==
  /\ LibNext
  /\ IF pc = "ret"
     THEN /\ hist' = Append(hist, [op |-> kind, t |-> m, nnp |-> req.nnp, flags |-> FlagSeq(req.flags),
                                   pol |-> req.pol, pid |-> req.pid, fid |-> fid, hook |-> hook, res |-> res,
                                   caller |-> callerT, kt |-> kret.t, att |-> kret.att,
                                   state |-> Snap])
          /\ hook' = <<>>
     ELSE UNCHANGED <<hist, hook>>
  /\ callerT' = IF pc = "idle" THEN m' ELSE callerT
GNext ==
  \/ GLib
  \/ \E t \in threads \cap Callers : GBlock(t)
  \/ \E t \in threads \cap Callers : GDeny(t)
  \/ \E p \in threads, n \in Threads : GSpawn(p, n)
  \/ \E t \in threads : GMigrate(t)
  \/ \E t \in threads : GMigrateAsm(t)
  \/ \E t \in threads \cap Callers : GOther(t)
GSpec == GInit /\ [][GNext]_gvars

Terminal == pc = "idle" /\ loads = MaxLoads
Emit == Terminal => PrintT(<<"HIST", ToJson([priv |-> priv, hist |-> hist])>>)
=============================================================================
