----------------------------- MODULE DisasmGen -----------------------------
(* Prints every terminated behaviour of Disasm.tla (line sequence, whether *)
(* a read error ended it, the model's result) as one JSON line, for the    *)
(* replay on the real disasm.ExtractSyscalls.  Used exhaustively with a    *)
(* small MaxLines and with -simulate for long listings.                    *)
EXTENDS Disasm, Json
Emit == (st.status \in {"ok", "error"}) =>
          PrintT(<<"CASE", ToJson([lines |-> lines, readerr |-> readerr, status |-> st.status, found |-> st.found])>>)
=============================================================================
