------------------------------- MODULE AsmMC -------------------------------
(***************************************************************************)
(* Exhaustive exploration of Program.Assemble (C06): every label program   *)
(* of N instructions (loads, returns with two different values, two-way    *)
(* jumps to any later instruction), assembled one loop iteration per step. *)
(*   Algo      "rev" (the tree as it is) or "legacy" (pinned commit)       *)
(*   PerBranch FALSE: one label per target instruction, shared by all      *)
(*             jumps to it; TRUE: every branch has a label of its own      *)
(*             (as JmpIfTrue's implicit labels)                            *)
(***************************************************************************)
EXTENDS AsmProgs
CONSTANTS Algo

VARIABLES st, j, orig, labelAt
vars == <<st, j, orig, labelAt>>

Init == /\ st \in {MkState(p) : p \in Progs(0)}
        /\ orig = st.insts
        /\ labelAt = [l \in 1..Len(st.labels) |-> st.labels[l][1]]
        /\ j = IF Algo = "rev" THEN Len(st.jumps) ELSE 1

Running == st.err = "" /\ (IF Algo = "rev" THEN j >= 1 ELSE j <= Len(st.jumps))
Step == /\ Running
        /\ st' = IF Algo = "rev" THEN ResolveJump(st, j) ELSE LegacyResolveJump(st, j)
        /\ j' = IF Algo = "rev" THEN j - 1 ELSE j + 1
        /\ UNCHANGED <<orig, labelAt>>
Next == Step
Spec == Init /\ [][Next]_vars

Done == ~Running

\* C06: the assembled program is path-equivalent to the label program.
Correct == (Done /\ st.err = "") => AsmCorrect(st.insts, orig, labelAt)
\* forward-only label programs are never refused as "backward"
NoBackwardError == st.err # "backward"
\* "useless jump" is reported exactly for a jump whose branches both go to the next instruction
UselessExact == (st.err = "useless") <=>
                  \E n \in 1..Len(orig) : orig[n].k = "jif" /\ labelAt[orig[n].tl] = n /\ labelAt[orig[n].fl] = n
UselessOnlyIf == (st.err = "useless") =>
                  \E n \in 1..Len(orig) : orig[n].k = "jif" /\ labelAt[orig[n].tl] = n /\ labelAt[orig[n].fl] = n
\* structural invariants of the intermediate states: indices stay consistent
Consistent ==
  /\ \A n \in 1..Len(st.jumps) : st.insts[st.jumps[n].index + 1].k = "jif"
  /\ \A l \in 1..Len(st.labels) : \A i \in 1..Len(st.labels[l]) :
        st.labels[l][i] >= 0 /\ st.labels[l][i] < Len(st.insts)
  /\ Len(st.insts) <= N + 2 * Len(st.jumps)
=============================================================================
