---------------------------- MODULE LoweringBind ----------------------------
(***************************************************************************)
(* Binds the decision trees of Lowering.tla to the compiler model: for     *)
(* every order/equality operation, operand and actual value at width W,    *)
(* and both byte orders, the single-condition program Compile.tla emits    *)
(* matches exactly when the tree says so.  (Lowering.tla is then proved    *)
(* at B = 2^32 by Apalache; the compiler model equals the real compiler    *)
(* instruction for instruction - C02's drift count.)                       *)
(***************************************************************************)
EXTENDS Compile
L == INSTANCE Lowering WITH B <- 2^W, a <- 0, v <- 0

TreeOf(op, ah, al, vh, vl) ==
  CASE op = "Equal" -> L!TreeEqual(ah, al, vh, vl)
    [] op = "NotEqual" -> L!TreeNotEqual(ah, al, vh, vl)
    [] op = "GreaterThan" -> L!TreeGreaterThan(ah, al, vh, vl)
    [] op = "GreaterOrEqual" -> L!TreeGreaterOrEqual(ah, al, vh, vl)
    [] op = "LessThan" -> L!TreeLessThan(ah, al, vh, vl)
    [] op = "LessOrEqual" -> L!TreeLessOrEqual(ah, al, vh, vl)
OrderOps == {"Equal", "NotEqual", "GreaterThan", "GreaterOrEqual", "LessThan", "LessOrEqual"}
Single(op, arg, val) ==
  [def |-> "allow", x86 |-> FALSE,
   groups |-> << [names |-> <<>>, conds |-> << [num |-> 0, conds |-> << [arg |-> arg, op |-> op, val |-> val] >>] >>, act |-> "errno"] >>]
Vals == 0..(B*B - 1)
TreesAreTheProgram ==
  \A op \in OrderOps, arg \in {0, 5}, val \in Vals, le \in BOOLEAN :
    LET prog == Compile(Single(op, arg, val), le).insts IN
    \A act \in Vals :
      (RunEv(prog, [arch |-> "own", nr |-> 0, args |-> [i \in {arg} |-> act]], le) = "errno|EPERM")
        <=> TreeOf(op, Hi(act), Lo(act), Hi(val), Lo(val))
ASSUME TreesAreTheProgram
=============================================================================
