----------------------------- MODULE ProfCache2 -----------------------------
(***************************************************************************)
(* doObjdump of cmd/seccomp-profiler when two runs on the SAME binary      *)
(* overlap (C17; ProfCache.tla has one run at a time).  A file is a hash   *)
(* flag and NChunks slots; a process writes its k-th chunk at slot k (its  *)
(* own file offset), so a file that another process truncated meanwhile    *)
(* gets holes.                                                             *)
(*                                                                         *)
(*   files[n]  the file named n: [hash : BOOLEAN, slot : 1..NChunks ->     *)
(*             BOOLEAN]; names: "cache", and one temporary name per        *)
(*             process - or the single name "tmp" under the deviation      *)
(*   pc[p]     create | write | rename | done | failed                    *)
(*   fd[p]     the name under which p created the file it writes to        *)
(*             (the descriptor follows the file through a rename)          *)
(*   at[p]     chunks written so far                                       *)
(*   fails[p]  p's disassembler exits non-zero after failAt[p] chunks      *)
(* The runs interleave freely; afterwards a normal run reads the cache.    *)
(*                                                                         *)
(* Dev "SharedTempName" (a seeded change): the temporary file has a fixed  *)
(* name (<cache>.tmp, os.Create) instead of a unique one (os.CreateTemp).  *)
(***************************************************************************)
EXTENDS Integers, FiniteSets, TLC
CONSTANTS NChunks, Dev
Procs == {"A", "B"}
Shared == "SharedTempName" \in Dev
TmpName(p) == IF Shared THEN "tmp" ELSE p
Names == {"cache", "tmp", "A", "B"}
Empty == [hash |-> FALSE, slot |-> [k \in 1..NChunks |-> FALSE]]
Absent == [hash |-> FALSE, slot |-> [k \in 1..NChunks |-> FALSE], exists |-> FALSE]

\* `open` maps a descriptor to the file object it refers to; objects are kept apart from names, because a rename moves the
\* object to another name while writers keep writing to it
VARIABLES name,     \* name -> object id (0 = no such file)
          obj,      \* object id -> content
          pc, fdo, at, failAt, nextObj
vars == <<name, obj, pc, fdo, at, failAt, nextObj>>
MaxObj == 4

Init ==
  /\ name = [n \in Names |-> 0]
  /\ obj = [o \in 1..MaxObj |-> Empty]
  /\ pc = [p \in Procs |-> "create"] /\ fdo = [p \in Procs |-> 0] /\ at = [p \in Procs |-> 0]
  /\ failAt \in [Procs -> 0..(NChunks + 1)]          \* NChunks + 1: the disassembler succeeds
  /\ nextObj = 1

\* os.CreateTemp / os.Create + the hash line (flushed with the first chunk; folded into creation here)
Create(p) ==
  /\ pc[p] = "create" /\ nextObj <= MaxObj
  /\ IF Shared /\ name["tmp"] # 0
     THEN \* os.Create on an existing name truncates the existing object
          /\ obj' = [obj EXCEPT ![name["tmp"]] = [Empty EXCEPT !.hash = TRUE]]
          /\ fdo' = [fdo EXCEPT ![p] = name["tmp"]] /\ UNCHANGED <<name, nextObj>>
     ELSE /\ obj' = [obj EXCEPT ![nextObj] = [Empty EXCEPT !.hash = TRUE]]
          /\ name' = [name EXCEPT ![TmpName(p)] = nextObj]
          /\ fdo' = [fdo EXCEPT ![p] = nextObj] /\ nextObj' = nextObj + 1
  /\ pc' = [pc EXCEPT ![p] = "write"] /\ UNCHANGED <<at, failAt>>
\* one more chunk at the process's own offset, or the disassembler's failure
Write(p) ==
  /\ pc[p] = "write"
  /\ IF at[p] = failAt[p]
     THEN \* failure: the deferred clean-up removes the temporary NAME (if it still names anything)
          /\ pc' = [pc EXCEPT ![p] = "failed"] /\ name' = [name EXCEPT ![TmpName(p)] = 0] /\ UNCHANGED <<obj, at>>
     ELSE IF at[p] = NChunks THEN pc' = [pc EXCEPT ![p] = "rename"] /\ UNCHANGED <<obj, at, name>>
     ELSE /\ obj' = [obj EXCEPT ![fdo[p]].slot[at[p] + 1] = TRUE]
          /\ at' = [at EXCEPT ![p] = @ + 1] /\ UNCHANGED <<pc, name>>
  /\ UNCHANGED <<fdo, failAt, nextObj>>
\* rename(temporary name, cache name): whatever object the temporary NAME refers to now
Rename(p) ==
  /\ pc[p] = "rename"
  /\ IF name[TmpName(p)] # 0
     THEN name' = [name EXCEPT !["cache"] = name[TmpName(p)], ![TmpName(p)] = 0]
     ELSE UNCHANGED name                                  \* the name is gone: the rename fails, the run fails
  /\ pc' = [pc EXCEPT ![p] = IF name[TmpName(p)] # 0 THEN "done" ELSE "failed"]
  /\ UNCHANGED <<obj, fdo, at, failAt, nextObj>>
Next == \E p \in Procs : Create(p) \/ Write(p) \/ Rename(p)
Spec == Init /\ [][Next]_vars

Quiet == \A p \in Procs : pc[p] \in {"done", "failed"}
Complete(o) == obj[o].hash /\ \A k \in 1..NChunks : obj[o].slot[k]
\* C17 for overlapping runs: once both are over, a cache file that carries the hash line is complete (so the next normal run
\* yields the cold-cache profile)
CacheSoundAfterOverlap == (Quiet /\ name["cache"] # 0 /\ obj[name["cache"]].hash) => Complete(name["cache"])
=============================================================================
