------------------------------ MODULE AsmProgs ------------------------------
(***************************************************************************)
(* The finite space of label programs explored for C06 and the Program     *)
(* value the builder calls produce for each (variable-free, shared by the  *)
(* exhaustive model AsmMC and the case export AsmGen).                     *)
(***************************************************************************)
EXTENDS Asm
CONSTANTS N, PerBranch

LdX    == I("ld", "", 4, 0, 0)
JifX(t, f) == I("jif", "eq", 0, t, f)

\* instruction choices at 0-based index i; targets are later indices
InstChoices(i) ==
  IF i = N - 1 THEN {RetI(1), RetI(2)}
  ELSE {LdX, RetI(1), RetI(2)} \cup {JifX(t, f) : t \in (i+1)..(N-1), f \in (i+1)..(N-1)}
RECURSIVE Build(_)
Build(i) == IF i = N THEN {<<>>} ELSE {<<x>> \o rest : x \in InstChoices(i), rest \in Build(i+1)}
Progs(dummy) == Build(0)

\* MkState: the Program value the builder calls produce for label program p
\* (targets given as 0-based instruction indices in tl/fl).
MkState(p) ==
  LET idxs == SelectSeq([i \in 1..N |-> i], LAMBDA i : p[i].k = "jif")
      \* label ids: shared -> label l marks index l (l in 1..N-1);
      \* per branch -> jump n gets labels 2n-1 (true) and 2n (false)
      lblT(n) == IF PerBranch THEN 2*n - 1 ELSE p[idxs[n]].tl
      lblF(n) == IF PerBranch THEN 2*n     ELSE p[idxs[n]].fl
      insts == [i \in 1..N |->
                 IF p[i].k = "jif"
                 THEN LET n == CHOOSE n \in 1..Len(idxs) : idxs[n] = i
                      IN [p[i] EXCEPT !.id = i, !.tl = lblT(n), !.fl = lblF(n)]
                 ELSE [p[i] EXCEPT !.id = i]]
      jmps == [n \in 1..Len(idxs) |-> [index |-> idxs[n] - 1, tl |-> lblT(n), fl |-> lblF(n)]]
      labels == IF PerBranch
                THEN [l \in 1..(2*Len(idxs)) |->
                        LET n == (l + 1) \div 2 IN
                        << IF l % 2 = 1 THEN p[idxs[n]].tl ELSE p[idxs[n]].fl >>]
                ELSE [l \in 1..(N-1) |-> <<l>>]
  IN [insts |-> insts, jumps |-> jmps, labels |-> labels, err |-> ""]

=============================================================================
