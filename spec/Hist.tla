-------------------------------- MODULE Hist --------------------------------
(***************************************************************************)
(* The library has no memory.                                              *)
(*                                                                         *)
(* Every exported operation of go-seccomp-bpf - compiling or dumping a     *)
(* policy, loading a filter, resolving an architecture or a syscall name,  *)
(* reading a table, printing a value - answers from its arguments (and,    *)
(* for a load, from the kernel state of the calling thread) alone: there   *)
(* is no package-level variable that one call writes and a later call     *)
(* reads, and nothing is asked of the machine the process happens to run   *)
(* on (file system, uname).  The statements C01-C19 are written per call;  *)
(* they hold for the n-th call of a process only because of this, and the  *)
(* changes that broke them in the eleventh round of seeding (DESIGN 0.5)   *)
(* all introduced some memory: a compile cache, a record of installed      *)
(* architectures, a cached filter, a table that learns spellings, a file   *)
(* read once per process.                                                  *)
(*                                                                         *)
(* This module states the property over HISTORIES of calls and names those *)
(* memories as deviations; the histories it exports are replayed on the    *)
(* real library (harness/cmd/histreplay), one fresh process per history,   *)
(* every call's outcome compared with the outcome of the same call made as *)
(* the only call of a fresh, ordinary process.                             *)
(*                                                                         *)
(* Calls (abstract; histreplay concretises them)                           *)
(*   compile, dump  a policy value for a syscall table                     *)
(*   recompile      ONE policy value compiled, its exported fields         *)
(*                  rewritten to a sibling content, compiled again         *)
(*   load           LoadFilter of a policy for the native table on a       *)
(*                  thread of its own that carries nothing yet (no thread- *)
(*                  sync); observed: what hook H2 sees (program, flags),   *)
(*                  the result, the thread's no_new_privs bit afterwards   *)
(*   getinfo        arch.GetInfo(name)                                     *)
(*   resolve        a name resolved for a table the way the compiler does  *)
(*                  it (a one-name policy compiled for that table)         *)
(*   table          the exported maps read directly, both directions       *)
(*   text           Action.String / MarshalText                            *)
(*   parse          Action.Unpack / Operation.Unpack of a name in some     *)
(*                  letter case, or of a word that is no name              *)
(* Policy values: [shape, act, val] - siblings differ in ONE field: the    *)
(* data bits of the action (which Action.String does not print), the       *)
(* operand, the shape.                                                     *)
(*                                                                         *)
(* State                                                                   *)
(*   mem    what the library remembers (always EmptyMem for Dev = {})      *)
(*   env    what the process can find out about its machine: "plain",      *)
(*          "bare" (no /proc, no /sys) or "noseccomp" (seccomp(2) is       *)
(*          answered with ENOSYS by an enclosing filter); fixed per process*)
(*   hist, outs   the calls made and their outcomes                        *)
(*                                                                         *)
(* Dev (none of them is in the tree; each is a seeded change of round 11): *)
(*   "TextKeyCache"        compiled programs cached under a key that       *)
(*                         prints actions with String()  (C13-11)          *)
(*   "InstalledArchRecord" loads after the first one for an architecture   *)
(*                         hand the kernel a program without the           *)
(*                         architecture check and x32 guard  (C04-11)      *)
(*   "FilterCache"         the last loaded filter is cached on policy and  *)
(*                         flags; NoNewPrivs is read from the cache        *)
(*                         (C11-11)                                        *)
(*   "LazyAlias"           resolving a spelling another table has writes   *)
(*                         it into the table  (C12-11)                     *)
(*   "LogDegrades"         `log` is compiled as `allow` when the kernel's  *)
(*                         action list cannot be read  (C05-11)            *)
(*   "ActionProbe"         `log` is compiled as `allow` when seccomp(2)    *)
(*                         cannot be asked about it  (C01-12)              *)
(*   "ValueMemo"           the compiled program is kept inside the Policy  *)
(*                         value and survives a change of its fields       *)
(*                         (C05-12)                                        *)
(***************************************************************************)
EXTENDS Integers, Sequences, FiniteSets, TLC
CONSTANTS MaxCalls, Dev

Acts == {"errno", "errno|1", "errno|2", "trace|1", "trace|2", "log"}
\* how an action value prints: the data bits are not part of any name
PrintAct(a) == CASE a \in {"errno|1", "errno|2", "trace|1", "trace|2"} -> "unknown" [] OTHER -> a
Pols == [shape : {"names", "cond"}, act : Acts, val : {7, 8}]
Archs == {"x86_64", "aarch64"}
Native == "x86_64"
Names == {"read", "fstatat", "newfstatat"}
Table == [a \in Archs |-> IF a = "x86_64" THEN {"read", "newfstatat"} ELSE {"read", "fstatat"}]
Alias(n) == CASE n = "fstatat" -> "newfstatat" [] n = "newfstatat" -> "fstatat" [] OTHER -> n

Dist(p, q) == (IF p.shape = q.shape THEN 0 ELSE 1) + (IF p.act = q.act THEN 0 ELSE 1) + (IF p.val = q.val THEN 0 ELSE 1)
Calls ==
  [op : {"compile", "dump"}, pol : Pols, arch : Archs]
  \cup [op : {"load"}, pol : Pols, nnp : BOOLEAN]
  \cup {[op |-> "recompile", pol |-> pq[1], pol2 |-> pq[2], arch |-> a] : pq \in {xy \in Pols \X Pols : Dist(xy[1], xy[2]) = 1}, a \in Archs}
  \cup [op : {"getinfo"}, name : {"", "amd64", "ARM64", "mips"}]
  \cup [op : {"resolve", "table"}, arch : Archs, name : Names]
  \cup [op : {"text"}, act : Acts]
  \cup [op : {"parse"}, text : {"errno", "ERRNO", "Allow", "permit", "Equal", "bitsset", "like"}]

EmptyMem == [progs |-> <<>>, archs |-> {}, last |-> <<>>, alias |-> {}]
\* the program a policy compiles to is identified by the policy, the table and whether it starts with the architecture check
Prog(p, a, env) ==
  LET act == IF p.act = "log" /\ (("LogDegrades" \in Dev /\ env = "bare") \/ ("ActionProbe" \in Dev /\ env = "noseccomp")) THEN "allow" ELSE p.act IN
  [pol |-> [p EXCEPT !.act = act], arch |-> a, guard |-> TRUE]
Key(p, a) == <<p.shape, PrintAct(p.act), p.val, a>>
Cached(mem, k) == \E i \in 1..Len(mem.progs) : mem.progs[i].key = k
Lookup(mem, k) == (CHOOSE i \in 1..Len(mem.progs) : mem.progs[i].key = k)

\* Out(c, mem, env) = [out, mem]: the outcome of call c and what the library remembers afterwards
Out(c, mem, env) ==
  CASE c.op \in {"compile", "dump"} ->
         IF "TextKeyCache" \in Dev /\ c.op = "compile"
         THEN IF Cached(mem, Key(c.pol, c.arch))
              THEN [out |-> mem.progs[Lookup(mem, Key(c.pol, c.arch))].prog, mem |-> mem]
              ELSE [out |-> Prog(c.pol, c.arch, env),
                    mem |-> [mem EXCEPT !.progs = Append(@, [key |-> Key(c.pol, c.arch), prog |-> Prog(c.pol, c.arch, env)])]]
         ELSE [out |-> Prog(c.pol, c.arch, env), mem |-> mem]
    [] c.op = "recompile" ->
         \* ONE Policy value: compiled while it holds c.pol, its exported fields rewritten to c.pol2, compiled again
         [out |-> IF "ValueMemo" \in Dev THEN Prog(c.pol, c.arch, env) ELSE Prog(c.pol2, c.arch, env), mem |-> mem]
    [] c.op = "load" ->
         LET stripped == "InstalledArchRecord" \in Dev /\ Native \in mem.archs
             cachedNNP == "FilterCache" \in Dev /\ mem.last # <<>> /\ mem.last[1] = c.pol
             nnpUsed == IF cachedNNP THEN mem.last[2] ELSE c.nnp IN
         [out |-> [installed |-> [Prog(c.pol, Native, env) EXCEPT !.guard = ~stripped], nnp |-> nnpUsed, res |-> "nil"],
          mem |-> [mem EXCEPT !.archs = IF "InstalledArchRecord" \in Dev THEN @ \cup {Native} ELSE @,
                              !.last = IF "FilterCache" \in Dev THEN (IF cachedNNP THEN @ ELSE <<c.pol, c.nnp>>) ELSE @]]
    [] c.op = "getinfo" ->
         [out |-> CASE c.name = "" -> Native [] c.name = "amd64" -> "x86_64" [] c.name = "ARM64" -> "aarch64" [] OTHER -> "unsupported",
          mem |-> mem]
    [] c.op = "resolve" ->
         IF c.name \in Table[c.arch] \/ <<c.arch, c.name>> \in mem.alias THEN [out |-> "resolved", mem |-> mem]
         ELSE IF "LazyAlias" \in Dev /\ Alias(c.name) \in Table[c.arch]
              THEN [out |-> "resolved", mem |-> [mem EXCEPT !.alias = @ \cup {<<c.arch, c.name>>}]]
              ELSE [out |-> "unknown", mem |-> mem]
    [] c.op = "table" ->
         [out |-> (c.name \in Table[c.arch] \/ <<c.arch, c.name>> \in mem.alias), mem |-> mem]
    [] c.op = "text" -> [out |-> PrintAct(c.act), mem |-> mem]
    [] c.op = "parse" ->
         [out |-> CASE c.text \in {"errno", "ERRNO"} -> "errno" [] c.text = "Allow" -> "allow" [] c.text = "Equal" -> "Equal"
                    [] c.text = "bitsset" -> "BitsSet" [] OTHER -> "rejected",
          mem |-> mem]

VARIABLES mem, env, hist, outs
vars == <<mem, env, hist, outs>>
Init == mem = EmptyMem /\ env \in {"plain", "bare", "noseccomp"} /\ hist = <<>> /\ outs = <<>>
Do(c) ==
  /\ Len(hist) < MaxCalls
  /\ LET r == Out(c, mem, env) IN
     /\ mem' = r.mem /\ outs' = Append(outs, r.out)
  /\ hist' = Append(hist, c) /\ UNCHANGED env
Next == \E c \in Calls : Do(c)
Spec == Init /\ [][Next]_vars

\* The oracle of the replay: the same call as the only call of a fresh, ordinary process
\* (for a recompiled value: what a fresh value holding the new content compiles to)
Fresh(c) == IF c.op = "recompile" THEN Prog(c.pol2, c.arch, "plain") ELSE Out(c, EmptyMem, "plain").out
Memoryless == \A i \in 1..Len(hist) : outs[i] = Fresh(hist[i])
\* (stronger than needed for Dev = {}, where it holds by construction: the library never writes)
NothingRemembered == mem = EmptyMem
=============================================================================
