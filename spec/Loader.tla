------------------------------- MODULE Loader -------------------------------
(***************************************************************************)
(* seccomp_linux.go (LoadFilter, Supported, SetNoNewPrivs and the two      *)
(* syscall wrappers) together with the part of the kernel their            *)
(* correctness lives in: per-thread seccomp filter chains, the             *)
(* no_new_privs bit, privilege, thread creation, and the Go scheduler's    *)
(* freedom to move a goroutine to another OS thread between two system     *)
(* calls.                                                                  *)
(*                                                                         *)
(* Kernel state                                                            *)
(*   threads          set of live OS threads of the process                *)
(*   chain[t]         sequence of filter ids attached to thread t          *)
(*   nnp[t]           the no_new_privs bit of thread t                     *)
(*   strict[t]        thread t entered SECCOMP_MODE_STRICT                 *)
(*   priv             the process has CAP_SYS_ADMIN (fixed)                *)
(* Library state (one call at a time: the histories of C09 are sequences   *)
(* of calls; concurrency comes from the environment)                       *)
(*   pc               idle | assemble | prctl | sched | seccomp | ret      *)
(*   kind             load | supported | setnnp                            *)
(*   m                OS thread the calling goroutine currently runs on    *)
(*   locked           goroutine wired to m (runtime.LockOSThread)          *)
(*   req              [nnp, flags, pol, pid] of the load; pid names the    *)
(*                    policy (0: one that no other load uses): two loads   *)
(*                    with the same pid > 0 hand the kernel the same       *)
(*                    program, and still each successful load              *)
(*                    attaches a filter of its own (LoadFilter does not    *)
(*                    remember what it installed; the kernel stacks)       *)
(*   res              none | nil | err | true | false                      *)
(*   fid              id of the filter this call tries to attach           *)
(*   kret             what the kernel answered to seccomp(2):              *)
(*                    [errno, ret, att, nnpAt, flags, t]                   *)
(*   synced           filters whose thread-sync load returned nil          *)
(*                                                                         *)
(* Not part of the state, on purpose: what the environment REPORTS about    *)
(* the kernel (the release string of uname(2), which a personality can set *)
(* to 2.6.x on any kernel).  The kernel's answers depend on its state      *)
(* only, so recordings made under such a report must be behaviours of this *)
(* specification like all others (C10 records some).                       *)
(*                                                                         *)
(* Likewise the file system the process sees is not state: a process that  *)
(* has changed its root to an empty directory (no /proc to look itself up   *)
(* in) gets the same answers from seccomp(2) and prctl(2); C09 replays a    *)
(* third of its privileged histories, and C10 records, in such a process.   *)
(*                                                                         *)
(* Dev: named deviations, each a behaviour of the pinned commit removed by *)
(* a "fix:" commit.  Dev = {} is the tree as it is.                        *)
(*   "R1Ignored"     the seccomp wrapper looked at errno only, so a        *)
(*                   refused thread-sync (positive return value, errno 0)  *)
(*                   was reported as success                               *)
(*   "NoThreadLock"  nothing kept the goroutine on one thread between      *)
(*                   prctl(PR_SET_NO_NEW_PRIVS) and seccomp()              *)
(*   "PrctlFallback" (never in the code; a seeded change) on ENOSYS from   *)
(*                   seccomp(2) fall back to prctl(PR_SET_SECCOMP), which  *)
(*                   takes no flags and covers the calling thread only     *)
(*   "SplitOversize" (never in the code; a seeded change) a policy beyond  *)
(*                   the kernel's program size is installed as two filters;*)
(*                   only the first installation carries the caller's      *)
(*                   flags (filter id 500 + fid is the first part, fid the *)
(*                   part the probes see)                                  *)
(*   "SupportedFlags0" (never in the code; self-test only) Supported()     *)
(*                   probing with flags = 0 would enter strict mode        *)
(*   "PrctlErrorSwallowed" (never in the code; a seeded change) a failing  *)
(*                   prctl(PR_SET_NO_NEW_PRIVS) does not stop the load     *)
(*   "SharedDescriptor" (never in the code; a seeded change) the program  *)
(*                   descriptor handed to seccomp(2) is a package variable: *)
(*                   of two overlapping calls the one that reaches the      *)
(*                   kernel last installs the other's program               *)
(*   "PrctlBeforeAssemble" (never in the code; a seeded change) the bit is *)
(*                   set first thing, before the policy is assembled and   *)
(*                   before the goroutine is wired to its thread           *)
(***************************************************************************)
EXTENDS Integers, Sequences, FiniteSets, TLC, SequencesExt
CONSTANTS Threads, MaxLoads, Dev,
          FlagSets,     \* the flag words tried: subsets of {"TSYNC","LOG","BAD","SPEC"} (BAD: a bit the kernel does not know;
                        \* SPEC: SECCOMP_FILTER_FLAG_SPEC_ALLOW, which the kernel accepts and which changes nothing modelled here)
          Pols,         \* subset of {"valid","invalid","oversize","allowall"} (allowall: a valid policy that denies nothing;
                        \* to the kernel and to LoadFilter it is a filter like any other)
          EnvAnywhere,  \* TRUE: environment steps at every pc; FALSE: only
                        \* where a replay can stage them (idle, schedule point)
          Creators,     \* threads that may create threads (the replay harness
                        \* can only stage creation by unmanaged runtime threads)
          Callers,      \* threads library calls are made on
          AllowBlock,   \* TRUE: the environment may put an enclosing filter on a thread that answers
                        \* seccomp(2) itself with ENOSYS (a container profile); it is filter id 0
          AllowDeny,    \* TRUE: the environment may put an enclosing filter on a thread that answers
                        \* prctl(2) with EPERM; filter ids -1, -2, ...
          PolIds,       \* the policies loads choose from (0: a policy of the load's own; k > 0: the shared policy k)
          AllowOther    \* TRUE: while a load is parked at the schedule point another thread may perform a complete load of its own

VARIABLES threads, chain, nnp, strict, priv, pc, kind, m, locked, req, res, fid, loads, kret, synced
vars == <<threads, chain, nnp, strict, priv, pc, kind, m, locked, req, res, fid, loads, kret, synced>>
kvars == <<threads, chain, nnp, strict, priv>>

NoReq == [nnp |-> FALSE, flags |-> {}, pol |-> "valid", pid |-> 0]
NoKret == [errno |-> "", ret |-> 0, att |-> FALSE, nnpAt |-> FALSE, flags |-> {}, t |-> "none"]

Init ==
  /\ threads \in {{t} : t \in Creators}
  /\ chain = [t \in Threads |-> <<>>]
  /\ nnp = [t \in Threads |-> FALSE]
  /\ strict = [t \in Threads |-> FALSE]
  /\ priv \in BOOLEAN
  /\ pc = "idle" /\ kind = "load" /\ m \in threads /\ locked = FALSE
  /\ req = NoReq /\ res = "none" /\ fid = 0 /\ loads = 0 /\ kret = NoKret /\ synced = {}

---------------------------------------------------------------------------
(* Environment                                                             *)
EnvOK == EnvAnywhere \/ pc \in {"idle", "sched"}

\* clone(CLONE_THREAD): the new thread inherits filter chain, nnp and mode
\* of the creating thread (copy_seccomp under siglock, which also
\* serialises it with a thread-sync in progress).
ThreadCreate(p, n) ==
  /\ EnvOK /\ p \in threads \cap Creators /\ n \in Threads \ threads
  /\ threads' = threads \cup {n}
  /\ chain' = [chain EXCEPT ![n] = chain[p]]
  /\ nnp' = [nnp EXCEPT ![n] = nnp[p]]
  /\ strict' = [strict EXCEPT ![n] = strict[p]]
  /\ UNCHANGED <<priv, pc, kind, m, locked, req, res, fid, loads, kret, synced>>

\* An enclosing filter (id 0) that answers the seccomp(2) system call with ERRNO(ENOSYS) is installed on thread t
\* (by whoever started the program, here with prctl(PR_SET_SECCOMP) after setting no_new_privs).
\* (every installation is a filter object of its own - ids -1, -2, ... - so two threads that were given the "same"
\* enclosing filter separately have diverged for the purposes of thread-sync; a thread created later inherits the object)
Denied(t) == \E i \in 1..Len(chain[t]) : chain[t][i] < 0
DenyIds == UNION {{chain[t][i] : i \in 1..Len(chain[t])} : t \in Threads} \cap (-(Cardinality(Threads) + 1)..-1)
Blocked(t) == \E i \in 1..Len(chain[t]) : chain[t][i] = 0
BlockSeccomp(t) ==
  /\ AllowBlock /\ pc = "idle" /\ t \in threads /\ ~Blocked(t) /\ ~strict[t] /\ ~Denied(t)   \* (the block is staged with prctl)
  /\ chain' = [chain EXCEPT ![t] = Append(@, 0)]
  \* (a privileged starter needs no no_new_privs for that, an unprivileged one has to set the bit first - as for DenyPrctl)
  /\ nnp' = IF priv THEN nnp ELSE [nnp EXCEPT ![t] = TRUE]
  /\ UNCHANGED <<threads, strict, priv, pc, kind, m, locked, req, res, fid, loads, kret, synced>>

\* An enclosing filter (a negative id) that answers prctl(2) with ERRNO(EPERM) is installed on thread t by whoever started the
\* program: a privileged starter needs no no_new_privs for that, an unprivileged one has to set the bit first.
DenyPrctl(t) ==
  /\ AllowDeny /\ pc = "idle" /\ t \in threads /\ ~Denied(t) /\ ~Blocked(t) /\ ~strict[t]
  /\ chain' = [chain EXCEPT ![t] = Append(@, -(Cardinality(DenyIds) + 1))]
  /\ nnp' = IF priv THEN nnp ELSE [nnp EXCEPT ![t] = TRUE]
  /\ UNCHANGED <<threads, strict, priv, pc, kind, m, locked, req, res, fid, loads, kret, synced>>

\* The Go scheduler resumes the calling goroutine on another thread.  The
\* attempt is part of the environment and always possible at the schedule
\* point; it has an effect only if the goroutine is not wired to its thread.
AttemptMigrate(t) ==
  /\ pc = "sched" /\ t \in threads
  /\ m' = IF locked THEN m ELSE t
  /\ pc' = "seccomp"
  /\ UNCHANGED <<threads, chain, nnp, strict, priv, kind, locked, req, res, fid, loads, kret, synced>>

---------------------------------------------------------------------------
(* Kernel: seccomp(SECCOMP_SET_MODE_FILTER, flags, prog) on thread t.      *)
(* Order of the refusals as in do_seccomp / seccomp_set_mode_filter /      *)
(* seccomp_prepare_filter / seccomp_attach_filter (v6.x):                  *)
(*   unknown flag bits -> EINVAL; bad length -> EINVAL; neither            *)
(*   CAP_SYS_ADMIN nor no_new_privs -> EACCES; (program checks);           *)
(*   thread-sync with a thread whose chain is not an ancestor of the       *)
(*   caller's -> return that thread's id (> 0) with errno 0, attach        *)
(*   nothing; else attach, and with thread-sync give every thread the      *)
(*   caller's chain and propagate no_new_privs.                            *)
TsyncBlockers(t) == {u \in threads \ {t} : strict[u] \/ ~IsPrefix(chain[u], chain[t])}
KFilter(t, flags, pol) ==
  IF Blocked(t) THEN [errno |-> "ENOSYS", ret |-> 0, attach |-> FALSE]     \* the enclosing filter answers at syscall entry
  ELSE IF "BAD" \in flags THEN [errno |-> "EINVAL", ret |-> 0, attach |-> FALSE]
  ELSE IF pol = "oversize" THEN [errno |-> "EINVAL", ret |-> 0, attach |-> FALSE]
  ELSE IF ~priv /\ ~nnp[t] THEN [errno |-> "EACCES", ret |-> 0, attach |-> FALSE]
  ELSE IF strict[t] THEN [errno |-> "EINVAL", ret |-> 0, attach |-> FALSE]
  ELSE IF "TSYNC" \in flags /\ TsyncBlockers(t) # {} THEN [errno |-> "", ret |-> 1, attach |-> FALSE]
  ELSE [errno |-> "", ret |-> 0, attach |-> TRUE]

\* seccomp(SECCOMP_SET_MODE_STRICT, flags, NULL): flags must be 0
KStrict(t, flagword) ==
  IF Blocked(t) THEN [errno |-> "ENOSYS", enter |-> FALSE]
  ELSE IF flagword # 0 THEN [errno |-> "EINVAL", enter |-> FALSE]
  ELSE IF chain[t] # <<>> THEN [errno |-> "EINVAL", enter |-> FALSE]
  ELSE [errno |-> "", enter |-> TRUE]

\* Calls overlap: while the call in flight is parked at the schedule point, another thread performs a complete LoadFilter call of its
\* own (NoNewPrivs requested, no thread-sync, a valid policy of its own: filter id OtherId).  The calls share nothing - each installs
\* its own program.  (At most one such call per call in flight; one atomic step, since nothing interleaves with IT here.)
OtherId == 100 + loads
OtherHappened == \E u \in Threads : \E i \in 1..Len(chain[u]) : chain[u][i] = OtherId
OtherLoad(t) ==
  /\ AllowOther /\ pc = "sched" /\ kind = "load" /\ t \in threads /\ t # m
  /\ ~Blocked(t) /\ ~Denied(t) /\ ~strict[t] /\ ~OtherHappened
  /\ nnp' = [nnp EXCEPT ![t] = TRUE]
  /\ chain' = [chain EXCEPT ![t] = Append(@, OtherId)]
  /\ UNCHANGED <<threads, strict, priv, pc, kind, m, locked, req, res, fid, loads, kret, synced>>
\* the filter the call in flight attaches: its own
AttachId == IF "SharedDescriptor" \in Dev /\ OtherHappened THEN OtherId ELSE fid

---------------------------------------------------------------------------
(* Library                                                                 *)
Call(t, k, r) ==
  /\ pc = "idle" /\ loads < MaxLoads /\ t \in threads \cap Callers
  /\ m' = t /\ kind' = k /\ req' = r
  /\ pc' = CASE k = "load" -> (IF "PrctlBeforeAssemble" \in Dev THEN "prctl" ELSE "assemble") [] k = "supported" -> "seccomp" [] k = "setnnp" -> "prctl"
  /\ fid' = loads + 1 /\ res' = "none" /\ kret' = NoKret /\ locked' = FALSE
  /\ UNCHANGED <<threads, chain, nnp, strict, priv, loads, synced>>

\* Assembling a policy takes time and the goroutine is not wired to its thread yet: the scheduler may resume it on another
\* thread meanwhile (at most one such move per load is modelled; the harness forces it at hook H3, the first assembler step)
AttemptMigrateAsm(t) ==
  /\ pc = "assemble" /\ kind = "load" /\ t \in threads /\ t # m /\ ~locked
  /\ m' = t /\ pc' = "assemble2"
  /\ UNCHANGED <<threads, chain, nnp, strict, priv, kind, locked, req, res, fid, loads, kret, synced>>

\* LoadFilter: Policy.Assemble + bpf.Assemble; an invalid policy fails here
LF_Assemble ==
  /\ pc \in {"assemble", "assemble2"}
  /\ IF req.pol = "invalid" THEN pc' = "ret" /\ res' = "err" /\ UNCHANGED locked
     ELSE /\ pc' = (IF "PrctlBeforeAssemble" \in Dev THEN "sched" ELSE "prctl") /\ UNCHANGED res
          \* the goroutine is wired to its thread for the two system calls
          /\ locked' = ("NoThreadLock" \notin Dev)
  /\ UNCHANGED <<threads, chain, nnp, strict, priv, kind, m, req, fid, loads, kret, synced>>

\* prctl(PR_SET_NO_NEW_PRIVS, 1) on the current thread, if requested
LF_Prctl ==
  /\ pc = "prctl"
  /\ LET wanted == kind = "setnnp" \/ req.nnp
         fails == wanted /\ Denied(m) IN          \* the enclosing filter answers EPERM: the bit stays as it is
     /\ nnp' = IF wanted /\ ~fails THEN [nnp EXCEPT ![m] = TRUE] ELSE nnp
     /\ IF kind = "setnnp" THEN pc' = "ret" /\ res' = (IF fails THEN "err" ELSE "nil")
        ELSE IF fails /\ "PrctlErrorSwallowed" \notin Dev THEN pc' = "ret" /\ res' = "err"     \* the load stops here
        ELSE pc' = (IF "PrctlBeforeAssemble" \in Dev THEN "assemble" ELSE "sched") /\ UNCHANGED res
  /\ UNCHANGED <<threads, chain, strict, priv, kind, m, locked, req, fid, loads, kret, synced>>

\* seccomp(2) on the then-current thread and the mapping of its outcome
LF_Seccomp ==
  /\ pc = "seccomp" /\ kind = "load"
  /\ LET split == "SplitOversize" \in Dev /\ req.pol = "oversize"
         k == KFilter(m, req.flags, IF split THEN "valid" ELSE req.pol) IN
     /\ kret' = [errno |-> k.errno, ret |-> k.ret, att |-> k.attach, nnpAt |-> nnp[m],
                 flags |-> IF split /\ k.attach THEN req.flags \ {"TSYNC"} ELSE req.flags, t |-> m]
     /\ IF split /\ k.attach
        THEN \* two installations: the first with the caller's flags, the second without thread-sync
             LET first == Append(chain[m], 500 + fid) IN
             /\ chain' = [t \in Threads |-> IF t = m THEN Append(first, AttachId)
                                             ELSE IF t \in threads /\ "TSYNC" \in req.flags THEN first ELSE chain[t]]
             /\ nnp' = IF "TSYNC" \in req.flags THEN [t \in Threads |-> IF t \in threads THEN nnp[t] \/ nnp[m] ELSE nnp[t]] ELSE nnp
        ELSE IF k.errno = "ENOSYS" /\ "PrctlFallback" \in Dev
        THEN \* prctl(PR_SET_SECCOMP, SECCOMP_MODE_FILTER): no flags, the calling thread only
             chain' = [chain EXCEPT ![m] = Append(@, AttachId)] /\ UNCHANGED nnp
        ELSE IF k.attach
        THEN LET nc == Append(chain[m], AttachId) IN
             IF "TSYNC" \in req.flags
             THEN /\ chain' = [t \in Threads |-> IF t \in threads THEN nc ELSE chain[t]]
                  /\ nnp' = [t \in Threads |-> IF t \in threads THEN nnp[t] \/ nnp[m] ELSE nnp[t]]
             ELSE /\ chain' = [chain EXCEPT ![m] = nc] /\ UNCHANGED nnp
        ELSE UNCHANGED <<chain, nnp>>
     /\ res' = IF k.errno = "ENOSYS" /\ "PrctlFallback" \in Dev THEN "nil"
               ELSE IF k.errno # "" THEN "err"
               ELSE IF "R1Ignored" \in Dev THEN "nil"
               ELSE IF k.ret # 0 THEN "err" ELSE "nil"
  /\ pc' = "ret"
  /\ UNCHANGED <<threads, strict, priv, kind, m, locked, req, fid, loads, synced>>

\* Supported(): strict mode with flags = 1 must come back as EINVAL
SupportedStep ==
  /\ pc = "seccomp" /\ kind = "supported"
  /\ LET k == KStrict(m, IF "SupportedFlags0" \in Dev THEN 0 ELSE 1) IN
     /\ strict' = IF k.enter THEN [strict EXCEPT ![m] = TRUE] ELSE strict
     /\ res' = IF k.errno = "EINVAL" THEN "true" ELSE "false"
  /\ pc' = "ret"
  /\ UNCHANGED <<threads, chain, nnp, priv, kind, m, locked, req, fid, loads, kret, synced>>

Return ==
  /\ pc = "ret" /\ pc' = "idle" /\ loads' = loads + 1 /\ locked' = FALSE
  /\ synced' = IF kind = "load" /\ res = "nil" /\ "TSYNC" \in req.flags THEN synced \cup {fid} ELSE synced
  /\ UNCHANGED <<threads, chain, nnp, strict, priv, kind, m, req, res, fid, kret>>

Reqs == [nnp : BOOLEAN, flags : FlagSets, pol : Pols, pid : PolIds]
LibNext ==
  \/ \E t \in threads, r \in Reqs : Call(t, "load", r)
  \/ \E t \in threads : Call(t, "supported", NoReq) \/ Call(t, "setnnp", NoReq)
  \/ LF_Assemble \/ LF_Prctl \/ LF_Seccomp \/ SupportedStep \/ Return
EnvNext ==
  \/ \E t \in threads : BlockSeccomp(t)
  \/ \E t \in threads : DenyPrctl(t)
  \/ \E p \in threads, n \in Threads : ThreadCreate(p, n)
  \/ \E t \in threads : AttemptMigrate(t)
  \/ \E t \in threads : AttemptMigrateAsm(t)
  \/ \E t \in threads : OtherLoad(t)
Next == LibNext \/ EnvNext
Spec == Init /\ [][Next]_vars

---------------------------------------------------------------------------
(* Properties                                                              *)
InForce(t, f) == \E i \in 1..Len(chain[t]) : chain[t][i] = f
AtRet == pc = "ret" /\ kind = "load"

\* C09
NilImpliesInForce ==
  (AtRet /\ res = "nil") => /\ InForce(m, fid)
                            /\ ("TSYNC" \in req.flags => \A t \in threads : InForce(t, fid))
DeclinedImpliesErr ==
  (AtRet /\ kret.t # "none" /\ ~kret.att) => res = "err"
InvalidNeverReachesKernel ==
  (kind = "load" /\ req.pol = "invalid") => kret.t = "none"
LibStep == pc' # pc
\* a load that fails before the kernel changes nothing; this must be an
\* action property over the library's own steps (a thread created by the
\* environment meanwhile legitimately inherits state)
EarlyFailurePure ==
  [][(LibStep /\ kind = "load" /\ req.pol = "invalid" /\ pc # "idle") => UNCHANGED kvars]_vars
SupportedPure ==
  [][(LibStep /\ kind = "supported" /\ pc # "idle") => UNCHANGED kvars]_vars
SupportedTrue == (pc = "ret" /\ kind = "supported") => res = (IF Blocked(m) THEN "false" ELSE "true")

\* C10
SyncedCoverAll == \A f \in synced : \A t \in threads : InForce(t, f)
FlagsPassThrough == (AtRet /\ kret.t # "none") => kret.flags = req.flags
NoTsyncLeavesOthers ==
  [][(pc = "seccomp" /\ pc' = "ret" /\ kind = "load" /\ "TSYNC" \notin req.flags)
       => \A t \in Threads \ {m} : chain'[t] = chain[t] /\ nnp'[t] = nnp[t]]_vars

\* C11
NNPRequestedLoads ==
  (AtRet /\ req.nnp /\ req.pol \in {"valid", "allowall"} /\ "BAD" \notin req.flags /\ ~Denied(m) /\ kret.t # "none" /\ kret.ret = 0 /\ ~strict[kret.t] /\ ~Blocked(kret.t)) => res = "nil"
\* a requested bit that cannot be set stops the load before the kernel sees a filter
PrctlFailureStopsLoad ==
  (AtRet /\ req.nnp /\ req.pol # "invalid" /\ Denied(m) /\ locked) => (res = "err" /\ kret.t = "none")
NNPBeforeInstallSameThread ==
  (AtRet /\ req.nnp /\ kret.t # "none") => kret.nnpAt
NotRequestedUntouched ==
  [][(LibStep /\ kind = "load" /\ pc # "idle" /\ ~req.nnp /\ "TSYNC" \notin req.flags) => nnp' = nnp]_vars
UnprivNoNNPFails ==
  (AtRet /\ ~req.nnp /\ ~priv /\ kret.t # "none" /\ ~kret.nnpAt) => (res = "err" /\ ~kret.att)
=============================================================================
