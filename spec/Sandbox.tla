------------------------------- MODULE Sandbox -------------------------------
(***************************************************************************)
(* cmd/sandbox/main.go (C15) as a state machine:                           *)
(*   start -> args -> parsed -> loaded -> spawned -> exited(code)          *)
(* Every step can fail in the ways the environment allows; a failure must  *)
(* end the run with a non-zero exit status before the target is started.   *)
(*   Fault \in {none, noargs, nofile, unreadable, badyaml, wrongtype,      *)
(*              unknownaction, unknownsyscall, nosyscalls, kernelrefuses,  *)
(*              notarget}                                                  *)
(* The kernel part (filter survives execve, thread-sync covers the         *)
(* runtime's threads, the target sees Decide) is Loader.tla's / Compile's. *)
(* Dev (never in the code; self-test): "ExecBeforeLoad", "IgnoreLoadError" *)
(***************************************************************************)
EXTENDS Integers, Sequences, TLC
CONSTANTS Faults, Dev

VARIABLES pc, fault, parsed, loaded, targetStarted, exitCode, events
vars == <<pc, fault, parsed, loaded, targetStarted, exitCode, events>>

Init == /\ pc = "start" /\ fault \in Faults /\ parsed = FALSE /\ loaded = FALSE
        /\ targetStarted = FALSE /\ exitCode = -1 /\ events = <<>>
Fail(ev) == pc' = "exited" /\ exitCode' = 1 /\ events' = Append(events, ev) /\ UNCHANGED <<fault, parsed, loaded, targetStarted>>
Args ==
  /\ pc = "start"
  /\ IF fault = "noargs" THEN Fail("usage")
     ELSE pc' = "args" /\ UNCHANGED <<fault, parsed, loaded, targetStarted, exitCode, events>>
Parse ==
  /\ pc = "args"
  /\ IF fault \in {"nofile", "unreadable", "badyaml", "wrongtype", "unknownaction"} THEN Fail("parse-error")
     ELSE pc' = "parsed" /\ parsed' = TRUE /\ UNCHANGED <<fault, loaded, targetStarted, exitCode, events>>
Load ==
  /\ pc = "parsed"
  /\ IF "ExecBeforeLoad" \in Dev THEN pc' = "loaded" /\ UNCHANGED <<fault, parsed, loaded, targetStarted, exitCode, events>>
     ELSE IF fault \in {"unknownsyscall", "nosyscalls", "kernelrefuses"} /\ "IgnoreLoadError" \notin Dev THEN Fail("load-error")
     ELSE /\ pc' = "loaded" /\ loaded' = (fault \notin {"unknownsyscall", "nosyscalls", "kernelrefuses"})
          /\ events' = Append(events, "seccomp-ok")
          /\ UNCHANGED <<fault, parsed, targetStarted, exitCode>>
Exec ==
  /\ pc = "loaded"
  /\ IF fault = "notarget" THEN Fail("exec-error")
     ELSE /\ pc' = "spawned" /\ targetStarted' = TRUE /\ events' = Append(events, "execve-target")
          /\ UNCHANGED <<fault, parsed, loaded, exitCode>>
Exit ==
  /\ pc = "spawned" /\ pc' = "exited" /\ exitCode' = 0
  /\ UNCHANGED <<fault, parsed, loaded, targetStarted, events>>
Next == Args \/ Parse \/ Load \/ Exec \/ Exit
Spec == Init /\ [][Next]_vars

\* C15
ExecOnlyUnderFilter == targetStarted => (parsed /\ loaded)
FailureExitsNonZeroWithoutTarget ==
  (pc = "exited" /\ fault # "none") => (exitCode # 0 /\ ~targetStarted)
HappyPathRuns == (pc = "exited" /\ fault = "none") => (exitCode = 0 /\ targetStarted)
\* the strace view: no execve of the target before a successful seccomp
TraceOrder ==
  \A i \in 1..Len(events) : events[i] = "execve-target" => \E j \in 1..(i - 1) : events[j] = "seccomp-ok"
=============================================================================
