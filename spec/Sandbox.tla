------------------------------- MODULE Sandbox -------------------------------
(***************************************************************************)
(* cmd/sandbox/main.go (C15) as a state machine:                           *)
(*   start -> args -> parsed -> loaded -> spawned -> exited(code)          *)
(* Every step can fail in the ways the environment allows; a failure must  *)
(* end the run with a non-zero exit status before the target is started.   *)
(*   Fault \in {none, noargs, nofile, unreadable, badyaml, wrongtype,      *)
(*              unknownaction, unknownsyscall, nosyscalls, kernelrefuses,  *)
(*              seccompdenied, notarget}                                   *)
(* (seccompdenied: the command itself runs under an enclosing filter that  *)
(* answers seccomp(2) with ENOSYS, so that its own filter cannot be        *)
(* installed - one more way in which "the kernel refuses the filter")      *)
(* (execdenied: a valid policy that loads but does not let execve through - *)
(* deny by default, execve in no group -, so that the command's own start   *)
(* of the target is refused by the filter it has just installed)            *)
(* The kernel part (filter survives execve, thread-sync covers the         *)
(* runtime's threads, the target sees Decide) is Loader.tla's / Compile's. *)
(* The policy file may be big (larger than any buffer) and the decisive     *)
(* part - a later group, or the defect - may sit at its very end: the      *)
(* policy that is enforced must be the whole file's.                       *)
(* Dev (never in the code; self-test / seeded changes): "ExecBeforeLoad",  *)
(* "IgnoreLoadError", "TruncatedRead" (only a prefix of a big file is      *)
(* parsed), "SkipWhenUnsupported" (when Supported() answers false the load  *)
(* is skipped and the target runs without a filter), "ZeroMeansUnset" (a default action of kill_thread - numeric    *)
(* value 0 - is taken for "not given" and replaced by errno),              *)
(* "ExecveAppended" (a deny-by-default policy that does not name execve is  *)
(* given an allow group for it before it is loaded)                        *)
(***************************************************************************)
EXTENDS Integers, Sequences, TLC
CONSTANTS Faults, Dev

VARIABLES pc, fault, parsed, loaded, targetStarted, exitCode, events,
          big,        \* the policy file is big
          atEnd,      \* the fault (or, for fault = none, a group that matters) sits at the end of the file
          complete    \* the whole file was parsed
vars == <<pc, fault, parsed, loaded, targetStarted, exitCode, events, big, atEnd, complete>>
fvars == <<big, atEnd>>

Init == /\ pc = "start" /\ fault \in Faults /\ parsed = FALSE /\ loaded = FALSE
        /\ targetStarted = FALSE /\ exitCode = -1 /\ events = <<>>
        /\ big \in BOOLEAN /\ atEnd \in BOOLEAN /\ complete = FALSE
\* a fault at the end of a big file is invisible to a reader that stops early
Seen == complete \/ ~(big /\ atEnd)
Fail(ev) == pc' = "exited" /\ exitCode' = 1 /\ events' = Append(events, ev) /\ UNCHANGED <<fault, parsed, loaded, targetStarted, complete>> /\ UNCHANGED fvars
Args ==
  /\ pc = "start"
  /\ IF fault = "noargs" THEN Fail("usage")
     ELSE pc' = "args" /\ UNCHANGED <<fault, parsed, loaded, targetStarted, exitCode, events, complete>> /\ UNCHANGED fvars
Parse ==
  /\ pc = "args"
  /\ LET whole == ~("TruncatedRead" \in Dev /\ big)
         seen == whole \/ ~(big /\ atEnd) IN
     IF fault \in {"nofile", "unreadable"} \/ (fault \in {"badyaml", "wrongtype", "unknownaction"} /\ seen)
     THEN pc' = "exited" /\ exitCode' = 1 /\ events' = Append(events, "parse-error") /\ complete' = whole
          /\ UNCHANGED <<fault, parsed, loaded, targetStarted>> /\ UNCHANGED fvars
     ELSE pc' = "parsed" /\ parsed' = TRUE /\ complete' = whole
          /\ UNCHANGED <<fault, loaded, targetStarted, exitCode, events>> /\ UNCHANGED fvars
Load ==
  /\ pc = "parsed"
  /\ IF "ExecBeforeLoad" \in Dev THEN pc' = "loaded" /\ UNCHANGED <<fault, parsed, loaded, targetStarted, exitCode, events, complete>> /\ UNCHANGED fvars
     ELSE IF fault = "seccompdenied" /\ "SkipWhenUnsupported" \in Dev
          THEN pc' = "loaded" /\ UNCHANGED <<fault, parsed, loaded, targetStarted, exitCode, events, complete>> /\ UNCHANGED fvars
     ELSE IF fault \in {"unknownsyscall", "foreignsyscall", "nosyscalls", "kernelrefuses", "seccompdenied"} /\ Seen /\ "IgnoreLoadError" \notin Dev THEN Fail("load-error")
     ELSE /\ pc' = "loaded"
          \* what is in force is the policy that was parsed: the file's policy only if the whole file was
          /\ loaded' = (complete /\ fault \notin {"unknownsyscall", "foreignsyscall", "nosyscalls", "kernelrefuses", "seccompdenied", "badyaml", "wrongtype", "unknownaction"})
          /\ events' = Append(events, "seccomp-ok")
          /\ UNCHANGED <<fault, parsed, targetStarted, exitCode, complete>> /\ UNCHANGED fvars
Exec ==
  /\ pc = "loaded"
  /\ IF fault = "notarget" \/ (fault = "execdenied" /\ "ExecveAppended" \notin Dev) THEN Fail("exec-error")
     ELSE /\ pc' = "spawned" /\ targetStarted' = TRUE /\ events' = Append(events, "execve-target")
          /\ UNCHANGED <<fault, parsed, loaded, exitCode, complete>> /\ UNCHANGED fvars
Exit ==
  /\ pc = "spawned" /\ pc' = "exited" /\ exitCode' = 0
  /\ UNCHANGED <<fault, parsed, loaded, targetStarted, events, complete>> /\ UNCHANGED fvars
Next == Args \/ Parse \/ Load \/ Exec \/ Exit
Spec == Init /\ [][Next]_vars

\* C15
ExecOnlyUnderFilter == targetStarted => (parsed /\ loaded)
FailureExitsNonZeroWithoutTarget ==
  (pc = "exited" /\ fault # "none") => (exitCode # 0 /\ ~targetStarted)
\* the target only ever runs under the policy of the whole file
WholeFileEnforced == targetStarted => complete
HappyPathRuns == (pc = "exited" /\ fault = "none") => (exitCode = 0 /\ targetStarted)
---------------------------------------------------------------------------
(* "the target observes exactly the policy's decisions", per action: what  *)
(* a thread of the target sees when the filter answers its system call     *)
(* with action a (no tracer attached; the probe calls do not exist in the  *)
(* kernel, so "runs" shows as ENOSYS).                                     *)
Actions == {"kill_thread", "kill_process", "trap", "errno", "trace", "log", "allow"}
Observes(a) == CASE a \in {"allow", "log"} -> "runs"
                 [] a = "trace" -> "ENOSYS"            \* no tracer: the kernel fails the call with ENOSYS
                 [] a = "errno" -> "EPERM"
                 [] a = "kill_thread" -> "thread gone"
                 [] a = "kill_process" -> "process killed by SIGSYS"
                 [] a = "trap" -> "SIGSYS delivered"
\* parsePolicy hands the unpacked policy to LoadFilter as it is
Enforced(a) == IF "ZeroMeansUnset" \in Dev /\ a = "kill_thread" THEN "errno" ELSE a
\* ... for every call the target makes, its own execve included: what the default action a answers to a call that no group names
Calls == {"probe", "execve"}
EnforcedFor(call, a) == IF "ExecveAppended" \in Dev /\ call = "execve" /\ a \notin {"allow", "log"} THEN "allow" ELSE Enforced(a)
PolicyAsWritten == \A a \in Actions, call \in Calls : Observes(EnforcedFor(call, a)) = Observes(a)

\* the strace view: no execve of the target before a successful seccomp
TraceOrder ==
  \A i \in 1..Len(events) : events[i] = "execve-target" => \E j \in 1..(i - 1) : events[j] = "seccomp-ok"
=============================================================================
