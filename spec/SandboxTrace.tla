---------------------------- MODULE SandboxTrace ----------------------------
(***************************************************************************)
(* Trace validation for cmd/sandbox (C15): the sequence of prctl, seccomp, *)
(* execve and exit events of the sandbox process and its children recorded *)
(* with strace -f must be a behaviour of Sandbox.tla.  Events:             *)
(*   [ev |-> "begin", fault]          a new run (resets the state machine) *)
(*   [ev |-> "seccomp", ok]           seccomp(SET_MODE_FILTER) returned    *)
(*   [ev |-> "execve", target, ok]    an execve (of the target or not)     *)
(*   [ev |-> "exit", code]            the sandbox process exited           *)
(***************************************************************************)
EXTENDS Sandbox, Json
CONSTANT TraceFile
Trace == ndJsonDeserialize(TraceFile)
VARIABLE l
tvars == <<vars, l>>

TInit == Init /\ l = 1
Begin == /\ l <= Len(Trace) /\ Trace[l].ev = "begin"
         /\ pc' = "start" /\ fault' = Trace[l].fault /\ parsed' = FALSE /\ loaded' = FALSE
         /\ targetStarted' = FALSE /\ exitCode' = -1 /\ events' = <<>> /\ l' = l + 1
         /\ big' = FALSE /\ atEnd' = FALSE /\ complete' = FALSE
\* unlogged steps of the program (argument handling, parsing)
Silent == (Args \/ Parse) /\ pc' # "exited" /\ UNCHANGED l
SeccompOK == /\ l <= Len(Trace) /\ Trace[l].ev = "seccomp" /\ Trace[l].ok
             /\ Load /\ pc' = "loaded" /\ l' = l + 1
SeccompFail == /\ l <= Len(Trace) /\ Trace[l].ev = "seccomp" /\ ~Trace[l].ok
               /\ Load /\ pc' = "exited" /\ l' = l + 1
ExecTarget == /\ l <= Len(Trace) /\ Trace[l].ev = "execve" /\ Trace[l].target /\ Trace[l].ok
              /\ Exec /\ pc' = "spawned" /\ l' = l + 1
ExecFail == /\ l <= Len(Trace) /\ Trace[l].ev = "execve" /\ Trace[l].target /\ ~Trace[l].ok
            /\ UNCHANGED vars /\ l' = l + 1          \* PATH lookup attempts that fail with ENOENT
ExitEv == /\ l <= Len(Trace) /\ Trace[l].ev = "exit"
          /\ \/ (Exit /\ exitCode' = Trace[l].code)
             \/ ((Args \/ Parse \/ Load \/ Exec) /\ pc' = "exited" /\ exitCode' = Trace[l].code)
             \* the failing step was logged itself (a refused seccomp call): the exit event reports the status it led to
             \/ (pc = "exited" /\ exitCode = Trace[l].code /\ UNCHANGED vars)
          /\ l' = l + 1
TNext == Begin \/ Silent \/ SeccompOK \/ SeccompFail \/ ExecTarget \/ ExecFail \/ ExitEv
TSpec == TInit /\ [][TNext]_tvars
NotAccepted == l <= Len(Trace)
Small == [l |-> l, pc |-> pc]
=============================================================================
