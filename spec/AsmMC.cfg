CONSTANTS
  N = 5
  MaxSkip = 2
  Algo = "legacy"
  PerBranch = FALSE
SPECIFICATION Spec
INVARIANTS Correct NoBackwardError UselessOnlyIf Consistent
CHECK_DEADLOCK FALSE
