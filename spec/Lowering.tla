------------------------------ MODULE Lowering ------------------------------
(***************************************************************************)
(* The lowering of the six order/equality operations on 64-bit values to   *)
(* tests on 32-bit halves, as emitted by SyscallWithConditions.Assemble    *)
(* (Compile!EmitCond), stated as decision trees over the halves, and the   *)
(* lemma that each tree decides the relation on the whole values.          *)
(*                                                                         *)
(* The module is parametric in the half size B:                            *)
(*   - TLC instantiates it with B = 2^W (LoweringBind.tla) and checks that *)
(*     the trees agree with what the compiler model's programs compute,    *)
(*     for all operands at W = 2 - which binds the trees to the code       *)
(*     (the model's programs equal the real compiler's, instruction for    *)
(*     instruction: drift = 0 in C02's replay);                            *)
(*   - Apalache proves LowerOK symbolically for B = 2^32 and unbounded     *)
(*     a, v < B*B (apalache-mc check --cinit=CInit --length=0              *)
(*     --inv=LowerOK), i.e. at the full 64-bit width TLC cannot reach.     *)
(* The two bit operations are not here: & at 64 bits is outside linear     *)
(* arithmetic; they rest on the exhaustive small widths and the            *)
(* AND-homomorphic embeddings (DESIGN 3.1).                                *)
(***************************************************************************)
EXTENDS Integers

CONSTANT
  \* @type: Int;
  B

VARIABLES
  \* @type: Int;
  a,
  \* @type: Int;
  v

Hi(x) == x \div B
Lo(x) == x % B

\* jne hi -> noMatch ; lo: jeq -> match / noMatch
TreeEqual(ah, al, vh, vl) == IF ah # vh THEN FALSE ELSE al = vl
\* jne hi -> match ; lo: jne -> match / noMatch
TreeNotEqual(ah, al, vh, vl) == IF ah # vh THEN TRUE ELSE al # vl
\* jgt hi -> match ; jne hi -> noMatch ; lo: jgt -> match / noMatch
TreeGreaterThan(ah, al, vh, vl) == IF ah > vh THEN TRUE ELSE IF ah # vh THEN FALSE ELSE al > vl
TreeGreaterOrEqual(ah, al, vh, vl) == IF ah > vh THEN TRUE ELSE IF ah # vh THEN FALSE ELSE al >= vl
\* jlt hi -> match ; jne hi -> noMatch ; lo: jlt -> match / noMatch
TreeLessThan(ah, al, vh, vl) == IF ah < vh THEN TRUE ELSE IF ah # vh THEN FALSE ELSE al < vl
TreeLessOrEqual(ah, al, vh, vl) == IF ah < vh THEN TRUE ELSE IF ah # vh THEN FALSE ELSE al <= vl

CInit == B = 65536 * 65536     \* 2^32 (written as a product: TLC cannot read the literal)
Init == a \in Nat /\ v \in Nat /\ a < B * B /\ v < B * B
Next == UNCHANGED <<a, v>>

LowerOK ==
  /\ TreeEqual(Hi(a), Lo(a), Hi(v), Lo(v)) <=> a = v
  /\ TreeNotEqual(Hi(a), Lo(a), Hi(v), Lo(v)) <=> a # v
  /\ TreeGreaterThan(Hi(a), Lo(a), Hi(v), Lo(v)) <=> a > v
  /\ TreeGreaterOrEqual(Hi(a), Lo(a), Hi(v), Lo(v)) <=> a >= v
  /\ TreeLessThan(Hi(a), Lo(a), Hi(v), Lo(v)) <=> a < v
  /\ TreeLessOrEqual(Hi(a), Lo(a), Hi(v), Lo(v)) <=> a <= v
\* a deliberately wrong tree (>= on the high half): Apalache must refute it (self-test)
WrongTree(ah, al, vh, vl) == IF ah >= vh THEN TRUE ELSE FALSE
WrongOK == WrongTree(Hi(a), Lo(a), Hi(v), Lo(v)) <=> a > v
=============================================================================
