----------------------------- MODULE CompileGen -----------------------------
(***************************************************************************)
(* TLC as evaluator: writes the policies of a scope, the event sequence,   *)
(* the reference decision of every event (Decide) / the expected rejection *)
(* (HasDefect) and the program the compiler model emits, for replay on the *)
(* real compiler (polreplay).  Line 1 is the header with the events.       *)
(***************************************************************************)
EXTENDS CompileScopes, Json
CONSTANTS OutFile, Stride, Offset, Le, WithModel

RECURSIVE Pols(_)
Pols(n) == IF n = 1 THEN {<<g>> : g \in GroupSet(Scope)}
           ELSE {Append(gs, g) : gs \in Pols(n - 1), g \in GroupSet(Scope)}
AllGroups(dummy) == UNION {Pols(n) : n \in 1..MaxGroups(Scope)}
All == IF Explicit(Scope) THEN SetToSeq(ExplicitPolicies(Scope))
       ELSE SetToSeq({Mk(d, x, gs) : d \in Defaults(Scope), x \in Targets(Scope), gs \in AllGroups(0)})
\* one case of every block of Stride consecutive ones, its place rotating from block to block (a fixed residue would follow
\* the period of whichever field of the policies varies fastest in TLC's order and could leave out a whole sub-family)
Picked == SelectSeq([i \in 1..Len(All) |-> i], LAMBDA i : (i + (i \div Stride)) % Stride = Offset)

Events == EventSeq(Scope)
OutInst(x) == [k |-> x.k, c |-> x.c, v |-> x.v, st |-> x.st, sf |-> x.sf]
Case(p) ==
  LET c == IF WithModel THEN Compile(p, Le) ELSE [err |-> "skipped", insts |-> <<>>] IN
  [pol |-> p,
   reject |-> HasDefect(p),
   ideal |-> IF HasDefect(p) THEN <<>> ELSE [i \in 1..Len(Events) |-> Decide(p, Events[i])],
   ideal_x32 |-> IF HasDefect(p) \/ ~p.x86 THEN <<>> ELSE [i \in 1..Len(Events) |-> DecideX32Target(p, Events[i])],
   model |-> [err |-> c.err, le |-> Le,
              prog |-> [i \in 1..Len(c.insts) |-> OutInst(c.insts[i])]]]
Header == [scope |-> Scope, w |-> W, x32bit |-> X32Bit, nsys |-> NSys, events |-> Events,
           total |-> Len(All), observes |-> [d \in Decisions |-> KernelObserves(d)]]
Out == <<Header>> \o [n \in 1..Len(Picked) |-> Case(All[Picked[n]])]
\* The export runs as the single step of a one-variable behaviour, so that it
\* is evaluated by a worker thread (whose stack honours -Xss; real-scale
\* policies recurse once per instruction).
VARIABLE done
Init == done = FALSE
Next == /\ ~done
        /\ ndJsonSerialize(OutFile, Out)
        /\ PrintT(<<"exported", Len(Picked), "of", Len(All)>>)
        /\ done' = TRUE
Spec == Init /\ [][Next]_done
=============================================================================
