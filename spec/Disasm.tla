------------------------------- MODULE Disasm -------------------------------
(***************************************************************************)
(* cmd/seccomp-profiler/disasm/disasm.go (C16): parser.Parse with          *)
(* parseX86_64 and findSyscallNum as a state machine over LINE KINDS.      *)
(*                                                                         *)
(* A line is a record:                                                     *)
(*   [k |-> "T", f |-> "fn" | "wrap" | "bare" | "five"]                    *)
(*        function marker: an ordinary function, a syscall wrapper         *)
(*        (its own name contains "syscall.Syscall(SB)"), the bare          *)
(*        4-character marker "TEXT", the 5-character marker "TEXT "        *)
(*   [k |-> "MovAX", n]   MOVQ $n, AX     (number load for a raw site)     *)
(*   [k |-> "MovSP", n]   MOVQ $n, 0(SP)  (number load for a wrapper call) *)
(*   [k |-> "Sys"]        raw syscall instruction, full objdump layout     *)
(*   [k |-> "SysShort"]   raw syscall instruction with < 4 fields          *)
(*   [k |-> "Call"]       CALL syscall.Syscall(SB)                         *)
(*   [k |-> "Xor"]        XORL AX, AX                                      *)
(*   [k |-> "Other"], [k |-> "Blank"]                                      *)
(* n ranges over Nums; InTable(n) says whether the architecture's table    *)
(* has it.                                                                 *)
(*                                                                         *)
(* State: pos (lines consumed), function, window (0-based indices of the   *)
(* lines in the instruction window), found (reported syscalls as           *)
(* [num, site, load] line indices; load = -1 for the XORL special case),   *)
(* status running | ok | error | panic.                                    *)
(*                                                                         *)
(* Dev - behaviours of the pinned commit removed by "fix:" commits:        *)
(*   "StaleErr"     a read error returned (partial result, nil)            *)
(*   "SliceFixed"   line[5:] on the bare marker and fields[3:] on short    *)
(*                  lines panicked                                         *)
(***************************************************************************)
EXTENDS Integers, Sequences, FiniteSets, TLC
CONSTANTS Nums, TableNums, Dev

InTable(n) == n \in TableNums

Kinds ==
  {[k |-> "T", f |-> f] : f \in {"fn", "wrap", "bare", "five"}}
  \cup {[k |-> "MovAX", n |-> n] : n \in Nums} \cup {[k |-> "MovSP", n |-> n] : n \in Nums}
  \cup {[k |-> x] : x \in {"Sys", "SysShort", "Call", "Xor", "Other", "Blank"}}

\* one loop iteration of parser.Parse on line `ln` (0-based index pos)
\* s = [function, window, found, status]
ParseLine(s, ln, pos, lines) ==
  LET win == Append(s.window, pos) IN
  IF ln.k = "T" THEN
     IF ln.f = "bare" /\ "SliceFixed" \in Dev THEN [s EXCEPT !.status = "panic"]
     ELSE [s EXCEPT !.function = IF ln.f \in {"bare", "five"} THEN "" ELSE ln.f, !.window = <<>>]
  ELSE
  LET raw == ln.k \in {"Sys", "SysShort"} /\ s.function # "wrap"
      call == ln.k = "Call"
      \* lastInstruction: the line before the current one in the window
      prevIsXor == Len(win) >= 2 /\ lines[win[Len(win) - 1] + 1].k = "Xor"
      loadKind == IF raw THEN "MovAX" ELSE "MovSP"
      \* findSyscallNum: latest matching line in the window
      cands == {i \in 1..Len(win) : lines[win[i] + 1].k = loadKind}
  IN
  IF ~raw /\ ~call THEN [s EXCEPT !.window = win] ELSE
  IF raw /\ prevIsXor THEN
     IF ln.k = "SysShort"
     THEN (IF "SliceFixed" \in Dev THEN [s EXCEPT !.status = "panic"] ELSE [s EXCEPT !.window = win])   \* WARN, continue
     ELSE \* read(2) of cgo binaries: number 0
          IF InTable(0) THEN [s EXCEPT !.window = <<>>, !.found = Append(@, [num |-> 0, site |-> pos, load |-> -1])]
          ELSE [s EXCEPT !.window = <<>>]
  ELSE
  IF ln.k = "SysShort" THEN (IF "SliceFixed" \in Dev THEN [s EXCEPT !.status = "panic"] ELSE [s EXCEPT !.window = win]) ELSE
  IF cands = {} THEN [s EXCEPT !.window = win]                                 \* WARN: number load not found
  ELSE LET i == CHOOSE i \in cands : \A j \in cands : j <= i
           n == lines[win[i] + 1].n IN
       IF InTable(n) THEN [s EXCEPT !.window = <<>>, !.found = Append(@, [num |-> n, site |-> pos, load |-> win[i]])]
       ELSE [s EXCEPT !.window = <<>>]                                          \* WARN: unknown syscall

VARIABLES lines, st, readerr
vars == <<lines, st, readerr>>
CONSTANT MaxLines

Init == lines = <<>> /\ readerr = FALSE
        /\ st = [function |-> "", window |-> <<>>, found |-> <<>>, status |-> "running"]
\* the scanner delivers one more line
ReadLine(ln) ==
  /\ st.status = "running" /\ Len(lines) < MaxLines
  /\ lines' = Append(lines, ln)
  /\ st' = ParseLine(st, ln, Len(lines), lines')
  /\ UNCHANGED readerr
\* the scanner stops: end of file ...
EOF ==
  /\ st.status = "running"
  /\ st' = [st EXCEPT !.status = "ok"]
  /\ UNCHANGED <<lines, readerr>>
\* ... or a read error (token too long, I/O error)
ReadError ==
  /\ st.status = "running"
  /\ readerr' = TRUE
  /\ st' = IF "StaleErr" \in Dev THEN [st EXCEPT !.status = "ok"] ELSE [st EXCEPT !.status = "error", !.found = <<>>]
  /\ UNCHANGED lines
Next == (\E ln \in Kinds : ReadLine(ln)) \/ EOF \/ ReadError
Spec == Init /\ [][Next]_vars

---------------------------------------------------------------------------
(* C16                                                                     *)
Total == st.status # "panic"
ErrorNotPartial == readerr => (st.status = "error" /\ st.found = <<>>)
\* index of the last function marker before line i (or -1)
LastMarker(i) ==
  LET ms == {j \in 0..(i - 1) : lines[j + 1].k = "T"} IN
  IF ms = {} THEN -1 ELSE CHOOSE j \in ms : \A x \in ms : x <= j
FunctionScoped ==
  \A r \in 1..Len(st.found) :
    LET f == st.found[r] IN
    /\ (f.load >= 0 =>
          /\ f.load > LastMarker(f.site) /\ f.load < f.site
          /\ lines[f.load + 1].k \in {"MovAX", "MovSP"} /\ lines[f.load + 1].n = f.num
          \* ... and after the previous reported site
          /\ (r > 1 => f.load > st.found[r - 1].site))
    /\ (f.load = -1 => f.num = 0 /\ f.site >= 1 /\ lines[f.site].k = "Xor" /\ f.site - 1 > LastMarker(f.site))
    /\ lines[f.site + 1].k \in {"Sys", "Call"}
InTableOK == \A r \in 1..Len(st.found) : InTable(st.found[r].num)
\* appending lines never removes syscalls found before
Monotone == [][st'.status = "running" => (Len(st'.found) >= Len(st.found) /\ SubSeq(st'.found, 1, Len(st.found)) = st.found)]_vars
=============================================================================
