------------------------------ MODULE AsmTrace ------------------------------
(***************************************************************************)
(* Trace validation for Program.Assemble (C06, code -> spec).  The real    *)
(* assembler, built with the `verif` tag, reports one event per step       *)
(* (hook H3: verifAsmEvent):                                               *)
(*   init  the Program value when Assemble starts (instructions, jumps,    *)
(*         label candidates)                                               *)
(*   jump  one resolved jump: its index, the two stored skips, which       *)
(*         branches got a bridge, the program length afterwards            *)
(*   done  (emitted by the harness from Assemble's return values) error    *)
(*         text and the complete assembled program                         *)
(* Traces of many programs are concatenated; `init` doubles as the reset.  *)
(* Every event must be the one the model's step produces from the model's  *)
(* state (MaxSkip = 255), and at `done` the assembled programs must be     *)
(* equal, instruction for instruction.  On the then known-equal final      *)
(* state TLC evaluates AsmCorrect, so the refinement is judged by the      *)
(* specification on the real assembler's output.                           *)
(***************************************************************************)
EXTENDS Asm, Json
CONSTANT TraceFile

Trace == ndJsonDeserialize(TraceFile)

VARIABLES st, j, l, orig, labelAt, ok
vars == <<st, j, l, orig, labelAt, ok>>

FromInit(e) ==
  LET jumpAt(i) == CHOOSE n \in 1..Len(e.jumps) : e.jumps[n][1] = i - 1 IN
  [insts |-> [i \in 1..Len(e.insts) |->
               IF e.insts[i].k = "jif"
               THEN [I("jif", e.insts[i].c, e.insts[i].v, e.jumps[jumpAt(i)][2], e.jumps[jumpAt(i)][3])
                       EXCEPT !.id = i]
               ELSE [I(e.insts[i].k, "", e.insts[i].v, 0, 0) EXCEPT !.id = i]],
   jumps |-> [n \in 1..Len(e.jumps) |-> [index |-> e.jumps[n][1], tl |-> e.jumps[n][2], fl |-> e.jumps[n][3]]],
   labels |-> e.labels,
   err |-> ""]

Init == /\ l = 1 /\ j = 0 /\ ok = TRUE
        /\ st = NewProg /\ orig = <<>> /\ labelAt = <<>>

Reset == /\ l <= Len(Trace) /\ Trace[l].ev = "init"
         /\ st' = FromInit(Trace[l])
         /\ orig' = st'.insts
         /\ labelAt' = [x \in 1..Len(st'.labels) |->
                          IF st'.labels[x] = <<>> THEN -1 ELSE st'.labels[x][1]]
         /\ j' = Len(st'.jumps) /\ l' = l + 1 /\ ok' = TRUE

Jump == /\ l <= Len(Trace) /\ Trace[l].ev = "jump" /\ st.err = "" /\ j >= 1
        /\ LET r == ResolveJumpEv(st, j) e == Trace[l] IN
           /\ r.s.err = ""
           /\ e.index = r.ev.index /\ e.st = r.ev.st /\ e.sf = r.ev.sf
           /\ e.bt = r.ev.bt /\ e.bf = r.ev.bf /\ e.len = r.ev.len
           /\ st' = r.s
        /\ j' = j - 1 /\ l' = l + 1 /\ UNCHANGED <<orig, labelAt, ok>>

SameInst(m, r) ==
  /\ m.k = r.k
  /\ CASE m.k = "jif" -> m.c = r.c /\ m.v = r.v /\ m.st = r.st /\ m.sf = r.sf
       [] OTHER -> m.v = r.v

Done == /\ l <= Len(Trace) /\ Trace[l].ev = "done"
        /\ LET e == Trace[l] IN
           \/ /\ e.err = "" /\ j = 0 /\ st.err = ""
              /\ Len(e.out) = Len(st.insts)
              /\ \A i \in 1..Len(e.out) : SameInst(st.insts[i], e.out[i])
              /\ ok' = AsmCorrect(st.insts, orig, labelAt)
           \/ /\ e.err # "" /\ j >= 1 /\ ResolveJump(st, j).err = e.err
              /\ ok' = TRUE
        /\ l' = l + 1 /\ UNCHANGED <<st, j, orig, labelAt>>

Next == Reset \/ Jump \/ Done
Spec == Init /\ [][Next]_vars

\* the specification's own verdict on every assembled program of the trace
Refines == ok
\* the whole trace was consumed
Accepted == TLCGet("stats").diameter - 1 = Len(Trace)
=============================================================================
