------------------------------- MODULE Profile -------------------------------
(***************************************************************************)
(* cmd/seccomp-profiler/main.go (C18): from the discovered syscalls to the *)
(* emitted allow-list.                                                     *)
(*   found      sequence of discovered syscalls (names; the same syscall   *)
(*              may be discovered at several sites)                        *)
(*   blacklist  names given with -b, allow names given with -allow         *)
(*   ArchNames  the names the binary's architecture has                    *)
(* Code shape: dedup by number -> filterBlacklist -> addWhitelist -> sort. *)
(* Reference (the statement): exactly (found \ blacklist) \cup (allow \cap *)
(* ArchNames), sorted, duplicate free - for disjoint flag sets.            *)
(***************************************************************************)
EXTENDS Integers, Sequences, FiniteSets, TLC, SequencesExt
CONSTANTS Universe, ArchNames, MaxFound

ToSetS(s) == {s[i] : i \in 1..Len(s)}
\* main(): dedup by number (names and numbers are 1:1 within a table)
Dedup(found) == ToSetS(found)
FilterBlacklist(names, bl) == {n \in names : n \notin bl}
AddWhitelist(names, al) == names \cup {n \in al : n \in ArchNames}
ProfileNames(found, bl, al) == AddWhitelist(FilterBlacklist(Dedup(found), bl), al)
\* the statement
Reference(found, bl, al) == (ToSetS(found) \ bl) \cup (al \cap ArchNames)

Founds == UNION {[1..n -> (Universe \cap ArchNames)] : n \in 0..MaxFound}
Cases == {[found |-> f, bl |-> b, al |-> a] : f \in Founds, b \in SUBSET Universe, a \in SUBSET Universe}
Disjoint(c) == c.bl \cap c.al = {}
\* the code shape meets the statement for disjoint flag sets; the result only contains names of the architecture
AlgebraOK == \A c \in Cases : Disjoint(c) =>
                /\ ProfileNames(c.found, c.bl, c.al) = Reference(c.found, c.bl, c.al)
                /\ ProfileNames(c.found, c.bl, c.al) \subseteq ArchNames
\* the emitted policy: allow exactly the names, errno for everything else (Compile.tla's Decide on one allow group)
Allows(names, n) == IF n \in names THEN "allow" ELSE "errno|EPERM"
=============================================================================
