------------------------------- MODULE Profile -------------------------------
(***************************************************************************)
(* cmd/seccomp-profiler/main.go (C18): from the discovered syscalls to the *)
(* emitted allow-list.                                                     *)
(*   found      sequence of discovered syscalls (names; the same syscall   *)
(*              may be discovered at several sites)                        *)
(*   blacklist  names given with -b, allow names given with -allow         *)
(*   ArchNames  the names the binary's architecture has                    *)
(* Code shape: dedup by number -> filterBlacklist -> addWhitelist -> sort. *)
(* Reference (the statement): exactly (found \ blacklist) \cup (allow \cap *)
(* ArchNames), sorted, duplicate free - for disjoint flag sets.            *)
(*                                                                         *)
(* Where it goes: standard output, or the file named by -out - a new file, *)
(* or one that exists already and holds an earlier (possibly longer)       *)
(* profile.  File contents are sequences of lines.                         *)
(* Dev "NoTruncate" (a seeded change, not in the tree): the -out file is   *)
(* opened without truncation, so the tail of a longer earlier profile      *)
(* stays behind the new one.                                               *)
(***************************************************************************)
EXTENDS Integers, Sequences, FiniteSets, TLC, SequencesExt
CONSTANTS Universe, ArchNames, MaxFound, Dev

ToSetS(s) == {s[i] : i \in 1..Len(s)}
\* main(): dedup by number (names and numbers are 1:1 within a table)
Dedup(found) == ToSetS(found)
FilterBlacklist(names, bl) == {n \in names : n \notin bl}
AddWhitelist(names, al) == names \cup {n \in al : n \in ArchNames}
ProfileNames(found, bl, al) == AddWhitelist(FilterBlacklist(Dedup(found), bl), al)
\* the statement
Reference(found, bl, al) == (ToSetS(found) \ bl) \cup (al \cap ArchNames)

Founds == UNION {[1..n -> (Universe \cap ArchNames)] : n \in 0..MaxFound}
Cases == {[found |-> f, bl |-> b, al |-> a] : f \in Founds, b \in SUBSET Universe, a \in SUBSET Universe}
Disjoint(c) == c.bl \cap c.al = {}
\* the code shape meets the statement for disjoint flag sets; the result only contains names of the architecture
AlgebraOK == \A c \in Cases : Disjoint(c) =>
                /\ ProfileNames(c.found, c.bl, c.al) = Reference(c.found, c.bl, c.al)
                /\ ProfileNames(c.found, c.bl, c.al) \subseteq ArchNames
\* the destination: what the file named by -out holds afterwards, given what it held before (<<>> = it did not exist)
Dests == {"stdout", "newfile", "existing"}
WriteOut(prior, new) == IF "NoTruncate" \in Dev /\ Len(prior) > Len(new) THEN new \o SubSeq(prior, Len(new) + 1, Len(prior)) ELSE new
OutputIsTheProfile == \A n \in 0..3, k \in 0..5 :
                        LET new == [i \in 1..n |-> "new"] prior == [i \in 1..k |-> "old"] IN WriteOut(prior, new) = new
\* the emitted policy: allow exactly the names, errno for everything else (Compile.tla's Decide on one allow group)
Allows(names, n) == IF n \in names THEN "allow" ELSE "errno|EPERM"
=============================================================================
