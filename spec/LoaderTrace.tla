---------------------------- MODULE LoaderTrace ----------------------------
(***************************************************************************)
(* Trace validation for thread-sync coverage (C10, code -> spec).          *)
(*                                                                         *)
(* tsyncchild records, per OS thread and in that thread's program order    *)
(* only, a sequence of probes: (saw, filtered) - `saw` is the value of the *)
(* atomic flag the loading thread sets after LoadFilter returned, read     *)
(* before the probe; `filtered` whether the kernel denied the probe.       *)
(* Threads share no state but the process-wide load, whose steps (the      *)
(* actions of Loader.tla, unlogged) are monotone, so a recording is a      *)
(* behaviour of the specification iff every thread's log is, on its own,   *)
(* consistent with some placement of those steps.  The trace is therefore  *)
(* a concatenation of per-thread segments:                                 *)
(*   begin  role (loader | other | child), flags, logged load result       *)
(*   probe  saw, filtered                                                  *)
(* `begin` resets the Loader state to a fresh process in which the thread  *)
(* `ld` is about to call LoadFilter; the observed thread is ld (loader),   *)
(* ot (existed before the load) or ch (created at an unlogged moment by a  *)
(* runtime thread).  The library and environment steps of Loader.tla are   *)
(* the silent steps between the logged probes.                             *)
(*                                                                         *)
(* Acceptance is reachability of the end of the trace: the cfg states the  *)
(* INVARIANT NotAccepted, and TLC *violating* it means the trace is a      *)
(* behaviour of the specification.                                         *)
(***************************************************************************)
EXTENDS Loader, Json
CONSTANT TraceFile

Trace == ndJsonDeserialize(TraceFile)

VARIABLES l, role, seg
tvars == <<vars, l, role, seg>>

Obs == CASE role = "loader" -> "ld" [] role = "other" -> "ot" [] OTHER -> "ch"
FlagsOf(e) == (IF e.tsync THEN {"TSYNC"} ELSE {}) \cup (IF e.log THEN {"LOG"} ELSE {})

TInit == Init /\ l = 1 /\ role = "none" /\ seg = 0

Begin ==
  /\ l <= Len(Trace) /\ Trace[l].ev = "begin"
  /\ role' = Trace[l].role
  /\ threads' = {"ld", "ot"}
  /\ chain' = [t \in Threads |-> <<>>] /\ nnp' = [t \in Threads |-> FALSE]
  /\ strict' = [t \in Threads |-> FALSE] /\ priv' = TRUE
  \* the call has been made; its steps follow silently
  /\ pc' = "assemble" /\ kind' = "load" /\ m' = "ld" /\ locked' = FALSE
  /\ req' = [nnp |-> TRUE, flags |-> FlagsOf(Trace[l]), pol |-> "valid", pid |-> 0]
  /\ res' = "none" /\ fid' = 1 /\ loads' = 0 /\ kret' = NoKret /\ synced' = {}
  /\ l' = l + 1 /\ seg' = l

\* the silent steps: the library's own, thread creation, the migration attempt
Silent ==
  /\ role # "none"
  /\ \/ LF_Assemble \/ LF_Prctl \/ LF_Seccomp
     \/ (Return /\ res = Trace[seg].result)
     \/ \E t \in threads : AttemptMigrate(t)
     \/ (role = "child" /\ ThreadCreate("ot", "ch"))
  /\ UNCHANGED <<l, role, seg>>

\* a logged probe of the observed thread
Probe ==
  /\ l <= Len(Trace) /\ Trace[l].ev = "probe" /\ role # "none"
  /\ Obs \in threads
  \* the flag is set after LoadFilter returned
  /\ Trace[l].saw => (pc = "idle" /\ loads = 1)
  /\ Trace[l].filtered = InForce(Obs, 1)
  /\ l' = l + 1
  /\ UNCHANGED <<vars, role, seg>>

TNext == Begin \/ Silent \/ Probe
TSpec == TInit /\ [][TNext]_tvars

NotAccepted == l <= Len(Trace)
Small == [l |-> l, pc |-> pc]
=============================================================================
