----------------------------- MODULE CompileMC -----------------------------
(***************************************************************************)
(* Exhaustive check of the compiler model over a scope.  The policy is     *)
(* built group by group (action AddGroup), so every policy of 1..MaxGroups *)
(* groups is a reachable state; in every state the compiled program is run *)
(* on every event of the scope and compared with the reference semantics.  *)
(***************************************************************************)
EXTENDS CompileScopes

CONSTANT NShards
VARIABLES pol, shard
vars == <<pol, shard>>

\* The first step picks a policy of the scope (first group for product
\* scopes).  The policies are dealt to NShards initial states so that all
\* workers take part, and so that every compilation is evaluated by a worker
\* thread (whose stack honours -Xss; real-scale policies recurse deeply).
NoPol == Mk("none", FALSE, <<>>)
Firsts(dummy) ==
  IF Explicit(Scope) THEN SetToSeq(ExplicitPolicies(Scope))
  ELSE SetToSeq({Mk(d, x, <<g>>) : d \in Defaults(Scope), x \in Targets(Scope), g \in GroupSet(Scope)})
\* a constant-level definition: TLC evaluates it once and caches the value (a LET inside the action would be
\* re-evaluated for every use)
FirstsSeq == Firsts(0)
Init == pol = NoPol /\ shard \in 0..(NShards - 1)
Pick == /\ pol = NoPol
        /\ \E i \in 1..Len(FirstsSeq) : i % NShards = shard /\ pol' = FirstsSeq[i]
        /\ UNCHANGED shard
AddGroup == /\ pol # NoPol
            /\ ~Explicit(Scope)
            /\ Len(pol.groups) < MaxGroups(Scope)
            /\ \E g \in GroupSet(Scope) : pol' = [pol EXCEPT !.groups = Append(@, g)]
            /\ UNCHANGED shard
Next == Pick \/ AddGroup
Spec == Init /\ [][Next]_vars

Events == EventSeq(Scope)
Native(ev) == ev.arch = "own" /\ ~(pol.x86 /\ ev.nr >= X32Bit)

OKFor(le) ==
  LET c == Compile(pol, le) IN
  c.err = "" =>
    \A i \in 1..Len(Events) : RunEv(c.insts, Events[i], le) = Decide(pol, Events[i])

\* C01 / C02 / C03 (and C04's decisions): the program decides like the reference
DecisionOK == pol # NoPol => (OKFor(TRUE) /\ OKFor(FALSE))

\* C04: foreign and x32 events execute nothing but the prologue and one return
PathOK ==
  LET c == Compile(pol, TRUE) IN
  (pol # NoPol /\ c.err = "") =>
    \A i \in 1..Len(Events) :
      ~Native(Events[i]) =>
        LET path == Path(c.insts, Data(Events[i], TRUE))
            plen == PrologueLen(pol, c.insts) IN
        \A k \in 1..Len(path) :
           \/ path[k] < plen
           \/ k = Len(path) /\ c.insts[path[k] + 1].k = "ret"

\* C05: a valid seccomp filter with a closed return set
ValidOK ==
  \A le \in BOOLEAN :
    LET c == Compile(pol, le) IN
    (pol # NoPol /\ c.err = "") => /\ KernelAccepts(c.insts)
                  /\ RetSet(c.insts) \subseteq AllowedRets(pol)

\* C07: rejected exactly when defective (entries carry >= 1 condition in all scopes)
RejectOK == pol # NoPol => ((Compile(pol, TRUE).err # "") <=> HasDefect(pol))
=============================================================================
