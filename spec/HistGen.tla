------------------------------ MODULE HistGen ------------------------------
(* Exports histories of Hist.tla for the replay on the real library        *)
(* (lib/histfam.py, harness/cmd/histreplay):                               *)
(*   - every ordered pair of RELATED calls: both carry a policy value and  *)
(*     the two values are equal or differ in one field (the data bits of   *)
(*     the action, the operand, the shape) - whatever the operations       *)
(*     (compile / dump / load), tables and NoNewPrivs settings;            *)
(*   - a rotating-stride sample of ALL ordered pairs of calls;             *)
(*   - a rotating-stride sample of the chains of three related calls;      *)
(*   - every pair <<resolve, table>> and <<resolve, resolve>> over the     *)
(*     same table (a name resolved, then the table read);                  *)
(*   - every recompilation of a value on its own;                          *)
(*   - every pair of text conversions (printing, parsing) and every pair   *)
(*     of architecture lookups.                                            *)
(* The driver draws a seeded, stratified sample from the file.             *)
EXTENDS Hist, Json, SequencesExt
CONSTANTS OutFile, Stride, Offset, Triples

CallSeq == SetToSeq(Calls)
N == Len(CallSeq)
HasPol(c) == c.op \in {"compile", "dump", "load"}
Related(a, b) == HasPol(a) /\ HasPol(b) /\ Dist(a.pol, b.pol) <= 1
Pick(k) == (k + (k \div Stride)) % Stride = Offset
PolIdx == {i \in 1..N : HasPol(CallSeq[i])}
Hists(dummy) ==
  {<<CallSeq[i], CallSeq[j]>> : <<i, j>> \in {<<x, y>> \in PolIdx \X PolIdx : Related(CallSeq[x], CallSeq[y])}}
  \cup {<<CallSeq[i], CallSeq[j]>> : <<i, j>> \in {<<x, y>> \in (1..N) \X (1..N) : Pick(x * N + y)}}
  \cup {<<CallSeq[i], CallSeq[j]>> : <<i, j>> \in {<<x, y>> \in (1..N) \X (1..N) :
            CallSeq[x].op = "resolve" /\ CallSeq[y].op \in {"resolve", "table"} /\ CallSeq[x].arch = CallSeq[y].arch}}
  \cup {<<CallSeq[i], CallSeq[j]>> : <<i, j>> \in {<<x, y>> \in (1..N) \X (1..N) :
            \/ (CallSeq[x].op \in {"text", "parse"} /\ CallSeq[y].op \in {"text", "parse"})
            \/ (CallSeq[x].op = "getinfo" /\ CallSeq[y].op = "getinfo")}}
  \cup {<<CallSeq[i]>> : i \in {x \in 1..N : CallSeq[x].op = "recompile"}}
  \cup (IF Triples
        THEN {<<CallSeq[i], CallSeq[j], CallSeq[k]>> : <<i, j, k>> \in {<<x, y, z>> \in PolIdx \X PolIdx \X PolIdx :
                 Related(CallSeq[x], CallSeq[y]) /\ Related(CallSeq[y], CallSeq[z]) /\ Pick(((x * N + y) * N + z) \div 7)}}
        ELSE {})
ASSUME JsonSerialize(OutFile, SetToSeq(Hists(0)))
=============================================================================
