-------------------------------- MODULE Asm --------------------------------
(***************************************************************************)
(* assembler.go: the label-and-jump builder (NewLabel / SetLabel / JmpIf / *)
(* JmpIfTrue / Ret / LdHi / LdLo) and Program.Assemble, transcribed        *)
(* operator by operator, with the same data structures and 0-based         *)
(* indices:                                                                *)
(*                                                                         *)
(*   p.insts   p.instructions   sequence of BPF!I records                  *)
(*   p.jumps   p.jumps          sequence of [index, tl, fl]                *)
(*   p.labels  p.labels         label id -> ascending sequence of          *)
(*                              candidate indices (bridges are prepended)  *)
(*   p.err     the error Assemble returns ("" = nil)                       *)
(*                                                                         *)
(* MaxSkip is math.MaxUint8 in the code; it is a constant here so that the *)
(* bridging logic can be explored exhaustively on programs of 6            *)
(* instructions (MaxSkip 1..3) and evaluated at real scale (MaxSkip 255).  *)
(*                                                                         *)
(* Two algorithms are kept:                                                *)
(*   Assemble        the reverse-pass algorithm of the repaired tree       *)
(*                   ("fix: assembler" commit) - the code as it is now     *)
(*   AssembleLegacy  the forward-pass algorithm of the pinned commit,      *)
(*                   kept as the documented, TLC-refuted design (used by   *)
(*                   the self-test and to explain the finding)             *)
(***************************************************************************)
EXTENDS BPF, TLC
CONSTANT MaxSkip

---------------------------------------------------------------------------
(* Builder                                                                 *)
NewProg == [insts |-> <<>>, jumps |-> <<>>, labels |-> <<>>, err |-> ""]
\* NewLabel returns a fresh id; here the id is the position in p.labels.
NewLabel(p)   == [p EXCEPT !.labels = Append(@, <<>>)]
LastLabel(p)  == Len(p.labels)
\* SetLabel marks the *next* instruction to be emitted (currentIndex()).
SetLabel(p, l) == [p EXCEPT !.labels[l] = Append(@, Len(p.insts))]
Emit(p, ins)   == [p EXCEPT !.insts = Append(@, ins)]
JmpIf(p, c, v, tl, fl) ==
  [p EXCEPT !.jumps = Append(@, [index |-> Len(p.insts), tl |-> tl, fl |-> fl]),
            !.insts = Append(@, I("jif", c, v, tl, fl))]
JmpIfTrue(p, c, v, tl) ==
  LET p1 == NewLabel(p) n == LastLabel(p1) IN SetLabel(JmpIf(p1, c, v, tl, n), n)

---------------------------------------------------------------------------
(* Shared helpers: insertAfter's slice surgery and updateIndices           *)
InsertAt(seq, idx, x) ==       \* x gets 0-based index idx
  SubSeq(seq, 1, idx) \o <<x>> \o SubSeq(seq, idx + 1, Len(seq))
Bump(i, after) == IF i >= after THEN i + 1 ELSE i
UpdateIndices(s, at) ==
  [s EXCEPT
     !.jumps  = [j \in 1..Len(s.jumps) |-> [s.jumps[j] EXCEPT !.index = Bump(@, at)]],
     !.labels = [l \in 1..Len(s.labels) |->
                   [i \in 1..Len(s.labels[l]) |-> Bump(s.labels[l][i], at)]]]

---------------------------------------------------------------------------
(* Program.Assemble, repaired tree: reverse pass                           *)

\* computeSkipN: distance to the nearest candidate of the label ahead of
\* the jump; -1 stands for the "backward jumps are not supported" error.
Ahead(s, jidx, label) ==
  SelectSeq(s.labels[label], LAMBDA c : c > jidx)
ComputeSkipN(s, jidx, label) ==
  LET a == Ahead(s, jidx, label) IN IF a = <<>> THEN -1 ELSE a[1] - jidx - 1

\* insertBridge: directly behind the jump; continue at the destination of
\* the nearest candidate (through it, if it is itself a long-jump bridge);
\* a return is copied, anything else is reached by an unconditional jump.
InsertBridge(s, jidx, label) ==
  LET near == jidx + 1 + ComputeSkipN(s, jidx, label)
      ni   == s.insts[near + 1]
      dest == IF ni.k = "ja" THEN near + 1 + ni.v ELSE near
      di   == s.insts[dest + 1]
      br   == IF di.k = "ret" THEN RetI(di.v) ELSE Ja(dest - jidx - 1)
      at   == jidx + 1
      s1   == UpdateIndices([s EXCEPT !.insts = InsertAt(s.insts, at, br)], at)
  IN [s1 EXCEPT !.labels[label] = <<at>> \o @]

\* One iteration of the loop in Program.Assemble (jump number j, 1-based
\* position in p.jumps).  `ev` is what hook H3 reports for the iteration.
ResolveJumpEv(s, j) ==
  LET jmp == s.jumps[j]
      i   == jmp.index
      dT  == ComputeSkipN(s, i, jmp.tl)
      dF  == ComputeSkipN(s, i, jmp.fl)
  IN
  IF dT < 0 \/ dF < 0 THEN [s |-> [s EXCEPT !.err = "backward"], ev |-> <<>>] ELSE
  IF dT = 0 /\ dF = 0 THEN [s |-> [s EXCEPT !.err = "useless"], ev |-> <<>>] ELSE
  LET bT0 == dT > MaxSkip
      bF0 == dF > MaxSkip \/ (bT0 /\ dF = MaxSkip)
      bT  == bT0 \/ (bF0 /\ dT = MaxSkip)
      bF  == bF0 \/ (bT /\ dF = MaxSkip)
      s1  == IF bF THEN InsertBridge(s, i, jmp.fl) ELSE s
      skF1 == IF bF THEN 0 ELSE dF
      skT1 == IF bF THEN dT + 1 ELSE dT
      s2  == IF bT THEN InsertBridge(s1, i, jmp.tl) ELSE s1
      skT == IF bT THEN 0 ELSE skT1
      skF == IF bT THEN skF1 + 1 ELSE skF1
  IN [s  |-> [s2 EXCEPT !.insts[i + 1].st = skT, !.insts[i + 1].sf = skF],
      ev |-> [index |-> i, st |-> skT, sf |-> skF, bt |-> bT, bf |-> bF,
              len |-> Len(s2.insts)]]
ResolveJump(s, j) == ResolveJumpEv(s, j).s

RECURSIVE AsmLoop(_, _)
AsmLoop(s, j) ==
  IF s.err # "" \/ j < 1 THEN s ELSE AsmLoop(ResolveJump(s, j), j - 1)
Assemble(p) == AsmLoop(p, Len(p.jumps))

---------------------------------------------------------------------------
(* Program.Assemble as of the pinned commit (forward pass).  Refuted by    *)
(* TLC (Correct fails at MaxSkip = 2 for 6-instruction programs) and on    *)
(* the real code; see known_findings.json "fixed" entry for C06.  Three    *)
(* independent mechanisms:                                                 *)
(*   - skips already stored in an instruction are not renumbered when a    *)
(*     later bridge is inserted before their target                        *)
(*   - the long-jump skip `skipN - insertAfter.index` is short by          *)
(*     jump.index                                                          *)
(*   - a bridge's own skip is never renumbered                             *)
RECURSIVE Pop(_, _)
Pop(d, jidx) ==
  IF d = <<>> THEN <<>> ELSE IF d[1] - jidx - 1 < 0 THEN Pop(Tail(d), jidx) ELSE d
FindInsertAfter(jumps, curIdx) ==
  LET cands == {j \in 1..Len(jumps) : jumps[j].index < curIdx + MaxSkip}
  IN  IF cands = {} THEN curIdx
      ELSE jumps[CHOOSE j \in cands : \A k \in cands : k <= j].index
LegacyResolveLabel(s, jidx, label) ==
  LET d1 == Pop(s.labels[label], jidx) IN
  IF d1 = <<>> THEN [s |-> s, skip |-> 0, err |-> TRUE] ELSE
  LET skipN == d1[1] - jidx - 1
      s1 == [s EXCEPT !.labels[label] = d1] IN
  IF skipN <= MaxSkip THEN [s |-> s1, skip |-> skipN, err |-> FALSE] ELSE
  LET ia == FindInsertAfter(s1.jumps, jidx)
      tgt == s1.insts[d1[1] + 1]
      bridge == IF tgt.k = "ret" THEN RetI(tgt.v) ELSE Ja(skipN - ia)
      at == ia + 1
      s2 == UpdateIndices([s1 EXCEPT !.insts = InsertAt(s1.insts, at, bridge)], at)
  IN [s |-> [s2 EXCEPT !.labels[label] = <<at>> \o @],
      skip |-> at - jidx - 1, err |-> FALSE]
LegacyResolveJump(s, j) ==
  LET jmp == s.jumps[j]
      r1 == LegacyResolveLabel(s, jmp.index, jmp.tl) IN
  IF r1.err THEN [s EXCEPT !.err = "backward"] ELSE
  LET r2 == LegacyResolveLabel(r1.s, jmp.index, jmp.fl) IN
  IF r2.err THEN [s EXCEPT !.err = "backward"] ELSE
  IF r1.skip = 0 /\ r2.skip = 0 THEN [s EXCEPT !.err = "useless"] ELSE
  \* the skips are written at the index the jump had when the iteration began
  [r2.s EXCEPT !.insts[jmp.index + 1].st = r1.skip % 256,
               !.insts[jmp.index + 1].sf = r2.skip % 256]
RECURSIVE LegacyLoop(_, _)
LegacyLoop(s, j) ==
  IF s.err # "" \/ j > Len(s.jumps) THEN s ELSE LegacyLoop(LegacyResolveJump(s, j), j + 1)
AssembleLegacy(p) == LegacyLoop(p, 1)

---------------------------------------------------------------------------
(* What any correct assembler must preserve (the refinement AsmCorrect).   *)
(* `orig` is the label program with identity tags, `labelAt[l]` the        *)
(* 0-based original index label l marks.  Land follows inserted long jumps.*)
RECURSIVE Land(_, _, _)
Land(insts, pos, fuel) ==
  IF pos + 1 > Len(insts) \/ pos < 0 THEN [k |-> "oob", id |-> 0, v |-> 0] ELSE
  LET x == insts[pos + 1] IN
  IF x.k = "ja" /\ x.id = 0 /\ fuel > 0 THEN Land(insts, pos + 1 + x.v, fuel - 1)
  ELSE [k |-> x.k, id |-> x.id, v |-> x.v]
Same(x, o) == \/ x.id = o.id /\ x.id # 0
              \/ x.k = "ret" /\ o.k = "ret" /\ x.v = o.v
BranchOK(insts, pos, skip, target) ==
  /\ skip >= 0 /\ skip <= MaxSkip
  /\ Same(Land(insts, pos + 1 + skip, 8), target)
\* orig: tagged original instructions; tgt(l): original instruction label l marks
AsmCorrect(out, orig, labelAt) ==
  /\ \A p \in 1..Len(out) :
       LET x == out[p] IN
       /\ (x.k = "jif" =>
             /\ BranchOK(out, p - 1, x.st, orig[labelAt[x.tl] + 1])
             /\ BranchOK(out, p - 1, x.sf, orig[labelAt[x.fl] + 1]))
          \* a non-jump original falls through to its original successor
       /\ (x.k = "ld" /\ x.id # 0 => Same(Land(out, p, 8), orig[x.id + 1]))
          \* an inserted long jump stays inside the program
       /\ (x.k = "ja" => x.v >= 0 /\ p + x.v + 1 <= Len(out))
     \* the originals survive, in order
  /\ LET kept == SelectSeq(out, LAMBDA x : x.id # 0) IN
       /\ Len(kept) = Len(orig)
       /\ \A i \in 1..Len(kept) : kept[i].id = i /\ kept[i].k = orig[i].k /\ kept[i].v = orig[i].v
=============================================================================
