------------------------------- MODULE AsmGen -------------------------------
(***************************************************************************)
(* TLC as evaluator: writes every label program of the AsmProgs space      *)
(* together with what the model of Program.Assemble makes of it, one JSON  *)
(* record per line, for replay against the real builder (asmreplay).       *)
(* One program of every Stride consecutive ones is written.                *)
(***************************************************************************)
EXTENDS AsmProgs, Json, SequencesExt
CONSTANTS OutFile, Stride, Offset

OutInst(x) == [k |-> x.k, c |-> x.c, v |-> x.v, st |-> x.st, sf |-> x.sf]
InInst(x)  == [k |-> x.k, v |-> x.v, t |-> x.tl, f |-> x.fl]
Case(p) ==
  LET a == Assemble(MkState(p)) IN
  [perbranch |-> PerBranch,
   insts |-> [i \in 1..Len(p) |-> InInst(p[i])],
   model |-> [err |-> a.err,
              out |-> IF a.err = "" THEN [i \in 1..Len(a.insts) |-> OutInst(a.insts[i])] ELSE <<>>]]
All == SetToSeq(Progs(0))
\* one program of every block of Stride consecutive ones, its place rotating from block to block (see CompileGen!Picked)
Picked == SelectSeq([i \in 1..Len(All) |-> i], LAMBDA i : (i + (i \div Stride)) % Stride = Offset)
Cases == [n \in 1..Len(Picked) |-> Case(All[Picked[n]])]
ASSUME ndJsonSerialize(OutFile, Cases)
ASSUME PrintT(<<"exported", Len(Cases), "of", Len(All)>>)
=============================================================================
