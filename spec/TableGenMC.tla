----------------------------- MODULE TableGenMC -----------------------------
(* Checks TableGen's invariants over all abstract kernel trees and exports *)
(* them as cases for the replay on the real generator                      *)
(* (arch/mk_syscalls_linux.go run against a local copy of the tree).       *)
EXTENDS TableGen, Json, SequencesExt
CONSTANT OutFile
VARIABLE x
Init == x = 0
Next == UNCHANGED x
Spec == Init /\ [][Next]_x

Rows(S) == SetToSeq(S)
Tab(t) == SetToSeq({[nr |-> p[1], name |-> p[2]] : p \in t})
S64 == SetToSeq(Trees64)
S32 == SetToSeq(Trees32)
SArm == SetToSeq(TreesArm)
SGen == SetToSeq(TreesGen)
Pick(s, k) == s[((k - 1) % Len(s)) + 1]
NCases == Len(S64)
Case(k) ==
  LET t64 == Pick(S64, k) t32 == Pick(S32, k) tarm == Pick(SArm, k) tgen == Pick(SGen, k) IN
  [t64 |-> Rows(t64), t32 |-> Rows(t32), arm |-> Rows(tarm.rows), armpriv |-> Rows(tarm.priv), gen |-> Rows(tgen.defs),
   expect |-> [X86_64 |-> Tab(IdealX86_64(t64)), X32 |-> Tab(IdealX32(t64)), I386 |-> Tab(Build386(t32)),
               ARM |-> Tab(IdealARM(tarm)), AARCH64 |-> Tab(IdealAARCH64(tgen))]]
Export == JsonSerialize(OutFile, [k \in 1..NCases |-> Case(k)])
BuildersIdealInv == BuildersIdeal
GeneratedUnambiguousInv == GeneratedUnambiguous
SharedIsCommonInv == SharedIsCommon
=============================================================================
