-------------------------------- MODULE Conc --------------------------------
(***************************************************************************)
(* C13: compilation is deterministic, side-effect free and race-free.      *)
(*                                                                         *)
(* Goroutines run operations of the package; an operation is a sequence of *)
(* steps, a step reads or writes one abstract location:                    *)
(*   <<"arch", v>>     the unexported Policy.arch cache of policy value v  *)
(*   <<"groups", b>>   a backing array of []SyscallGroup                   *)
(*   <<"names", b>>    a backing array of []string (Names)                 *)
(*   <<"conds", b>>    a backing array of NamesWithCondtions / Conditions  *)
(*   <<"tail", b>>     the capacity tail of a backing array                *)
(*   <<"pkg", x>>      package-level state: the arches map, the syscall    *)
(*                     tables, actionNames / filterFlagNames, Operations   *)
(* The footprints are those of the code as read (filter.go, arch/info.go): *)
(* Policy.Assemble writes only the receiver's arch cache; groups are       *)
(* compiled from by-value copies, merged condition lists are fresh slices; *)
(* everything package level is read-only after init.                       *)
(*                                                                         *)
(* Policy values: each goroutine owns one value v; `Share` says which      *)
(* backing arrays two values share (copies of one policy share all).       *)
(*                                                                         *)
(* Dev: deviations a change could introduce (none is in the code; they     *)
(* document what the race-detector run is there to catch, and the          *)
(* self-test uses them to show the invariants are not vacuous):            *)
(*   "SortNamesInPlace"   Assemble sorts the caller's Names                *)
(*   "AppendSharedTail"   Assemble appends into spare capacity of Syscalls *)
(*   "PackageCache"       a package-level cache written by Assemble        *)
(*   "SharedTextBytes"    MarshalText hands every caller the same slice    *)
(*                                                                         *)
(* Determinism: text forms iterate over maps; iteration order is a         *)
(* nondeterministic permutation.  FlagString is modelled both ways: the    *)
(* code as it is (fixed order) and under "FlagStringMapOrder" (pinned      *)
(* commit: ranged over the map).                                           *)
(***************************************************************************)
EXTENDS Integers, Sequences, FiniteSets, TLC, SequencesExt
CONSTANTS G,          \* goroutines
          Share,      \* "distinct" | "groups" | "names" | "conds" : what the policy values share
          OpsOf,      \* sequence of operation names every goroutine runs in order
          Dev

VARIABLES pcs, writes, reads
vars == <<pcs, writes, reads>>

\* backing array of kind k used by goroutine g's policy value
Back(k, g) ==
  CASE Share = "distinct" -> <<k, g>>
    [] Share = "groups"   -> <<k, 0>>                     \* copies of one policy: everything shared
    [] Share = "names"    -> IF k \in {"names"} THEN <<k, 0>> ELSE <<k, g>>
    [] Share = "conds"    -> IF k \in {"conds"} THEN <<k, 0>> ELSE <<k, g>>

R(l) == [rw |-> "r", loc |-> l]
Wr(l) == [rw |-> "w", loc |-> l]

\* step sequences (footprints) of the operations for goroutine g
Steps(op, g) ==
  CASE op = "Assemble" ->
         << R(<<"arch", g>>), R(<<"pkg", "arches">>), Wr(<<"arch", g>>),        \* p.arch == nil: GetInfo(""), cache it
            R(Back("groups", g)), R(Back("names", g)), R(<<"pkg", "tables">>),
            R(Back("conds", g)), R(<<"pkg", "operations">>) >>
         \o (IF "SortNamesInPlace" \in Dev THEN << Wr(Back("names", g)) >> ELSE <<>>)
         \o (IF "AppendSharedTail" \in Dev THEN << Wr(<<"tail", Back("groups", g)>>) >> ELSE <<>>)
         \o (IF "PackageCache" \in Dev THEN << Wr(<<"pkg", "cache">>) >> ELSE <<>>)
    [] op = "Dump" ->
         << R(<<"arch", g>>), R(Back("groups", g)), R(Back("names", g)), R(<<"pkg", "tables">>), R(Back("conds", g)) >>
    [] op = "GetInfo" -> << R(<<"pkg", "arches">>) >>
    [] op = "ActionString" -> << R(<<"pkg", "actionNames">>) >>
    [] op = "FlagString" -> << R(<<"pkg", "filterFlagNames">>) >>
    \* MarshalText returns bytes the caller may write into (append): they are the caller's own, freshly allocated - unless
    \* "SharedTextBytes" (a seeded change): one precomputed slice per named value, with spare capacity, handed to every caller
    [] op = "MarshalText" ->
         << R(<<"pkg", "actionNames">>) >>
         \o (IF "SharedTextBytes" \in Dev THEN << Wr(<<"pkg", "textbytes">>) >> ELSE << Wr(<<"own", g>>) >>)
    [] op = "Unpack" -> << R(<<"pkg", "actionNames">>), R(<<"pkg", "operations">>) >>

\* the whole step sequence of goroutine g
Prog(g) == LET RECURSIVE cat(_)
               cat(i) == IF i > Len(OpsOf) THEN <<>> ELSE Steps(OpsOf[i], g) \o cat(i + 1)
           IN cat(1)

Init == /\ pcs = [g \in G |-> 1]
        /\ writes = {} /\ reads = {}

\* two enabled steps of different goroutines conflict: same location, one a write
Conflict ==
  \E g, h \in G : g # h /\ pcs[g] <= Len(Prog(g)) /\ pcs[h] <= Len(Prog(h))
     /\ Prog(g)[pcs[g]].loc = Prog(h)[pcs[h]].loc
     /\ (Prog(g)[pcs[g]].rw = "w" \/ Prog(h)[pcs[h]].rw = "w")

Step(g) ==
  /\ pcs[g] <= Len(Prog(g))
  /\ LET s == Prog(g)[pcs[g]] IN
     /\ writes' = IF s.rw = "w" THEN writes \cup {<<g, s.loc>>} ELSE writes
     /\ reads' = IF s.rw = "r" THEN reads \cup {<<g, s.loc>>} ELSE reads
  /\ pcs' = [pcs EXCEPT ![g] = @ + 1]
Next == \E g \in G : Step(g)
Spec == Init /\ [][Next]_vars

\* C13: no data race under any interleaving
NoConflict == ~Conflict
\* the caller's policy (exported fields, backing arrays incl. capacity tail) and
\* package state are never written; only the value's own arch cache is
InputUnchanged ==
  \A w \in writes : w[2][1] \in {"arch", "own"} /\ w[2][2] = w[1]
\* goroutines do not influence each other: nothing one writes is read or written by another
Isolated ==
  \A w \in writes : \A g \in G \ {w[1]} : <<g, w[2]>> \notin reads /\ <<g, w[2]>> \notin writes

---------------------------------------------------------------------------
(* Text forms under every map iteration order.                             *)
Perms(S) == {p \in [1..Cardinality(S) -> S] : \A i, j \in 1..Cardinality(S) : i # j => p[i] # p[j]}
FlagNames == [f \in {"TSYNC", "LOG"} |-> IF f = "TSYNC" THEN "tsync" ELSE "log"]
\* FilterFlag.String for a value with the flag set fs (+ unknown bits)
FlagStrings(fs, unknownBits) ==
  LET known == fs \cap {"TSYNC", "LOG"}
      orders == IF "FlagStringMapOrder" \in Dev THEN Perms({"TSYNC", "LOG"})
                ELSE {[i \in 1..2 |-> IF i = 1 THEN "TSYNC" ELSE "LOG"]} IN
  IF Cardinality(known) = 1 /\ ~unknownBits THEN {<<FlagNames[CHOOSE f \in known : TRUE]>>}
  ELSE {SelectSeq([i \in 1..2 |-> IF o[i] \in known THEN FlagNames[o[i]] ELSE ""], LAMBDA x : x # "")
          \o (IF unknownBits THEN <<"unknown">> ELSE <<>>) : o \in orders}
\* the printed form is a function of the value
FlagStringDeterministic ==
  \A fs \in SUBSET {"TSYNC", "LOG"}, u \in BOOLEAN : Cardinality(FlagStrings(fs, u)) = 1
\* Action.Unpack ranges over actionNames looking for the name: every order finds the same action
ActionNames == {"kill_thread", "kill_process", "trap", "errno", "trace", "log", "allow"}
UnpackResults(s) == {IF \E i \in 1..Len(o) : o[i] = s THEN s ELSE "error" : o \in {SetToSeq(ActionNames)}}
\* Action.String reads the value -> name table.  The table is a literal in the code (one name per value).  Under
\* "ActionNamesInverted" (a seeded change) it is built when the package is initialised by ranging over a name -> value
\* table that also holds the alias "kill" for kill_thread: the name that survives depends on the iteration order, which
\* is fixed once per PROCESS - so only a comparison across processes can see it.
NameToValue == [n \in ActionNames \cup {"kill"} |-> IF n = "kill" THEN "kill_thread" ELSE n]
ActionStrings(a) ==
  IF "ActionNamesInverted" \in Dev
  THEN {n \in DOMAIN NameToValue : NameToValue[n] = a}      \* whichever name is written last wins
  ELSE {a}
ActionStringDeterministic == \A a \in ActionNames : Cardinality(ActionStrings(a)) = 1

---------------------------------------------------------------------------
(* Call histories for the sequential replay: every sequence of at most     *)
(* MaxHist calls over two policy values (A = Assemble, D = Dump), an       *)
(* architecture lookup, the text forms, and X: the caller exchanges the    *)
(* exported fields of its two values (each value now EQUALS what the other *)
(* was, so it must compile to what the other compiled to: the result is a  *)
(* function of the exported fields, not of what the value held earlier).   *)
CONSTANT MaxHist
\* F: a compilation that FAILS part-way (a third value whose second group names an unknown syscall, so that the first group
\* has been compiled when the error is found).  A failure is a result like any other: it must leave nothing behind that a
\* later compilation could see.
HistOps == {"A0", "A1", "D0", "D1", "G", "S", "X", "F"}
\* which policy (0 / 1) value v holds after history h; the expected result of A<v> / D<v> after h is F(Holds(h, v))
Holds(h, v) == LET swaps == Cardinality({i \in 1..Len(h) : h[i] = "X"}) IN IF swaps % 2 = 0 THEN v ELSE 1 - v
RECURSIVE HistOfLen(_)
HistOfLen(n) == IF n = 0 THEN {<<>>} ELSE {Append(h, o) : h \in HistOfLen(n - 1), o \in HistOps}
Histories(dummy) == UNION {HistOfLen(n) : n \in 1..MaxHist}
=============================================================================
