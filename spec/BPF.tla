-------------------------------- MODULE BPF --------------------------------
(***************************************************************************)
(* The classic-BPF machine restricted to what a seccomp filter may use,    *)
(* the kernel's static verifier for such filters, and the set of values a  *)
(* program can return.                                                     *)
(*                                                                         *)
(* Instructions are records; indices are 0-based as in the Go code, so     *)
(* instruction i of a program `prog` is prog[i+1].                         *)
(*                                                                         *)
(*   k  : "ld" | "ret" | "ja" | "jif"                                      *)
(*   c  : for "jif" the test: eq ne gt ge lt le set nset                   *)
(*        (golang.org/x/net/bpf JumpTest; the raw encoder maps ne/lt/le/   *)
(*        nset onto jeq/jge/jgt/jset with swapped branches, which does not *)
(*        change the meaning modelled here)                                *)
(*   v  : "ld"  -> word slot of seccomp_data (0 nr, 1 arch, 2/3 ip,        *)
(*                 4+2i / 5+2i the two halves of argument i)               *)
(*        "ret" -> returned value, "ja" -> skip, "jif" -> operand          *)
(*   st, sf : resolved skips of a "jif"                                    *)
(*   tl, fl : label ids of a "jif" before it is resolved (Asm.tla)         *)
(*   id : identity tag of an original instruction, 0 for inserted ones     *)
(***************************************************************************)
EXTENDS Integers, Sequences, FiniteSets, Bitwise

I(k, c, v, tl, fl) ==
  [k |-> k, c |-> c, v |-> v, tl |-> tl, fl |-> fl, st |-> 0, sf |-> 0, id |-> 0]
Ld(slot) == I("ld", "", slot, 0, 0)
RetI(v)  == I("ret", "", v, 0, 0)
Ja(n)    == I("ja", "", n, 0, 0)
Jif(c, v, st, sf) == [I("jif", c, v, 0, 0) EXCEPT !.st = st, !.sf = sf]

(* The eight tests of x/net/bpf on unsigned words. *)
Test(c, a, k) ==
  CASE c = "eq"   -> a = k
    [] c = "ne"   -> a # k
    [] c = "gt"   -> a > k
    [] c = "ge"   -> a >= k
    [] c = "lt"   -> a < k
    [] c = "le"   -> a <= k
    [] c = "set"  -> (a & k) # 0
    [] c = "nset" -> (a & k) = 0

(* Run: the value returned for the word array `data` (a function on 0..15),*)
(* or "FAULT" when control leaves the program (the kernel never lets such  *)
(* a program in; see KernelAccepts).  `fuel` bounds recursion: every       *)
(* instruction moves forward, so Len(prog) steps always suffice.           *)
RECURSIVE Exec(_, _, _, _, _)
Exec(prog, data, pc, acc, fuel) ==
  IF pc + 1 > Len(prog) \/ pc < 0 \/ fuel = 0 THEN "FAULT" ELSE
  LET x == prog[pc + 1] IN
  CASE x.k = "ret" -> x.v
    [] x.k = "ld"  -> Exec(prog, data, pc + 1, data[x.v], fuel - 1)
    [] x.k = "ja"  -> Exec(prog, data, pc + 1 + x.v, acc, fuel - 1)
    [] x.k = "jif" -> Exec(prog, data,
                           pc + 1 + (IF Test(x.c, acc, x.v) THEN x.st ELSE x.sf),
                           acc, fuel - 1)
Run(prog, data) == Exec(prog, data, 0, 0, Len(prog) + 2)

(* Path: the sequence of 0-based instruction indices executed.             *)
RECURSIVE PathFrom(_, _, _, _, _)
PathFrom(prog, data, pc, acc, fuel) ==
  IF pc + 1 > Len(prog) \/ pc < 0 \/ fuel = 0 THEN <<>> ELSE
  LET x == prog[pc + 1] IN
  <<pc>> \o
  CASE x.k = "ret" -> <<>>
    [] x.k = "ld"  -> PathFrom(prog, data, pc + 1, data[x.v], fuel - 1)
    [] x.k = "ja"  -> PathFrom(prog, data, pc + 1 + x.v, acc, fuel - 1)
    [] x.k = "jif" -> PathFrom(prog, data,
                               pc + 1 + (IF Test(x.c, acc, x.v) THEN x.st ELSE x.sf),
                               acc, fuel - 1)
Path(prog, data) == PathFrom(prog, data, 0, 0, Len(prog) + 2)

(***************************************************************************)
(* KernelAccepts: transcription of what bpf_check_classic() and            *)
(* seccomp_check_filter() (kernel/seccomp.c, net/core/filter.c) demand of  *)
(* the instruction kinds this library can emit:                            *)
(*   - 1 .. MaxInsns instructions                                          *)
(*   - ld: 32-bit absolute load, offset a multiple of 4 below 64, i.e. a   *)
(*     word slot in 0..15                                                  *)
(*   - ja: target pc+1+k inside the program (k is unsigned, so forward)    *)
(*   - jif: both targets pc+1+jt, pc+1+jf inside the program, skips 0..255 *)
(*   - the last instruction is a ret                                       *)
(* Together these imply that no path can fall off the end.                 *)
(***************************************************************************)
MaxInsns == 4096
InsnOK(prog, i) ==   \* i is 0-based
  LET x == prog[i + 1] n == Len(prog) IN
  CASE x.k = "ld"  -> x.v \in 0..15
    [] x.k = "ret" -> TRUE
    [] x.k = "ja"  -> x.v >= 0 /\ i + 1 + x.v < n
    [] x.k = "jif" -> /\ x.st \in 0..255 /\ x.sf \in 0..255
                      /\ i + 1 + x.st < n /\ i + 1 + x.sf < n
    [] OTHER -> FALSE
KernelAccepts(prog) ==
  /\ Len(prog) >= 1 /\ Len(prog) <= MaxInsns
  /\ \A i \in 0..(Len(prog) - 1) : InsnOK(prog, i)
  /\ prog[Len(prog)].k = "ret"

(* Every value some ret instruction of the program carries.  (Static: a    *)
(* superset of what is dynamically reachable, which is what the property   *)
(* "closed return set" is judged on.)                                      *)
RetSet(prog) == {prog[i].v : i \in {j \in 1..Len(prog) : prog[j].k = "ret"}}

(* Reachable instruction indices (0-based) in the control-flow graph.      *)
Succs(prog, i) ==
  LET x == prog[i + 1] IN
  CASE x.k = "ret" -> {}
    [] x.k = "ld"  -> {i + 1}
    [] x.k = "ja"  -> {i + 1 + x.v}
    [] x.k = "jif" -> {i + 1 + x.st, i + 1 + x.sf}
RECURSIVE ReachFrom(_, _, _)
ReachFrom(prog, seen, frontier) ==
  IF frontier = {} THEN seen ELSE
  LET nxt == (UNION {Succs(prog, i) : i \in frontier}) \ seen
      inb == {i \in nxt : i >= 0 /\ i < Len(prog)}
  IN ReachFrom(prog, seen \cup inb, inb)
Reachable(prog) == ReachFrom(prog, {0}, {0})
ReachableRetSet(prog) == {prog[i + 1].v : i \in {j \in Reachable(prog) : prog[j + 1].k = "ret"}}
=============================================================================
