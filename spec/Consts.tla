------------------------------- MODULE Consts -------------------------------
(***************************************************************************)
(* C19: constants and stubs are consistent across build targets.  A        *)
(* relational layer over FACTS EXTRACTED FROM THE CURRENT TREE at run time *)
(* (module ConstsData, written by the check from cmd/constfacts: constant  *)
(* values from the compiler's export data per GOOS/GOARCH, go/ast facts    *)
(* about the loader stubs, GetInfo per GOARCH) and from the vendored UAPI  *)
(* headers:                                                                *)
(*   Targets            sequence of [goos, goarch, builds, consts,         *)
(*                      stubs : Seq([func, returns, calls]), imports,      *)
(*                      hastable, getinfo_ok]                              *)
(*   UAPI               name -> value string, from linux/seccomp.h,        *)
(*                      linux/prctl.h, asm-generic/errno*.h                *)
(*   ENOSYSof           GOARCH -> the kernel's ENOSYS for that             *)
(*                      architecture (mips family 89, else 38)             *)
(* TLC evaluates; it does not explore.                                     *)
(***************************************************************************)
EXTENDS ConstsData, Integers, Sequences, FiniteSets, TLC

Built == {i \in 1..Len(Targets) : Targets[i].builds}
\* GOOS values that satisfy the `linux` build constraint (the real loader is compiled there, not the stubs)
LinuxFamily == {"linux", "android"}
ConstNames == {"ActionKillThread", "ActionKillProcess", "ActionTrap", "ActionErrno", "ActionTrace", "ActionLog", "ActionAllow", "ActionUserNotify",
               "FilterFlagTSync", "FilterFlagLog", "seccompSetModeStrict", "seccompSetModeFilter", "prSetNoNewPrivs", "errnoEPERM"}
\* every exposed constant equals the kernel's value on every target that builds
ConstsOK ==
  \A i \in Built :
    /\ \A n \in ConstNames : Targets[i].consts[n] = UAPI[n]
    /\ Targets[i].consts["errnoENOSYS"] =
         (IF Targets[i].goos \in LinuxFamily THEN ENOSYSof[Targets[i].goarch] ELSE UAPI["errnoENOSYS"])
    \* ... and so does every constant internal/unix exports on the target and the UAPI headers define, listed above or not
    \* (unixconsts: [name, got, want] for each of them, ENOSYS on Linux excepted: it is per architecture)
    /\ \A k \in 1..Len(Targets[i].unixconsts) : Targets[i].unixconsts[k].got = Targets[i].unixconsts[k].want
\* hence a policy compiles to the same program wherever it is compiled for a
\* given table: the values the compiler embeds do not depend on the target
SameEverywhere ==
  \A i, j \in Built : \A n \in ConstNames : Targets[i].consts[n] = Targets[j].consts[n]
\* non-Linux targets: the stubs report "unsupported" and perform no system calls - in every history of calls, since a
\* stub may keep state.  The files a non-Linux target compiles are EXECUTED on this host (cmd/stubsim built with a build
\* overlay: their build constraints stripped, the Linux-only files emptied); `stubrun` holds what was observed over all
\* histories: how often Supported() answered true, the system calls seen between the markers around a call (strace,
\* the Go runtime's own memory / signal / futex calls removed), panics.  What LoadFilter and SetNoNewPrivs return is not
\* constrained by the statement.  Only if the file set cannot be executed here (it does not build on this host) is the
\* source text consulted: Supported must return the literal false and the files must not import a system call package.
StubOps == {"Supported", "SetNoNewPrivs", "LoadFilter", "LoadFilterZero"}
RECURSIVE StubHistoriesOfLen(_)
StubHistoriesOfLen(n) == IF n = 0 THEN {<<>>} ELSE {Append(h, o) : h \in StubHistoriesOfLen(n - 1), o \in StubOps}
StubHistories(n) == UNION {StubHistoriesOfLen(k) : k \in 1..n}
StubsOK ==
  \A i \in Built : Targets[i].goos \notin LinuxFamily =>
    IF Targets[i].stubrun.executed
    THEN /\ Targets[i].stubrun.supported_true = 0
         /\ Targets[i].stubrun.syscalls = <<>>
         /\ Targets[i].stubrun.panics = 0
    ELSE /\ \A k \in 1..Len(Targets[i].stubs) :
              Targets[i].stubs[k].func = "Supported" => Targets[i].stubs[k].returns = <<"false">>
         /\ \A k \in 1..Len(Targets[i].imports) : Targets[i].imports[k] \notin {"syscall", "golang.org/x/sys/unix", "unsafe"}
\* compilation without a table fails with the unsupported-architecture error
TablesOrError ==
  \A i \in Built : Targets[i].hastable <=> Targets[i].goarch \in {"386", "amd64", "arm", "arm64"}
=============================================================================
