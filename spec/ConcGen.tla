------------------------------ MODULE ConcGen ------------------------------
(* Exports the call histories of Conc.tla for the sequential replay.       *)
EXTENDS Conc, Json
CONSTANT OutFile
NoOps == <<>>
ASSUME JsonSerialize(OutFile, SetToSeq(Histories(0)))
ASSUME FlagStringDeterministic
=============================================================================
