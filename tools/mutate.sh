#!/bin/bash
# tools/mutate.sh <file> <sed-expr> <check ids...>: apply a one-line mutation to /repo's working tree,
# make sure it builds and the pinned tests pass, run the quick checks, undo. Prints one line per check.
set -u
file=$1; expr=$2; shift 2
cd /repo
if ! git diff --quiet; then echo "repo dirty"; exit 2; fi
sed -i "$expr" "$file"
if git diff --quiet; then echo "MUTATION DID NOT APPLY: $expr"; exit 2; fi
export GOFLAGS=-mod=mod GOPROXY=off GOSUMDB=off GOTOOLCHAIN=local
if ! go build ./... 2>/tmp/mut_build.txt; then echo "does not build"; git checkout -- .; exit 2; fi
if go test -vet=off -count=1 ./... >/tmp/mut_test.txt 2>&1; then t=pass; else t=FAIL; fi
for id in "$@"; do
  (cd /verif && ./check $id quick >/tmp/mut_$id.txt 2>&1); rc=$?
  echo "mutant [$expr] tests=$t check $id rc=$rc $(grep -c VIOLATION /tmp/mut_$id.txt) violation lines"
done
git checkout -- .
