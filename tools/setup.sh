#!/bin/sh
# Offline setup: nothing to fetch. Verifies the tools the checks rely on and
# warms the Go build cache with the harness (the checks rebuild it anyway).
set -e
command -v tlc >/dev/null
command -v go >/dev/null
command -v python3 >/dev/null
mkdir -p /verif/evidence /verif/replays
exit 0
