#!/usr/bin/env python3
"""tools/seedtasks.py <round>: write one task file per property for a round of sub-agent seeding.

Creates a scratch worktree /tmp/mut/<ID> of /repo for each property and /tmp/mut/<ID>.task<round>.txt: the text of the
property, the rules (compiles with and without the tag, pinned suite passes, a demonstration that fails with the change
and passes without it, something specific needed to manifest) and one-line descriptions of the changes already kept under
seeded/ for that property (so that the new one uses another mechanism). Nothing about the machinery in /verif is in the
task. The agent prompt is then just "Read /tmp/mut/<ID>.task<round>.txt and do exactly what it says."
"""
import glob, json, os, subprocess, sys

rnd = sys.argv[1]
only = sys.argv[2:]
os.makedirs('/tmp/mut', exist_ok=True)
props = [json.loads(l) for l in open('/verif/properties.jsonl')]
for p in props:
    pid = p['id']
    if only and pid not in only:
        continue
    wt = '/tmp/mut/' + pid
    if not os.path.isdir(wt):
        subprocess.check_call(['git', '-C', '/repo', 'worktree', 'add', '--detach', wt], stdout=subprocess.DEVNULL,
                              stderr=subprocess.DEVNULL)
    os.makedirs(wt + '/_seed', exist_ok=True)
    earlier = []
    for d in sorted(glob.glob('/verif/seeded/%s*' % pid)):
        try:
            m = json.load(open(d + '/meta.json'))
        except Exception:
            continue
        s = ' '.join(m.get('summary', '').split())
        earlier.append('- ' + s[:420])
    t = f"""You are helping to evaluate a verification framework by writing ONE realistic regression ("seeded change") for the
Go library elastic/go-seccomp-bpf. You work ONLY inside your own scratch git worktree {wt} (a checkout of the library).
Do NOT read, list or touch /verif or /repo; do not look at other directories under /tmp/mut. Leave no processes behind.

Environment for every shell call (no network exists):
  export GOFLAGS=-mod=mod GOPROXY=off GOSUMDB=off GOTOOLCHAIN=local

THE PROPERTY ({pid}): {p.get('title','')}
{p['statement']}

YOUR JOB: change the library (any non-test files in the worktree; not the *_test.go files, not go.mod) so that this property
no longer holds, in the way a plausible refactoring, optimisation, "clean-up" or feature addition by a maintainer could
break it. Requirements:
 1. `go build ./...`, `go build -tags verif ./...` and `go vet ./...` style compile checks succeed, and the existing test
    suite passes with your change: `go test -vet=off -count=1 ./...` (all packages) - check it.
 2. The change must need something SPECIFIC to manifest - a particular interleaving or thread schedule, a fault or crash
    at a particular point, a multi-step sequence of calls, an unusual input (size, value, boundary, encoding), a
    particular environment (privilege, personality, missing /proc, byte order, build target), or two cooperating sites that
    each look fine alone. A change that ordinary use or any simple smoke test would expose at once is NOT wanted.
 3. It must be a real violation of the statement above as written (not merely a behaviour the statement is silent about).
 4. It must use ANOTHER MECHANISM than the changes already known for this property:
{chr(10).join(earlier) if earlier else '   (none yet)'}
 5. Keep the files with the names verif_*.go and the lines that call Verif* hooks working (they are build-tag guarded
    instrumentation); you may use them in your demonstration if useful (`-tags verif`).

DELIVERABLES (all inside {wt}):
 - the change itself, left APPLIED and UNCOMMITTED in the worktree (do not commit, do not stash);
 - {wt}/_seed/ containing a demonstration (a Go test file to be copied into the package, or a small program / shell
   script) that FAILS (non-zero exit) with your change and PASSES (exit 0) without it, and a script
   {wt}/_seed/demo.sh that runs it from scratch (copying a test file into place, running it, removing it again) and exits
   with that status; the demonstration must be deterministic (run it 3 times each way; verify "without" by
   `git stash`-free means: `git diff > /tmp/{pid}.d; git apply -R /tmp/{pid}.d; sh _seed/demo.sh; git apply /tmp/{pid}.d`);
 - {wt}/_seed/meta.json: {{"property": "{pid}", "summary": "<what was changed and why it breaks the statement>",
   "needs_to_manifest": "<what exactly is needed for the violation to show>", "files_changed": [...],
   "demo_cmd": "sh {wt}/_seed/demo.sh"}}
The directory _seed/ must not be part of the library build (no package files at the top of _seed that break `go build ./...`;
put Go files meant to be copied elsewhere under a name ending in .go.txt or in a directory with its own package that builds).

Finish with a short report: the diff summary, what is needed to manifest, and the output you observed from the demonstration
with and without the change and from the test suite.
"""
    open(f'/tmp/mut/{pid}.task{rnd}.txt', 'w').write(t)
    print(pid, len(earlier), 'earlier')
