CHECKS["C06"] = dict(
    category="model_checking",
    text="Asm.tla transcribes the builder and Program.Assemble; TLC checks the refinement AsmCorrect exhaustively over all label programs of 5 (quick) / 6 (thorough) instructions at jump limits 1..3, shared and per-branch labels. Bound to the code both ways: TLC-exported programs (plain and blown up to real scale) and seeded random programs are replayed on the real builder and judged by path equivalence; hook H3 step events of the real assembler are validated by AsmTrace.tla at the real limit 255, where TLC also evaluates AsmCorrect on the recorded outputs.",
    note="exhaustive only for small limits; at 255 programs are generated, not enumerated; conditions uninterpreted (unique operand per jump); labelprog equivalence oracle and golang.org/x/net/bpf types trusted",
    technique="TLA+ spec of the assembler + TLC exhaustive refinement check + replay of TLC cases on the real builder + TLC trace validation of hook events",
)
