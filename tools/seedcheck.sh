#!/bin/bash
# tools/seedcheck.sh <ID> [check ids...]: confirm a seeded change left by a sub-agent in /tmp/mut/<ID> (patch applied there,
# deliverables in _seed/), then run the given quick checks against that worktree (VERIF_REPO) without touching /repo.
set -u
id=$1; shift
wt=/tmp/mut/$id
export GOFLAGS=-mod=mod GOPROXY=off GOSUMDB=off GOTOOLCHAIN=local
cd $wt || exit 2
echo "== files changed:"; git status --short | grep -v _seed
cmd=$(python3 -c "import json;print(json.load(open('_seed/meta.json'))['demo_cmd'])")
echo "== build"; go build ./... && go build -tags verif ./... && echo build-ok
echo "== pinned suite with the change"; go test -vet=off -count=1 ./... 2>&1 | grep -v "no test files" | tail -3
echo "== demo WITH the change (must fail): $cmd"; (eval "$cmd") > /tmp/seed_demo_with.txt 2>&1; echo "rc=$? $(grep -c -- '--- FAIL\|^FAIL\|FAIL:' /tmp/seed_demo_with.txt) fail lines"
git diff > /tmp/seed_$id.diff
git apply -R /tmp/seed_$id.diff
echo "== demo WITHOUT the change (must pass)"; (eval "$cmd") > /tmp/seed_demo_without.txt 2>&1; echo "rc=$? $(grep -c -- '--- FAIL\|^FAIL\|FAIL:' /tmp/seed_demo_without.txt) fail lines"
git apply /tmp/seed_$id.diff
out=$(mktemp -d /tmp/seedout-XXXX)
for c in "$@"; do
  (cd /verif && VERIF_REPO=$wt VERIF_OUTDIR=$out ./check $c quick > /tmp/seed_${id}_$c.txt 2>&1); rc=$?
  echo "check $c rc=$rc $(grep -c VIOLATION /tmp/seed_${id}_$c.txt) violation lines; $(grep -m1 -A1 VIOLATION /tmp/seed_${id}_$c.txt | tail -1 | cut -c1-160)"
done
rm -rf $out
