#!/bin/bash
# tools/seedsave.sh <ID> <dest name> "<caught-by summary>": keep a confirmed seeded change under /verif/seeded/<dest>/
id=$1; dest=/verif/seeded/$2; note=$3
mkdir -p $dest
cd /tmp/mut/$id && git diff > $dest/patch.diff
cp -r _seed/* $dest/ 2>/dev/null
git diff > $dest/patch.diff
python3 - "$dest" "$note" <<'PY'
import json,sys
d,note=sys.argv[1],sys.argv[2]
m=json.load(open(d+'/meta.json'))
m['confirmed']={'by':'tools/seedcheck.sh in the scratch worktree: builds (with and without -tags verif), pinned suite passes with the change, demonstration fails with it and passes without it',
                'checks_run': note}
json.dump(m,open(d+'/meta.json','w'),indent=1)
PY
ls $dest
