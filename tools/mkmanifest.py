#!/usr/bin/env python3
"""Regenerates /verif/MANIFEST.json from the table below (keeps it valid)."""
import json
import os
import subprocess

V = os.path.dirname(os.path.dirname(os.path.abspath(__file__)))
props = [json.loads(l) for l in open(os.path.join(V, "properties.jsonl"))]

# id -> (category, text, level_note, technique, design_ref)
CHECKS = {}
exec(open(os.path.join(V, "tools", "checks_table.py")).read())

hooks = subprocess.run(["git", "-C", "/repo", "log", "--format=%H %s"], capture_output=True, text=True).stdout.splitlines()
hook_commits = [l.split()[0] for l in hooks if l.split(" ", 1)[1].startswith("verif:")]

m = {
    "version": 1,
    "setup_cmd": "cd /verif && ./tools/setup.sh",
    "hooks": {
        "guard": "verif",
        "enable": "go build -tags verif (the harness under /verif/harness is copied to a scratch dir and built there with `replace github.com/elastic/go-seccomp-bpf => /repo`)",
        "baseline_off_cmd": "cd /repo && GOFLAGS=-mod=mod GOPROXY=off GOSUMDB=off go test -json -vet=off -count=1 -timeout 25m ./...",
        "source_commits": hook_commits,
        "add_only": True,
    },
    "engines": [
        {"name": "tlc", "path": "/verif/spec", "serves_properties": sorted(CHECKS),
         "kind_free_text": "explicit TLA+ specifications (one module per Go unit, code shaped) checked with TLC: exhaustive small-scope model checking, TLC as evaluator/case generator, trace validation"},
        {"name": "harness", "path": "/verif/harness", "serves_properties": sorted(CHECKS),
         "kind_free_text": "Go conformance harness built against /repo's working tree with -tags verif: replays TLC-generated cases into the real code, records traces for the trace specifications"},
        {"name": "check", "path": "/verif/check", "serves_properties": sorted(CHECKS),
         "kind_free_text": "python driver: scratch dir, harness build, TLC runs, verdicts, evidence"},
    ],
    "checks": [],
    "notes": "Verdicts come only from behaviour of the real code that contradicts the property (replay file); model/code drift is recorded in the evidence, never reported as a violation. Exit 2 = machinery failure. See DESIGN.md.",
    "not_applicable": [],
}
for p in props:
    pid = p["id"]
    if pid in CHECKS:
        c = CHECKS[pid]
        m["checks"].append({
            "property_id": pid,
            "quick_cmd": "./check %s quick" % pid,
            "thorough_cmd": "./check %s thorough" % pid,
            "evidence_file": "/verif/evidence/%s.json" % pid,
            "replay_cmd_template": "./check %s --replay {path}" % pid,
            "engine": "tlc+harness",
            "level_claimed": {"category": c["category"], "text": c["text"], "design_ref": c.get("design_ref", "DESIGN.md section 4, " + pid)},
            "level_note": c["note"],
            "technique": c["technique"],
        })
    else:
        m["not_applicable"].append({"property_id": pid, "reason": "check not built yet (work in progress; planned per DESIGN.md section 4)"})
json.dump(m, open(os.path.join(V, "MANIFEST.json"), "w"), indent=1)
print("claimed:", sorted(CHECKS))
