#!/bin/bash
# tools/seedregress.sh [seed dirs...]: re-run the owning property's check against every kept seeded change (default: all of
# /verif/seeded/*), each applied to a scratch worktree of /repo (never /repo itself). The checks run from a snapshot of /verif
# taken at the start, so that /verif can be edited meanwhile. Prints one line per seed: caught / MISSED.
# A seed whose meta.json has "tier": "thorough" is run with the thorough tier.
set -u
export GOFLAGS=-mod=mod GOPROXY=off GOSUMDB=off GOTOOLCHAIN=local
wt=/tmp/mut/REG$$
snap=$(mktemp -d /tmp/verif-snap-XXXX)
rsync -a --exclude .git --exclude evidence --exclude replays /verif/ $snap/
git -C /repo worktree add --detach $wt HEAD > /dev/null 2>&1 || exit 2
out=$(mktemp -d /tmp/seedout-XXXX)
seeds=("$@"); [ ${#seeds[@]} -eq 0 ] && seeds=($(ls $snap/seeded))
for s in "${seeds[@]}"; do
  d=$snap/seeded/$s; id=${s%%-*}
  tier=$(python3 -c "import json;print(json.load(open('$d/meta.json')).get('tier','quick'))")
  (cd $wt && git checkout -q -- . && git clean -qfd && git apply $d/patch.diff) || { echo "$s patch does not apply"; continue; }
  (cd $snap && VERIF_REPO=$wt VERIF_OUTDIR=$out ./check $id $tier > $out/$s.txt 2>&1); rc=$?
  n=$(grep -c "^VIOLATION property=$id " $out/$s.txt)
  if [ $rc -eq 1 ] && [ $n -gt 0 ]; then echo "$s caught ($tier, $n violation lines)"; else echo "$s MISSED rc=$rc ($tier) $(tail -2 $out/$s.txt | cut -c1-200 | tr '\n' ' ')"; cp $out/$s.txt /tmp/seedregress_$s.txt; fi
done
git -C /repo worktree remove --force $wt
rm -rf $out $snap
