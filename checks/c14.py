"""C14 - text and configuration forms denote the same policy."""
import json
import os

import vlib

NAMES = ["kill_thread", "kill_process", "trap", "errno", "trace", "log", "allow", "Equal", "NotEqual", "GreaterThan", "LessThan", "GreaterOrEqual",
         "LessOrEqual", "BitsSet", "BitsNotSet", "user_notif", "unknown", "kill", "deny", "0"]


# what yaml.Marshal makes of the profiler's debug listing (cmd/seccomp-profiler writeDebugYAML)
DEBUG_SECTION = """all_syscalls:
- num: 60
  name: exit
  caller: runtime.exit
  function: runtime.exit
  location: /usr/local/go/src/runtime/sys_linux_amd64.s:57
  assembly: MOVL $0x3c, AX
- num: 1
  name: write
  caller: runtime.write1
  function: runtime.write1
  location: /usr/local/go/src/runtime/sys_linux_amd64.s:97
  assembly: MOVL $0x1, AX
"""


def check(ctx, replay=None):
    th = ctx.tier == "thorough"
    bindir = ctx.harness()
    tc = os.path.join(bindir, "textcheck")
    rc, out, err = ctx.run([tc, "-mode", "tags"], timeout=60)
    if rc != 0:
        raise vlib.Machinery("textcheck tags failed: " + err[-1000:])
    tags = json.loads(out)
    data = {"fields": tags, "chars": {n: list(n) for n in NAMES}}
    dpath = ctx.path("textdata.json")
    json.dump(data, open(dpath, "w"))
    cases_f, pols_f = ctx.path("cases.json"), ctx.path("pols.json")
    datamod = '''---- MODULE TextData ----
EXTENDS Json
Data == JsonDeserialize("%s")
Fields == Data.fields
Chars == Data.chars
MaxMaskLetters == %d
====
''' % (dpath, 14 if th else 8)
    mc = '''---- MODULE TextMC ----
EXTENDS Text, Json
ASSUME JsonSerialize("%s", SetToSeq(ActionCases \\cup OperationCases))
ASSUME JsonSerialize("%s", SetToSeq(ConfigPolicies))
VARIABLE x
Init == x = 0
Next == UNCHANGED x
Spec == Init /\\ [][Next]_x
ParsersInv == ParsersOK
RoundTripInv == RoundTripOK
TagsInv == TagsAgree
====
''' % (cases_f, pols_f)
    # the export first (no invariants: TLC stops at the first false constant-level invariant), then the invariants
    ctx.tlc("TextMC", "SPECIFICATION Spec\nCHECK_DEADLOCK FALSE\n", name="TextGen", files={"TextData.tla": datamod, "TextMC.tla": mc}, workers=1, timeout=1800, java_opts="-Xss256m")
    cfg = "SPECIFICATION Spec\nINVARIANTS ParsersInv RoundTripInv TagsInv\nCHECK_DEADLOCK FALSE\n"
    r = ctx.tlc("TextMC", cfg, files={"TextData.tla": datamod, "TextMC.tla": mc.replace(cases_f, cases_f + ".2").replace(pols_f, pols_f + ".2")}, workers=2, timeout=1800, java_opts="-Xss256m")
    if r["violated"]:
        ctx.note("TLC: %s is false for the tag tables of the current tree (the marshalled form does not read back; see the behavioural replay)" % r["violated"])
        ctx.cov["states"] += max(1, r["distinct"])
        ctx.cov["transitions"] += max(1, r["generated"])
        if r["violated"] == "ParsersInv":
            raise vlib.Machinery("the parser model itself is inconsistent")
    cases = json.load(open(cases_f))
    pols = json.load(open(pols_f))

    emit = ctx.path("emit", "x")
    emit = os.path.dirname(emit)

    def run(mode, payload):
        rc, out, err = ctx.run([tc, "-mode", mode] + (["-emit", emit] if mode == "policies" else []), input=json.dumps(payload), timeout=1200)
        if rc != 0:
            raise vlib.Machinery("textcheck %s failed: %s" % (mode, err[-1500:]))
        return json.loads(out.strip().splitlines()[-1])
    rp = run("parse", cases)
    rq = run("policies", pols)
    for res, what in ((rp, "parsers"), (rq, "configuration path")):
        ctx.cov["evaluations"] += res["checked"]
        ctx.cov["distinct_nontrivial"] += res["distinct_nontrivial"]
        for v in res["violations"]:
            ctx.violation(v.splitlines()[0], {"what": what, "detail": v, "how": "./check C14 quick (re-generates the cases with TLC and re-runs cmd/textcheck)"})
    ctx.cov["traces_validated_against_impl"] = len(pols) * 3
    # "as the sandbox command does": the real cmd/sandbox (built from the tree with one overlay file that dumps what LoadFilter is
    # about to install, hook H2) reads the documented YAML of the same policies from a FILE; what it installs must be the program
    # of the in-memory policy. Every 3rd file is blown up with comment lines to 70 KB (thorough: also 1.1 MB) at a seeded place.
    import random
    import cmdfam
    d = cmdfam.pubdir(ctx)
    sb = cmdfam.build_sandbox_dump(ctx, d)
    if sb:
        rnd = random.Random(ctx.seed)
        idxs = list(range(len(pols)))
        rnd.shuffle(idxs)
        nrun = nbig = nrefused = nsect = 0
        for n, i in enumerate(idxs[:(len(idxs) if th else 160)]):
            yml, want = os.path.join(emit, "pol_%d.yml" % i), os.path.join(emit, "pol_%d.want" % i)
            if not (os.path.exists(yml) and os.path.exists(want)):
                continue
            size = 0
            # which form of the policy the command reads: the documented YAML (two of four), or a marshalled form under the file name a user
            # would give it (what a file is called must not change what it means)
            form = ("documented YAML", "documented YAML", "json.Marshal (.json)", "yaml.Marshal (.yaml)", "documented YAML", "json.Marshal (.JSON)")[n % 6]
            alt = {"json.Marshal (.json)": "pol_%d.json", "yaml.Marshal (.yaml)": "pol_%d.m.yaml", "json.Marshal (.JSON)": "pol_%d.JSON"}.get(form)
            if alt and os.path.exists(os.path.join(emit, alt % i)):
                yml = os.path.join(emit, alt % i)
            else:
                form = "documented YAML"
            if n % 6 == 4 and form == "documented YAML" and open(yml).read().startswith("seccomp:"):
                # the document seccomp-profiler -format config -d writes: its debug section in front of the policy (and, every other time, a
                # section of some other tool behind it); the command reads the seccomp section of the document
                form = "documented YAML behind the profiler's debug section"
                body = open(yml).read()
                with open(yml, "w") as f:
                    f.write(DEBUG_SECTION + "\n" + body + ("" if n % 12 == 4 else "\nlogging:\n  level: debug\n"))
                nsect += 1
            if n % 3 == 0 and form == "documented YAML":
                lines = open(yml).read().splitlines(True)
                size = 1100000 if (th and n % 9 == 0) else 70000
                at = rnd.randrange(1, len(lines) + 1)
                lines[at:at] = ["#" + "." * 62 + "\n"] * (size // 64)
                with open(yml, "w") as f:
                    f.write("".join(lines))
                nbig += 1
            prog, rc, err = cmdfam.sandbox_installs(sb, yml, emit, str(i))
            nrun += 1
            if prog is None and rc is not None and rc > 0:
                # the command exited by itself before it had a program to install (the dump is written before the kernel is asked): it refused
                # the text of a policy that compiles in memory - that is not "the same program"
                nrefused += 1
                ctx.violation("policy %d read by the sandbox command from a %s file (%s, %s) is refused (exit %d: %s) although the equivalent in-memory policy compiles"
                              % (i, "%d-byte padded" % size if size else "plain", form, os.path.basename(yml), rc, (err or "").strip()[-160:]),
                              {"what": "cmd/sandbox configuration path", "policy": pols[i], "padding_bytes": size, "form": form, "yaml_head": open(yml).read()[:900],
                               "stderr": err, "how": "./check C14 quick"})
                continue
            if prog is None:
                nrefused += 1
                if nrefused <= 3:
                    ctx.note("the sandbox command installed nothing for policy %d (%s bytes of padding; rc %s): %s" % (i, size, rc, (err or "")[-120:]))
                continue
            if prog != open(want).read():
                ctx.violation("policy %d read by the sandbox command from a %s file (%s, %s) is installed as a different program than the in-memory policy compiles to (%d vs %d instructions)"
                              % (i, "%d-byte padded" % size if size else "plain", form, os.path.basename(yml), len(prog.splitlines()), len(open(want).read().splitlines())),
                              {"what": "cmd/sandbox configuration path", "policy": pols[i], "padding_bytes": size, "form": form, "yaml_head": open(yml).read()[:600],
                               "how": "./check C14 quick"})
        ctx.cov["evaluations"] += nrun
        ctx.cov["sandbox_command_reads"] = {"files": nrun, "padded_beyond_64KiB": nbig, "with_other_top_level_sections": nsect, "nothing_installed": nrefused}
        if nrun and nrefused > nrun // 2:
            raise vlib.Machinery("the overlay build of the sandbox installs nothing for most policies (%d of %d)" % (nrefused, nrun))
    ctx.cov["parse_cases"] = len(cases)
    ctx.cov["policies"] = len(pols)
    for s in rq["samples"][:1]:
        ctx.sample({"marshalled_yaml": s})
    ctx.sample({"parse_case": cases[0]})
    # parsing in histories of the whole interface (Hist.tla): what a word parses to does not depend on what was parsed or compiled before
    import histfam
    histfam.run(ctx)
    ctx.cov["rule"] = ("parsers: every documented action/operation name under all case masks (names of up to %d letters; a systematic family for longer ones), near misses "
                       "(prefix, suffix, blanks, one edit, empty, doubled) and foreign words, expectations computed by Text.tla; policies: every default x group action, every "
                       "operation x argument index 0-5 x 8 boundary operands up to 2^64-1, multi-condition / multi-entry / multi-group shapes, each as documented YAML (independent "
                       "renderer, three spellings), yaml.Marshal and json.Marshal, read back through ucfg as cmd/sandbox does, compiled and compared byte-wise with the literal policy; "
                       "tag tables read by reflection and judged by RoundTripOK/TagsAgree in TLC" % (12 if th else 8))
    ctx.assumptions += ["go-ucfg and yaml.v2 as vendored by the repository's go.sum are the configuration path"]
