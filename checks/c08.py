"""C08 - the installed filter enforces the policy on the running kernel."""
import json
import os

import polfam
import vlib


def kernel_replay(ctx, cases, maxcases, tag):
    bindir = ctx.harness()
    fails = ctx.path("kfail_%s.ndjson" % tag)
    summ = ctx.path("ksum_%s.json" % tag)
    rc, out, err = ctx.run([os.path.join(bindir, "polkernel"), "-in", cases, "-failures", fails, "-summary", summ,
                            "-seed", str(ctx.seed), "-max", str(maxcases)], timeout=3000)
    if rc != 0:
        raise vlib.Machinery("polkernel failed: " + err[-2000:])
    return json.load(open(summ)), vlib.read_ndjson(fails)


def check(ctx, replay=None):
    if replay:
        bindir = ctx.harness()
        rc, out, err = ctx.run([os.path.join(bindir, "polkernel"), "-replay", os.path.abspath(replay)], timeout=300)
        print(out.strip())
        if rc == 1:
            print("VIOLATION property=C08 replay=%s" % replay)
        elif rc != 0:
            raise vlib.Machinery(err[-2000:])
        return rc
    th = ctx.tier == "thorough"
    K = dict(W=8, X32Bit=64, NSys=8)
    plan = [
        dict(scope="many", kw={}, n=400 if th else 60),
        dict(scope="rich", kw={}, n=400 if th else 50),
        dict(scope="allops", kw={}, n=128 if th else 40),
        dict(scope="groups2", kw=dict(NSys=3), n=300 if th else 40),
        dict(scope="single", kw=dict(W=2, NSys=1), n=256 if th else 50),
        dict(scope="boundary", kw=dict(W=15, NSys=1), n=200 if th else 30),
        dict(scope="klong", kw=K, n=45 if th else 12),
    ]
    jobs, outs = [], []
    for i, p in enumerate(plan):
        j, out = polfam.gen_job(ctx, p["scope"], stride=1, name="%s_%d" % (p["scope"], i), with_model=False, **p["kw"])
        jobs.append(j)
        outs.append(out)
    # the design level: the loader passes the compiled program and the flags through (Loader.tla) and the compiled program decides like Decide (CompileMC)
    jobs.append(polfam.mc_job("many", ["DecisionOK"], name="MC_many", MaxSkip=255))
    jobs.append(polfam.mc_job("klong", ["DecisionOK", "ValidOK"], name="MC_klong", **K))
    ctx.tlc_many(jobs, parallel=4)
    cov = ctx.cov
    for p, out in zip(plan, outs):
        s, fails = kernel_replay(ctx, out, p["n"], p["scope"])
        cov["evaluations"] += s["probes"]
        cov["distinct_nontrivial"] += s["distinct_nontrivial"]
        cov["traces_validated_against_impl"] += s["children"]
        cov.setdefault("kernel_replays", []).append({k: s[k] for k in ("scope", "cases", "children", "probes", "fatal_probes", "skipped_children")})
        if s["skipped_children"] > s["children"] // 4:
            raise vlib.Machinery("%d of %d children could not be run" % (s["skipped_children"], s["children"]))
        for x in s["samples"] or []:
            ctx.sample(x, limit=3)
        for f in fails:
            f["how"] = "./check C08 --replay <this file>"
            ctx.violation("%s: %s" % (f["kind"], f["why"]), f)
    cov["rule"] = ("policies of the CompileScopes scopes (many, rich, allops, groups2, single, boundary, klong = programs of 250..700 instructions) concretised over "
                   "the 14 harmless probe syscalls of x86_64 with seeded argument positions and word embeddings; one fresh child per policy through the real "
                   "LoadFilter with flags in {0,tsync,log,tsync|log} and NoNewPrivs on/off; raw probes with 64-bit registers, expected errno/ENOSYS/SIGSYS "
                   "from the specification's Decide; hook H2 compares the installed sock_filter array and flags with the compiled program; "
                   "non-trivial = the policy's probes receive at least two different decisions")
    ctx.assumptions += ["host kernel only (x86_64, little endian); x32 and foreign-architecture events cannot be issued natively and are left to C04",
                        "trace / kill_thread / user_notif actions are not observed on the kernel"]
