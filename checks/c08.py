"""C08 - the installed filter enforces the policy on the running kernel."""
import json
import os

import polfam
import vlib


def kernel_replay(ctx, cases, maxcases, tag):
    bindir = ctx.harness()
    fails = ctx.path("kfail_%s.ndjson" % tag)
    summ = ctx.path("ksum_%s.json" % tag)
    rc, out, err = ctx.run([os.path.join(bindir, "polkernel"), "-in", cases, "-failures", fails, "-summary", summ,
                            "-seed", str(ctx.seed), "-max", str(maxcases)], timeout=3000)
    if rc != 0:
        raise vlib.Machinery("polkernel failed: " + err[-2000:])
    return json.load(open(summ)), vlib.read_ndjson(fails)


def strace_capture(ctx, cases, tag, n):
    """Independent capture of the installed program: strace -v decodes the sock_fprog the kernel received."""
    import re
    import subprocess
    import tempfile
    bindir = ctx.harness()
    jf = ctx.path("jobs_%s.ndjson" % tag)
    rc, out, err = ctx.run([os.path.join(bindir, "polkernel"), "-in", cases, "-failures", ctx.path("x_%s" % tag), "-summary", ctx.path("y_%s" % tag), "-seed", str(ctx.seed),
                            "-max", str(n), "-dumpjobs", jf, "-dumpn", str(n)], timeout=1200)
    if rc != 0:
        raise vlib.Machinery("polkernel -dumpjobs failed: " + err[-1000:])
    done = 0
    for row in vlib.read_ndjson(jf):
        job, want = row["job"], row["program"]
        shm = tempfile.NamedTemporaryFile(prefix="verif-strace-", dir="/dev/shm", delete=False)
        shm.truncate((16 + 4096) * 4)
        shm.close()
        job["shm"] = shm.name
        st = ctx.path("st_%s_%d.txt" % (tag, done))
        try:
            subprocess.run(["strace", "-f", "-v", "-X", "raw", "-s", "10000000", "-e", "trace=seccomp", "-o", st, os.path.join(bindir, "polkernel"), "-child"],
                           input=json.dumps(job), capture_output=True, text=True, timeout=60, env={"PATH": "/usr/bin:/bin", "GODEBUG": "asyncpreemptoff=1"})
        except subprocess.TimeoutExpired:
            ctx.skip("strace capture timed out")
            continue
        finally:
            os.unlink(shm.name)
        txt = open(st).read()
        # the policy's own load is the LAST filter installation of the child (a helper thread with a private filter, job.divergent, loads before it)
        ms = list(re.finditer(r"seccomp\((?:0x1|1), (0x[0-9a-f]+|\d+), \{len=(\d+), filter=\[(.*?)\]\}\)\s+=\s+(-?\d+)", txt, re.S))
        m = ms[-1] if ms else None
        if not m:
            ctx.skip("strace output has no decodable seccomp call")
            continue
        flags, ln, body = int(m.group(1), 0), int(m.group(2)), m.group(3)
        got = []
        for kind, args in re.findall(r"BPF_(STMT|JUMP)\(([^)]*)\)", body):
            a = []
            for x in args.split(","):
                val = 0
                for part in x.split("|"):
                    val |= int(part.strip(), 0)
                a.append(val)
            got.append([a[0], 0, 0, a[1]] if kind == "STMT" else [a[0], a[2], a[3], a[1]])
        done += 1
        ctx.cov["traces_validated_against_impl"] += 1
        if flags != job["flags"] or ln != len(want) or got != want:
            first = next((i for i, (g, w) in enumerate(zip(got, want)) if g != w), None)
            ctx.violation("strace: the program the kernel received (%d instructions, flags %#x) is not the compiled one (%d instructions, flags %#x); first difference at %s"
                          % (ln, flags, len(want), job["flags"], first),
                          {"job": job, "kernel_saw": got[:50], "compiled": want[:50], "how": "./check C08 thorough"})
    ctx.cov.setdefault("strace_captures", 0)
    ctx.cov["strace_captures"] += done


def check(ctx, replay=None):
    if replay:
        bindir = ctx.harness()
        rc, out, err = ctx.run([os.path.join(bindir, "polkernel"), "-replay", os.path.abspath(replay)], timeout=300)
        print(out.strip())
        if rc == 1:
            print("VIOLATION property=C08 replay=%s" % replay)
        elif rc != 0:
            raise vlib.Machinery(err[-2000:])
        return rc
    th = ctx.tier == "thorough"
    K = dict(W=8, X32Bit=64, NSys=8)
    plan = [
        dict(scope="many", kw={}, n=400 if th else 60),
        dict(scope="rich", kw={}, n=400 if th else 50),
        dict(scope="allops", kw={}, n=128 if th else 40),
        dict(scope="groups2", kw=dict(NSys=3), n=300 if th else 40),
        dict(scope="single", kw=dict(W=2, NSys=1), n=256 if th else 50),
        dict(scope="boundary", kw=dict(W=15, NSys=1), n=200 if th else 30),
        dict(scope="klong", kw=K, n=45 if th else 12),
        dict(scope="merge", kw={}, n=200 if th else 40),        # entries of one syscall that are not adjacent (A, B, A)
        # every action constant (incl. data bits, user_notif, a value the kernel has no case for) in one or two groups under a permissive default
        dict(scope="kactions", kw={}, n=500 if th else 70),
    ]
    jobs, outs = [], []
    for i, p in enumerate(plan):
        j, out = polfam.gen_job(ctx, p["scope"], stride=1, name="%s_%d" % (p["scope"], i), with_model=False, **p["kw"])
        jobs.append(j)
        outs.append(out)
    # the design level: the loader passes the compiled program and the flags through (Loader.tla) and the compiled program decides like Decide (CompileMC)
    jobs.append(polfam.mc_job("many", ["DecisionOK"], name="MC_many", MaxSkip=255))
    jobs.append(polfam.mc_job("klong", ["DecisionOK", "ValidOK"], name="MC_klong", **K))
    ctx.tlc_many(jobs, parallel=4)
    cov = ctx.cov
    for p, out in zip(plan, outs):
        s, fails = kernel_replay(ctx, out, p["n"], p["scope"])
        cov["evaluations"] += s["probes"]
        cov["distinct_nontrivial"] += s["distinct_nontrivial"]
        cov["traces_validated_against_impl"] += s["children"]
        cov.setdefault("kernel_replays", []).append({k: s[k] for k in ("scope", "cases", "children", "probes", "fatal_probes", "fatal_probes_by_class", "skipped_children", "inconclusive_children", "failed_loads_not_judged", "children_with_a_prior_policy", "children_with_a_divergent_thread", "children_probing_from_another_thread_after_thread_sync", "children_whose_seccomp_call_is_answered_ENOSYS")})
        if s["skipped_children"] > s["children"] // 4:
            raise vlib.Machinery("%d of %d children could not be run" % (s["skipped_children"], s["children"]))
        for x in s["samples"] or []:
            ctx.sample(x, limit=3)
        for f in fails:
            f["how"] = "./check C08 --replay <this file>"
            ctx.violation("%s: %s" % (f["kind"], f["why"]), f)
        if p["scope"] in ("many", "klong", "rich"):
            strace_capture(ctx, out, p["scope"], 8 if th else 4)
    # "the program handed to the kernel is the compiled one" at every load of a process, not only the first: histories of several loads
    # (Loader.tla) with hook H2 compared against a fresh compilation in the installing process
    import loaderfam
    loaderfam.installed_programs(ctx, "installed_differs", "the program handed to the kernel is not the compiled one", n=96 if th else 40)
    # ... and in histories of the whole interface (Hist.tla): a load that follows compilations, dumps and loads of sibling policies
    import histfam
    histfam.run(ctx)
    cov["rule"] = ("policies of the CompileScopes scopes (many, rich, allops, groups2, single, boundary, klong = programs of 250..700 instructions) concretised over "
                   "the 14 harmless probe syscalls of x86_64 with seeded argument positions and word embeddings; one fresh child per policy through the real "
                   "LoadFilter with flags in {0,tsync,log,tsync|log} and NoNewPrivs on/off; raw probes with 64-bit registers, expected observation (errno N / process killed by SIGSYS / SIGSYS delivered / "
                   "probing thread ended) from the specification's Decide and KernelObserves; hook H2 compares the installed sock_filter array and flags with the compiled program; "
                   "non-trivial = the policy's probes receive at least two different decisions")
    ctx.assumptions += ["policies whose default action is not allow/log also deny the Go runtime's own system calls: they are installed without thread-sync and a child that its own runtime "
                        "brings down before all probes are answered is counted as inconclusive, never as a violation",
                        "host kernel only (x86_64, little endian); x32 and foreign-architecture events cannot be issued natively and are left to C04",
                        "trace and user_notif are observed without a tracer / listener (the call fails with ENOSYS, which is also what an allowed probe call returns)"]
