"""C10 - thread-sync covers every thread under every schedule."""
import json
import os
import re
import subprocess

import loaderfam as lf
import vlib

TRACE_CFG = """CONSTANTS
  Threads = {"ld", "ot", "ch"}
  MaxLoads = 1
  Dev = {}
  FlagSets = {{}}
  Pols = {"valid"}
  EnvAnywhere = TRUE
  Creators = {"ot"}
  Callers = {"ld"}
  AllowBlock = FALSE
  AllowDeny = FALSE
  PolIds = {0}
  AllowOther = FALSE
  TraceFile = "%s"
SPECIFICATION TSpec
INVARIANT NotAccepted
ALIAS Small
CHECK_DEADLOCK FALSE
"""


def to_trace(o, flags):
    rows = []
    for t in o["threads"]:
        rows.append({"ev": "begin", "role": t["role"], "tsync": bool(flags & 1), "log": bool(flags & 2), "result": o["result"]})
        for p in t["probes"]:
            rows.append({"ev": "probe", "saw": p["saw"], "filtered": p["filtered"]})
    return rows


def direct_judge(o, flags):
    """The statement applied directly to one recording (used to locate the offending thread of a rejected trace)."""
    bad = []
    if o["result"] != "nil":
        return bad
    for t in o["threads"]:
        for p in t["probes"]:
            if flags & 1 and p["saw"] and not p["filtered"]:
                bad.append("thread %d (%s/%s): a probe begun after the thread-sync load returned was not filtered" % (t["tid"], t["role"], t["kind"]))
                break
            if not flags & 1 and t["role"] != "loader" and p["filtered"]:
                bad.append("thread %d (%s/%s): filtered although thread-sync was not requested" % (t["tid"], t["role"], t["kind"]))
                break
            if t["role"] == "loader" and p["saw"] and not p["filtered"]:
                bad.append("the loading thread itself is not filtered after a nil return")
                break
    return bad


def strace_flags(ctx, binary, cfg):
    """Runs the child under strace and returns the flags argument(s) the kernel saw for SECCOMP_SET_MODE_FILTER."""
    out = ctx.path("strace.%d%s.txt" % (cfg["flags"], ".jail" if cfg.get("jail") else ""))
    if cfg.get("jail"):
        cfg = dict(cfg, jail=os.path.dirname(ctx.path("jail_%d" % cfg["flags"], "x")))
    try:
        p = subprocess.run(["strace", "-f", "-X", "raw", "-e", "trace=seccomp", "-o", out, binary], input=json.dumps(cfg), capture_output=True, text=True, timeout=60,
                           env={"PATH": "/usr/bin:/bin", "GODEBUG": "asyncpreemptoff=1"})
    except Exception as e:  # noqa
        return None, "strace failed: %s" % e
    seen = []
    for line in open(out):
        m = re.search(r"seccomp\((0x1|1), (0x[0-9a-f]+|\d+),", line)
        if m:
            seen.append(int(m.group(2), 0))
    try:
        res = json.loads(p.stdout)
    except Exception:
        return None, "child under strace gave no output (rc %d): %s" % (p.returncode, p.stderr[-300:])
    return (seen, res), ""


def check(ctx, replay=None):
    d = lf.child_bin(ctx)
    binary = d + "/tsyncchild"
    if replay:
        rep = json.load(open(replay))
        if "recording" in rep:
            bad = direct_judge(rep["recording"], rep["config"]["flags"])
            # and a fresh recording with the same configuration
            obs, err = run_cfg(binary, rep["config"])
            if obs is not None:
                bad += direct_judge(obs, rep["config"]["flags"])
        else:
            r, err = strace_flags(ctx, binary, rep["config"])
            bad = [] if r and r[0] == [rep["config"]["flags"]] and r[1]["hook_flags"] == rep["config"]["flags"] else ["flags altered: %s" % (r,)]
        print("replay:", bad or "ok")
        if bad:
            print("VIOLATION property=C10 replay=%s" % replay)
            return 1
        return 0
    th = ctx.tier == "thorough"
    # 1. exhaustive interleavings of the loader's steps with thread creation / migration
    jobs = [dict(module="Loader", cfg=lf.mc_cfg(threads="{t1, t2, t3, t4}", maxloads=2, flagsets='{{}, {"TSYNC"}, {"LOG"}, {"TSYNC", "LOG"}}',
                                                pols='{"valid"}', allow_deny=False), name="Loader_4t", timeout=3000)]
    if th:
        jobs.append(dict(module="Loader", cfg=lf.mc_cfg(threads="{t1, t2, t3, t4, t5}", maxloads=2, flagsets='{{}, {"TSYNC"}, {"TSYNC", "LOG"}}', pols='{"valid"}', allow_deny=False),
                         name="Loader_5t", timeout=3000))
    for r in ctx.tlc_many(jobs, parallel=1):
        if r["violated"]:
            raise vlib.Machinery("TLC: %s violated in %s: the specification of the unchanged design does not satisfy its own invariant" % (r["violated"], r["name"]))

    # 2. the flag word reaches the kernel unmodified (hook H2 capture + independent strace capture)
    patterns = [0, 1, 2, 3] + ([1 << 15, 0x8001, 0xFFFFFFFF, 4, 1 << 5, 0x12345678 & ~0x8] if th else [1 << 15, 0x8003, 0xFFFFFFF7])
    for fl, jail in [(f, False) for f in patterns] + [(1, True), (3, True), (0x8001, True)]:
        cfg = {"n": 2, "flags": fl, "seed": ctx.seed, "spawns": 1}
        if jail:
            cfg["jail"] = True      # (a process that has changed its root to an empty directory: no /proc)
        r, err = strace_flags(ctx, binary, cfg)
        if r is None:
            ctx.skip(err)
            continue
        seen, res = r
        ctx.cov["evaluations"] += 1
        if res.get("hook_flags") != fl or seen != [fl]:
            ctx.violation("the flag word %#x was handed to the kernel as %s (hook saw %s)" % (fl, [hex(x) for x in seen], res.get("hook_flags")),
                          {"config": cfg, "observed": {"strace_flags": seen, "hook_flags": res.get("hook_flags"), "result": res.get("result")},
                           "admissible": "seccomp(SECCOMP_SET_MODE_FILTER, flags = Filter.Flag, ...) exactly once", "how": "./check C10 --replay <this file>"})
    # 3. recordings under many thread mixes, validated by LoaderTrace.tla
    ns = [1, 2, 4, 8, 16, 32, 64]
    reps = 6 if th else 2
    work = [{"n": n, "flags": fl, "seed": ctx.seed * 100 + k * 7 + n, "spawns": 3} for n in ns for fl in (0, 1, 2, 3) for k in range(reps)]
    # a thread with a divergent private filter: the kernel refuses the thread-sync; nil is only admissible with every thread filtered
    work += [{"n": n, "flags": fl, "seed": ctx.seed + n, "spawns": 2, "divergent": True} for n in (2, 8) for fl in (1, 3, 0, 2)]
    # the loading thread sits under an enclosing filter that answers seccomp(2) with ENOSYS: an error is expected, nil only with everybody filtered
    work += [{"n": n, "flags": fl, "seed": ctx.seed + n, "spawns": 2, "block": True} for n in (1, 4, 16) for fl in (1, 3)]
    # the loading thread loaded the same policy before, without thread-sync: the recorded load hands the kernel a program it has seen
    work += [{"n": n, "flags": fl, "seed": ctx.seed + n, "spawns": 2, "preload": True, "preload_flags": pf} for n in (1, 4, 16) for fl in (1, 3) for pf in (0, 2)]
    # the environment reports an old kernel release (UNAME26 personality): the kernel's seccomp(2) is the same, so is what is demanded
    work += [{"n": n, "flags": fl, "seed": ctx.seed * 7 + n, "spawns": 2, "uname26": True} for n in (2, 8, 32) for fl in (1, 3, 0, 2)]
    # every combination of privilege and requested bit: an unprivileged load without the bit is refused by the kernel (nothing to validate);
    # whatever the library does about that, a nil result has to mean what the statement says
    work += [{"n": n, "flags": fl, "seed": ctx.seed * 11 + n, "spawns": 2, "unprivileged": up, "no_nnp": nn}
             for n in (2, 16) for fl in (1, 3, 0) for up, nn in ((True, True), (True, False), (False, True))]
    # a process without a file system (root changed to an empty directory: no /proc): thread-sync is the kernel's business, what the
    # process can read about itself is not an input
    work += [{"n": n, "flags": fl, "seed": ctx.seed * 17 + n, "spawns": 2, "jail": True} for n in (1, 2, 8, 32) for fl in (1, 3, 0, 2)]
    # another policy content (default action log, a second group): the flags mean the same whatever the policy says
    work += [{"n": n, "flags": fl, "seed": ctx.seed * 13 + n, "spawns": 2, "policy_default": "log"} for n in (2, 8, 32) for fl in (1, 3, 0, 2)]
    # an earlier load of ANOTHER policy, with or without thread-sync: whether the recorded load reaches the other threads depends on its own flags only
    work += [{"n": n, "flags": fl, "seed": ctx.seed + n, "spawns": 2, "preload": True, "preload_other": True, "preload_flags": pf}
             for n in (2, 8) for fl in (0, 2, 1, 3) for pf in (1, 3, 0)]
    # a policy of several groups that together exceed the kernel's 4096 instructions, the probe syscall denied by the last group: the
    # kernel refuses the program (an error, nothing to validate); nil is only admissible with every thread under the WHOLE policy
    work += [{"n": n, "flags": fl, "seed": ctx.seed * 19 + n, "spawns": 2, "oversize": True} for n in (1, 4, 16) for fl in (1, 3, 0)]
    # calls that overlap (Loader!OtherLoad): while the recorded load is parked at the installation point another wired thread loads another
    # policy with another flag word; a thread-sync that the kernel then refuses is an error (nothing to validate), nil is judged by the statement
    work += [{"n": n, "flags": fl, "seed": ctx.seed * 23 + n, "spawns": 2, "overlap": True, "overlap_flags": of} for n in (1, 4, 16) for fl in (1, 3, 0) for of in (0, 2)]
    results = lf.run_many(lambda c: (c, run_cfg(binary, c)), work, workers=6)
    rows = []
    nrec = 0
    ndiv = 0
    nfailed = 0
    for cfg, (obs, err) in results:
        if obs is None:
            ctx.skip("recorder failed: " + err)
            continue
        if obs["result"] != "nil":
            if (cfg.get("divergent") or cfg.get("block") or cfg.get("overlap") or cfg.get("oversize")) and (cfg["flags"] & 1 or cfg.get("oversize")):
                ndiv += 1     # refused thread-sync / unavailable seccomp(2) reported as an error: admissible, nothing to validate
                continue
            # C10 speaks about loads that return nil; a load that fails is judged by C09 / C11 (not by this check)
            ctx.skip("load with flags %#x failed (%s): nothing to validate for C10" % (cfg["flags"], (obs.get("error") or "")[:80]))
            nfailed += 1
            continue
        if cfg.get("unprivileged") and cfg.get("no_nnp"):
            for b in direct_judge(obs, cfg["flags"])[:2]:
                ctx.violation("an unprivileged load without a requested no_new_privs bit returned nil: %s" % b, {"config": cfg, "recording": obs,
                              "admissible": "an error (the kernel refuses), or nil with the statement's coverage", "how": "./check C10 --replay <this file>"})
            ctx.cov["evaluations"] += sum(len(t["probes"]) for t in obs["threads"])
            continue
        if cfg.get("overlap"):
            ctx.cov["evaluations"] += sum(len(t["probes"]) for t in obs["threads"])
            ctx.cov["recordings_with_an_overlapping_load"] = ctx.cov.get("recordings_with_an_overlapping_load", 0) + 1
            for b in direct_judge(obs, cfg["flags"])[:2]:
                ctx.violation("a load that overlapped with another thread's load (flags %#x) returned nil: %s" % (cfg["overlap_flags"], b), {"config": cfg, "recording": obs,
                              "admissible": "with thread-sync: an error, or nil with every thread filtered; without it only the loading thread is filtered", "how": "./check C10 --replay <this file>"})
            continue
        if cfg.get("oversize"):
            ctx.cov["evaluations"] += sum(len(t["probes"]) for t in obs["threads"])
            for b in direct_judge(obs, cfg["flags"])[:2]:
                ctx.violation("a load of a policy beyond the kernel's program size returned nil: %s" % b, {"config": cfg, "recording": obs,
                              "admissible": "an error (the kernel refuses the program), or nil with the statement's coverage for the whole policy", "how": "./check C10 --replay <this file>"})
            continue
        if cfg.get("preload"):
            # the loader was filtered (by the same policy) before the recorded load: outside LoaderTrace's fresh-process segments; judged by the statement
            ctx.cov["evaluations"] += sum(len(t["probes"]) for t in obs["threads"])
            for b in direct_judge(obs, cfg["flags"])[:2]:
                ctx.violation("%s: %s" % ("a load after an earlier load of another policy (flags %#x) returned nil" % cfg["preload_flags"] if cfg.get("preload_other")
                                           else "thread-sync load of a policy the thread had loaded before (without thread-sync) returned nil", b), {"config": cfg, "recording": obs,
                              "admissible": "with thread-sync: an error, or nil with every thread filtered; without it only the loading thread is filtered", "how": "./check C10 --replay <this file>"})
            continue
        if (cfg.get("divergent") or cfg.get("block")) and cfg["flags"] & 1:
            # nil although another thread carries a divergent filter / seccomp(2) is unavailable: judged directly by the statement
            bad = direct_judge(obs, cfg["flags"])
            for b in bad[:2]:
                ctx.violation("thread-sync load returned nil %s: %s" % ("with a divergent thread present" if cfg.get("divergent") else "although seccomp(2) is answered with ENOSYS", b), {"config": cfg, "recording": obs,
                              "admissible": "an error, or nil with every thread filtered", "how": "./check C10 --replay <this file>"})
            continue
        nrec += 1
        rows.append((cfg, obs, to_trace(obs, cfg["flags"])))
        ctx.cov["evaluations"] += sum(len(t["probes"]) for t in obs["threads"])
        if any(p["filtered"] and not p["saw"] for t in obs["threads"] for p in t["probes"]):
            ctx.cov["distinct_nontrivial"] += 1
    nrec_pre = sum(1 for c, (o, e) in results if c.get("preload") and o is not None and o["result"] == "nil")
    ctx.cov["recordings_with_a_preloaded_policy"] = nrec_pre
    if nrec + ndiv + nfailed + nrec_pre < len(work) // 2:
        raise vlib.Machinery("only %d of %d recordings succeeded" % (nrec, len(work)))
    # concatenate into a few trace files, validate in parallel
    nfiles = 8
    files = [ctx.path("trace%d.ndjson" % i) for i in range(nfiles)]
    parts = [[] for _ in range(nfiles)]
    for i, row in enumerate(rows):
        parts[i % nfiles].append(row)
    jobs = []
    for i, part in enumerate(parts):
        vlib.write_ndjson(files[i], [e for _, _, tr in part for e in tr])
        jobs.append(dict(module="LoaderTrace", cfg=TRACE_CFG % files[i], name="LoaderTrace%d" % i, workers=2, timeout=3000, expect_violation=True))
    res = ctx.tlc_many(jobs, parallel=8)
    for i, r in enumerate(res):
        if r["violated"] == "NotAccepted":
            ctx.cov["traces_validated_against_impl"] += len(parts[i])
            ctx.cov["states"] += r["distinct"]
            ctx.cov["transitions"] += r["generated"]
            continue
        # rejected: find the recording(s) the statement itself condemns
        found = False
        for cfg, obs, _ in parts[i]:
            for b in direct_judge(obs, cfg["flags"]):
                found = True
                ctx.violation(b, {"config": cfg, "recording": obs,
                                  "admissible": "with thread-sync every probe begun after the load returned is filtered on every thread (also threads created later); without it only the loading thread is filtered",
                                  "how": "./check C10 --replay <this file>"})
        if not found:
            ctx.drift({"trace": "LoaderTrace rejected trace file %d although no recording contradicts the statement" % i})
    s = rows[0][1] if rows else None
    if s:
        ctx.sample({"config": rows[0][0], "threads": len(s["threads"]), "first_thread": s["threads"][0]})
    ctx.cov["recordings"] = nrec
    ctx.cov["refused_thread_sync_runs"] = ndiv
    ctx.cov["rule"] = ("recordings: N in {1,2,4,8,16,32,64} wired threads (spinning, sleeping, blocked in read, spawning short-lived threads before/after the load) x flags "
                       "{0,tsync,log,tsync|log} x seeds; per-thread probe logs ordered by program order and an atomic `loaded` flag only; every recording validated by "
                       "LoaderTrace.tla; non-trivial = some thread was already filtered before it saw `loaded` (the window between attach and return was hit)")
    ctx.assumptions += ["real schedules are sampled, not enumerated; atomicity of the kernel's thread-sync is the kernel's (modelled as one action)"]


def run_cfg(binary, cfg):
    kw = dict(user=65534, group=65534, extra_groups=[]) if cfg.get("unprivileged") else {}
    jail = None
    if cfg.get("jail"):
        # the recorder changes its root to this empty directory before anything else (replays make a new one)
        import tempfile
        jail = tempfile.mkdtemp(prefix="verif-jail-")
        cfg = dict(cfg, jail=jail)
    try:
        return _run_cfg(binary, cfg, kw)
    finally:
        if jail:
            try:
                os.rmdir(jail)
            except OSError:
                pass


def _run_cfg(binary, cfg, kw):
    try:
        p = subprocess.run([binary], input=json.dumps(cfg), capture_output=True, text=True, timeout=60, env={"PATH": "/usr/bin:/bin"}, cwd="/", **kw)
    except subprocess.TimeoutExpired:
        return None, "timeout"
    if p.returncode != 0:
        return None, "rc=%d %s" % (p.returncode, p.stderr[-300:])
    try:
        return json.loads(p.stdout), ""
    except Exception as e:  # noqa
        return None, "bad output %s" % e
