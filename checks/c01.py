"""C01 - allow/deny lists decide by first matching group, else the default."""
import polfam


def check(ctx, replay=None):
    if replay:
        return polfam.replay_one(ctx, replay)
    th = ctx.tier == "thorough"
    plan = [
        dict(scope="groups" if th else "groups2", mc=["DecisionOK"], mc_maxskips=[255, 2], kw=dict(NSys=3), stride=2 if th else 1, concs=4 if th else 3, expand=0 if th else 3),
        dict(scope="actions", mc=["DecisionOK"], mc_maxskips=[255], kw=dict(NSys=3), stride=1, concs=4, expand=0),
        # many groups: 1..10 single-name groups with rotating names and actions
        dict(scope="chain", mc=["DecisionOK"], mc_maxskips=[255, 2], kw=dict(NSys=3), stride=1, concs=4, expand=0),
        # real scale: lists of 1..300 names (sizes around 127/128 and 250..258, whole table), overlapping groups
        dict(scope="long1", mc=["DecisionOK"] if th else None, mc_maxskips=[255], kw=dict(W=8, X32Bit=512, NSys=300), stride=1 if th else 2, concs=4, expand=2),
        dict(scope="long2", mc=["DecisionOK"], mc_maxskips=[255], kw=dict(W=8, X32Bit=512, NSys=300), stride=1 if th else 2, concs=4, expand=2),
    ]
    polfam.run_family(ctx, plan, mine={"decision"}, decision_owner="C01")
    ctx.cov["rule"] = ("policies: every policy of the scope (TLC export; stride sample in the quick tier), each compiled for several architectures / "
                       "syscall choices / byte orders; events: every abstract event class, expanded to real numbers by membership in the policy's "
                       "lists; non-trivial = (policy, concretisation) whose events receive at least two different decisions")
    ctx.assumptions += ["expected decisions are the specification's Decide evaluated by TLC; the interpreter (bpfvm) is cross-checked against golang.org/x/net/bpf"]
