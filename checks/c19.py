"""C19 - constants and stubs are consistent across build targets."""
import json
import os
import re
import subprocess
from concurrent.futures import ThreadPoolExecutor

import vlib

LEVEL = "exploration"
ORACLE = os.path.join(vlib.VERIF, "oracle", "kernel")
QUICK = ["linux/amd64", "linux/386", "linux/arm", "linux/arm64", "linux/mips64", "linux/ppc64le", "linux/s390x", "linux/riscv64",
         "darwin/arm64", "windows/amd64", "freebsd/amd64", "js/wasm", "plan9/386", "openbsd/arm64"]


def first(*paths):
    for p in paths:
        if os.path.exists(p):
            return p
    raise vlib.Machinery("missing %s" % (paths,))


def uapi():
    sec = open(first("/usr/include/linux/seccomp.h", ORACLE + "/seccomp.h")).read()
    pr = open(first("/usr/include/linux/prctl.h", ORACLE + "/prctl.h")).read()
    eb = open(first("/usr/include/asm-generic/errno-base.h", ORACLE + "/errno-base.h")).read()
    en = open(first("/usr/include/asm-generic/errno.h", ORACLE + "/errno.h")).read()

    def d(txt, name):
        m = re.search(r"#define\s+%s\s+\(1UL << (\d+)\)" % name, txt)
        if m:
            return 1 << int(m.group(1))
        m = re.search(r"#define\s+%s\s+\(?\s*(0x[0-9a-fA-F]+|\d+)U?L?\s*\)?\s" % name, txt)
        if not m:
            raise vlib.Machinery("cannot find %s in the UAPI headers" % name)
        return int(m.group(1), 0)
    return {"ActionKillThread": d(sec, "SECCOMP_RET_KILL_THREAD"), "ActionKillProcess": d(sec, "SECCOMP_RET_KILL_PROCESS"), "ActionTrap": d(sec, "SECCOMP_RET_TRAP"),
            "ActionErrno": d(sec, "SECCOMP_RET_ERRNO"), "ActionTrace": d(sec, "SECCOMP_RET_TRACE"), "ActionLog": d(sec, "SECCOMP_RET_LOG"),
            "ActionAllow": d(sec, "SECCOMP_RET_ALLOW"), "ActionUserNotify": d(sec, "SECCOMP_RET_USER_NOTIF"),
            "FilterFlagTSync": d(sec, "SECCOMP_FILTER_FLAG_TSYNC"), "FilterFlagLog": d(sec, "SECCOMP_FILTER_FLAG_LOG"),
            "seccompSetModeStrict": d(sec, "SECCOMP_SET_MODE_STRICT"), "seccompSetModeFilter": d(sec, "SECCOMP_SET_MODE_FILTER"),
            "prSetNoNewPrivs": d(pr, "PR_SET_NO_NEW_PRIVS"), "errnoEPERM": d(eb, "EPERM"), "errnoENOSYS": d(en, "ENOSYS")}


def uapi_lookup():
    """name -> value for every plain numeric #define of the UAPI headers the library's constants come from (None if a name is not there)."""
    txt = ""
    for a, b in (("/usr/include/linux/seccomp.h", "/seccomp.h"), ("/usr/include/linux/prctl.h", "/prctl.h"), ("/usr/include/asm-generic/errno-base.h", "/errno-base.h"),
                 ("/usr/include/asm-generic/errno.h", "/errno.h")):
        txt += open(first(a, ORACLE + b)).read() + "\n"
    out = {}
    for name, sh in re.findall(r"#define\s+(\w+)\s+\(1UL << (\d+)\)", txt):
        out[name] = 1 << int(sh)
    for name, val in re.findall(r"#define\s+(\w+)\s+\(?\s*(0x[0-9a-fA-F]+|\d+)U?L?\s*\)?\s", txt):
        out.setdefault(name, int(val, 0))
    return out


LINUX_FAMILY = ("linux", "android")   # GOOS=android satisfies the `linux` build constraint: the real loader is compiled there


def enosys_of(goarch):
    # arch/mips/include/uapi/asm/errno.h: ENOSYS 89; every other Go linux port uses asm-generic (38)
    return 89 if goarch.startswith("mips") else 38


def simulate_goarch(ctx, bindir, goarches, tabled):
    """Executes the GOARCH lookup of Policy.Assemble for architectures this host cannot run: the harness command archsim is built with
    an overlay in which the expression runtime.GOARCH of arch/info.go reads VERIF_GOARCH. Returns [(message, witness)]."""
    src = os.path.join(vlib.REPO, "arch", "info.go")
    text = open(src).read()
    if text.count("runtime.GOARCH") < 1:
        ctx.skip("arch/info.go does not mention `runtime.GOARCH`: the GOARCH simulation cannot be applied")
        return []
    ov_file = ctx.path("overlay", "info.go")
    open(ov_file, "w").write(text.replace("runtime.GOARCH", "verifGOARCH()") +
                             "\nfunc verifGOARCH() string {\n\tif v := verifGetenv(\"VERIF_GOARCH\"); v != \"\" {\n\t\treturn v\n\t}\n\treturn runtime.GOARCH\n}\n")
    env_file = ctx.path("overlay", "verif_env.go")
    open(env_file, "w").write("package arch\n\nimport \"os\"\n\nfunc verifGetenv(k string) string { return os.Getenv(k) }\n")
    ov = ctx.path("overlay", "overlay.json")
    json.dump({"Replace": {src: ov_file, os.path.join(vlib.REPO, "arch", "zz_verif_env.go"): env_file}}, open(ov, "w"))
    hsrc = os.path.dirname(bindir)
    out_bin = os.path.join(bindir, "archsim_overlay")
    rc, o, e = ctx.run(["go", "build", "-tags", "verif", "-overlay", ov, "-o", out_bin, "./cmd/archsim"], cwd=hsrc, timeout=900)
    if rc != 0:
        ctx.skip("the GOARCH simulation does not build: " + e[-300:])
        return []
    viol = []
    for ga in goarches:
        rc, o, e = ctx.run([out_bin], env={"VERIF_GOARCH": ga}, timeout=120)
        if rc != 0:
            ctx.skip("archsim failed for %s" % ga)
            continue
        for r in json.loads(o)["results"]:
            for i, c in enumerate(r["calls"]):
                ctx.cov["evaluations"] += 1
                if c.get("panic"):
                    viol.append(("GOARCH %s: %s #%d of '%s' on policy '%s' panicked: %s" % (ga, c["op"], i + 1, r["seq"], r["policy"], c["panic"]), {"goarch": ga, "seq": r}))
                elif ga not in tabled and (not c["err"] or c["program"]):
                    viol.append(("GOARCH %s (no syscall table): %s #%d of the sequence '%s' on policy '%s' %s instead of failing with an unsupported-architecture error"
                                 % (ga, c["op"], i + 1, r["seq"], r["policy"], "returned a program of %d instructions/bytes" % c["program"] if c["program"] else "returned no error"),
                                 {"goarch": ga, "seq": r}))
                elif ga not in tabled and not re.search(r"(?i)(unsupported|not supported|no syscall table|unknown arch)", c["err"]):
                    # it fails and produces nothing, which is what the statement demands; how the error is worded is recorded only
                    ctx.cov.setdefault("error_wording", set()).add("GOARCH %s: %s" % (ga, c["err"][:100]))
                elif ga in tabled and c["err"]:
                    ctx.note("GOARCH %s (has a table): %s on policy '%s' fails: %s" % (ga, c["op"], r["policy"], c["err"][:120]))
    return viol


# what the Go runtime itself may ask of the kernel on a wired thread between two statements (memory, signal return, futex; asynchronous
# preemption is switched off for the run, so no tgkill / getpid)
RUNTIME_CALLS = {"rt_sigreturn", "rt_sigprocmask", "sigaltstack", "futex", "sched_yield", "nanosleep", "madvise", "mmap", "munmap", "mprotect", "brk",
                 "epoll_pwait", "restart_syscall"}


def simulate_stubs(ctx, bindir, facts, histories):
    """Executes, on this host, the files every non-Linux target compiles (grouped by file set): cmd/stubsim built with an overlay that strips the
    build constraints of the files the host does not compile and empties the ones only the host compiles. Returns {target: stubrun facts}."""
    host = next((f for f in facts if f["goos"] == "linux" and f["goarch"] == "amd64" and not f.get("error")), None)
    out = {}
    if host is None:
        return out
    hostfiles = set(host["files"])
    groups = {}
    for f in facts:
        if f["goos"] not in LINUX_FAMILY and not f.get("error"):
            groups.setdefault(tuple(sorted(f["files"])), []).append("%s/%s" % (f["goos"], f["goarch"]))
    hsrc = os.path.dirname(bindir)
    for gi, (files, targets) in enumerate(sorted(groups.items())):
        run = {"executed": False, "supported_true": 0, "syscalls": [], "panics": 0, "histories": 0, "why": ""}
        for t in targets:
            out[t] = run
        rep = {}
        empty = ctx.path("stubov%d" % gi, "empty.go")
        open(empty, "w").write("package seccomp\n")
        for fn in set(files) - hostfiles:
            src = os.path.join(vlib.REPO, fn)
            dst = ctx.path("stubov%d" % gi, fn)
            open(dst, "w").write("".join(l for l in open(src) if not l.startswith(("//go:build", "// +build"))))
            rep[src] = dst
        for fn in hostfiles - set(files):
            rep[os.path.join(vlib.REPO, fn)] = empty
        ov = ctx.path("stubov%d" % gi, "overlay.json")
        json.dump({"Replace": rep}, open(ov, "w"))
        binary = os.path.join(bindir, "stubsim_%d" % gi)
        # (with the harness's tag, so that a policy's architecture can be set for the program comparison; without it if that does not build)
        rc, o, e = ctx.run(["go", "build", "-tags", "verif", "-overlay", ov, "-o", binary, "./cmd/stubsim"], cwd=hsrc, timeout=900)
        if rc != 0:
            rc, o, e = ctx.run(["go", "build", "-overlay", ov, "-o", binary, "./cmd/stubsim"], cwd=hsrc, timeout=900)
        if rc != 0:
            run["why"] = "the file set of %s does not build on this host: %s" % (targets[0], e[-200:])
            ctx.note(run["why"])
            continue
        # "a policy compiles to the same program wherever it is compiled": the programs this file set makes of a fixed set of policies
        rc, o, e = ctx.run([binary, "-programs"], timeout=120)
        if rc == 0:
            run["programs"] = json.loads(o)
        else:
            ctx.note("the program set could not be compiled with the file set of %s: %s" % (targets[0], e[-200:]))
        ok = True
        for h in histories:
            rc, o, e = ctx.run([binary], input=json.dumps(h), timeout=60, env={"GODEBUG": "asyncpreemptoff=1"})
            if rc != 0:
                ok = False
                run["why"] = "stubsim failed on %s: %s" % (h, e[-200:])
                break
            res = json.loads(o)
            run["histories"] += 1
            ctx.cov["evaluations"] += len(res["steps"])
            for s in res["steps"]:
                if s.get("panic"):
                    run["panics"] += 1
                    run.setdefault("witness", {"history": h, "steps": res["steps"]})
                elif s["op"] == "Supported" and s["result"] != "false":
                    run["supported_true"] += 1
                    run.setdefault("witness", {"history": h, "steps": res["steps"]})
        if not ok:
            ctx.note(run["why"])
            continue
        # what the calls ask of the kernel: one long history under strace, the wired thread's lines between the markers
        st = ctx.path("stubov%d" % gi, "strace.txt")
        longh = ["Supported", "SetNoNewPrivs", "LoadFilter", "Supported", "LoadFilterZero", "Supported", "LoadFilter", "SetNoNewPrivs"]
        try:
            p = subprocess.run(["strace", "-f", "-o", st, binary], input=json.dumps(longh), capture_output=True, text=True, timeout=120, env={"GODEBUG": "asyncpreemptoff=1", "PATH": "/usr/bin:/bin"})
            tid = str(json.loads(p.stdout)["tid"])
            inside, seen, markers = False, [], 0
            for line in open(st):
                parts = line.split(None, 1)
                if len(parts) < 2 or parts[0] != tid:
                    continue
                m = re.match(r"(\w+)\(", parts[1])
                if not m:
                    continue
                if m.group(1) == "tuxcall":
                    inside = "0xaaa" in parts[1]
                    markers += 1
                elif inside and m.group(1) not in RUNTIME_CALLS:
                    seen.append(m.group(1))
            if markers != 2 * len(longh):
                ctx.note("strace of the stub run shows %d markers instead of %d: system calls not judged" % (markers, 2 * len(longh)))
            else:
                run["syscalls"] = sorted(set(seen))
                run["executed"] = True
        except Exception as ex:  # noqa
            ctx.note("strace of the stub run failed (%s): system calls not judged, results are" % ex)
            run["executed"] = True
    return out


def check(ctx, replay=None):
    th = ctx.tier == "thorough"
    bindir = ctx.harness()
    cf = os.path.join(bindir, "constfacts")
    rc, out, err = ctx.run(["go", "tool", "dist", "list"], timeout=60)
    all_targets = out.split()
    if len(all_targets) < 30:
        raise vlib.Machinery("go tool dist list gave %d targets" % len(all_targets))
    # quick: every linux GOARCH and one target of every other GOOS (so that a constant or stub that is wrong for one
    # operating system family only is seen on every change); thorough: everything
    quick = [t for t in all_targets if t.startswith("linux/")]
    seen_os_init = {"linux"}
    seen_os = set()
    for t in QUICK + all_targets:
        if t in all_targets and not t.startswith("linux/") and t.split("/")[0] not in seen_os:
            seen_os.add(t.split("/")[0])
            quick.append(t)
    targets = all_targets if th else quick
    if replay:
        targets = json.load(open(replay)).get("targets", targets)

    def one(t):
        goos, goarch = t.split("/")
        e = dict(os.environ)
        e.update(vlib.GOENV)
        p = subprocess.run([cf, "-goos", goos, "-goarch", goarch], cwd=vlib.REPO, capture_output=True, text=True, timeout=900, env=e)
        try:
            return json.loads(p.stdout)
        except Exception:
            return {"goos": goos, "goarch": goarch, "error": "constfacts failed: " + p.stderr[-300:], "consts": {}}
    with ThreadPoolExecutor(max_workers=6) as ex:
        facts = list(ex.map(one, targets))
    # GetInfo(GOARCH) on the host for every GOARCH of the list
    goarches = sorted(set(t.split("/")[1] for t in all_targets))
    rc, out, err = ctx.run([os.path.join(bindir, "archdump")], input=json.dumps(goarches), timeout=120)
    if rc != 0:
        raise vlib.Machinery("archdump failed")
    lookups = {l["in"]: l for l in json.loads(out)["lookups"]}
    # call histories of the stubs (Consts!StubHistories), exported by TLC
    hfile = ctx.path("stubhist.json")
    hmod = ("---- MODULE StubHist ----\nEXTENDS Consts, Json, SequencesExt\nASSUME JsonSerialize(\"%s\", SetToSeq(StubHistories(%d)))\nVARIABLE x\nInit == x = 0\n"
            "Next == UNCHANGED x\nSpec == Init /\\ [][Next]_x\n====\n" % (hfile, 4 if th else 3))
    stubdata = '---- MODULE ConstsData ----\nTargets == <<>>\nUAPI == <<>>\nENOSYSof == <<>>\n====\n'
    ctx.tlc("StubHist", "SPECIFICATION Spec\nCHECK_DEADLOCK FALSE\n", files={"ConstsData.tla": stubdata, "StubHist.tla": hmod}, workers=1, timeout=300)
    stubruns = simulate_stubs(ctx, bindir, facts, json.load(open(hfile)))
    u = uapi()
    hdr = uapi_lookup()
    rows = []
    nbuilt = 0
    for f in facts:
        t = "%s/%s" % (f["goos"], f["goarch"])
        builds = not f.get("error")
        if not builds:
            ctx.note("%s does not build: %s" % (t, f["error"][:200]))
        else:
            nbuilt += 1
        lk = lookups[f["goarch"]]
        rows.append({"goos": f["goos"], "goarch": f["goarch"], "builds": builds, "consts": f.get("consts") or {},
                     "stubs": [{"func": s["func"], "returns": s.get("returns") or [], "calls": s["calls"]} for s in (f.get("stubs") or [])] if f["goos"] not in LINUX_FAMILY else [],
                     "imports": (f.get("imports") or []) if f["goos"] not in LINUX_FAMILY else [],
                     "stubrun": {k: v for k, v in stubruns.get(t, {"executed": False, "supported_true": 0, "syscalls": [], "panics": 0}).items() if k in ("executed", "supported_true", "syscalls", "panics")},
                     "unixconsts": [{"name": n, "got": g, "want": str(hdr[n])} for n, g in sorted((f.get("all_unix") or {}).items())
                                    if hdr.get(n) is not None and not (n == "ENOSYS" and f["goos"] in LINUX_FAMILY)] if builds else [],
                     "hastable": bool(lk["var"]), "getinfo_err": lk["err"]})
    if nbuilt < len(targets) * 0.6:
        raise vlib.Machinery("only %d of %d targets build" % (nbuilt, len(targets)))
    # witness search (the statement on the extracted facts)
    viol = []
    for r in rows:
        if not r["builds"]:
            continue
        t = "%s/%s" % (r["goos"], r["goarch"])
        for n, want in u.items():
            w = want
            if n == "errnoENOSYS" and r["goos"] in LINUX_FAMILY:
                w = enosys_of(r["goarch"])
            got = r["consts"].get(n)
            ctx.cov["evaluations"] += 1
            if got != str(w):
                viol.append(("%s: %s = %s, the kernel's value is %d" % (t, n, got, w), {"target": t, "const": n}))
        # every constant internal/unix exports on this target that the UAPI headers define, whether or not it is on the list above
        for c in r["unixconsts"]:
            ctx.cov["evaluations"] += 1
            if c["got"] != c["want"]:
                viol.append(("%s: unix.%s = %s, the kernel's value is %s" % (t, c["name"], c["got"], c["want"]), {"target": t, "const": "unix." + c["name"]}))
        if r["goos"] not in LINUX_FAMILY:
            sr = r["stubrun"]
            full = stubruns.get(t, {})
            if sr["executed"]:
                if sr["supported_true"]:
                    viol.append(("%s: Supported() answers true in %d place(s) of the call histories, e.g. %s" % (t, sr["supported_true"], full.get("witness")), {"target": t, "witness": full.get("witness")}))
                if sr["panics"]:
                    viol.append(("%s: a loader stub panics, e.g. %s" % (t, full.get("witness")), {"target": t, "witness": full.get("witness")}))
                if sr["syscalls"]:
                    viol.append(("%s: the loader stubs perform system calls: %s" % (t, sr["syscalls"]), {"target": t}))
            else:
                # the file set cannot be executed on this host: the source text decides
                for s in r["stubs"]:
                    if s["func"] == "Supported" and s["returns"] != ["false"]:
                        viol.append(("%s: stub Supported returns %s" % (t, s["returns"]), {"target": t, "func": s["func"]}))
                bad = [i for i in r["imports"] if i in ("syscall", "golang.org/x/sys/unix", "unsafe")]
                if bad:
                    viol.append(("%s: the stub file imports %s" % (t, bad), {"target": t}))
            # source-level facts are diagnostics once the stubs were executed
            for s in r["stubs"]:
                if s["calls"] or (s["func"] != "Supported" and s["returns"] != ["nil"]):
                    ctx.cov.setdefault("stub_source_notes", set()).add("%s: %d call expression(s), returns %s" % (s["func"], s["calls"], s["returns"]))
        if r["hastable"] != (r["goarch"] in ("386", "amd64", "arm", "arm64")):
            viol.append(("GOARCH %s: GetInfo %s" % (r["goarch"], "finds a table" if r["hastable"] else "fails: " + r["getinfo_err"]), {"goarch": r["goarch"]}))
        elif not r["hastable"] and "unsupported arch" not in r["getinfo_err"]:
            ctx.note("GOARCH %s: error text is %r" % (r["goarch"], r["getinfo_err"]))
    # compilation on GOARCHs without tables, executed on the host through a build overlay
    simviol = simulate_goarch(ctx, bindir, goarches, ("386", "amd64", "arm", "arm64"))
    # "a policy compiles to the same program wherever it is compiled": the harness command detrace built for linux/386 runs natively on
    # this host; its compilations of a fixed set of policies (argument conditions included) for each syscall table must equal the amd64 build's
    hsrc = os.path.dirname(bindir)
    d386 = os.path.join(bindir, "detrace_386")
    rc, o, e = ctx.run(["go", "build", "-tags", "verif", "-o", d386, "./cmd/detrace"], cwd=hsrc, env={"GOARCH": "386", "CGO_ENABLED": "0"}, timeout=900)
    progviol = []
    if rc != 0:
        ctx.note("the harness does not build for linux/386: " + e[-200:])
    else:
        r64 = ctx.run([os.path.join(bindir, "detrace"), "-mode", "programs"], timeout=120)
        r32 = ctx.run([d386, "-mode", "programs"], timeout=120)
        if r64[0] != 0 or r32[0] != 0:
            ctx.note("the program comparison between linux/amd64 and linux/386 could not be run (%s / %s)" % (r64[2][-100:], r32[2][-100:]))
        else:
            p64, p32 = json.loads(r64[1]), json.loads(r32[1])
            ctx.cov["evaluations"] += len(p64)
            ctx.cov["programs_compared_across_cpu_targets"] = len(p64)
            diff = sorted(k for k in p64 if p64[k] != p32.get(k))
            if diff:
                progviol.append(("the same policy, name or value gives different programs or text forms on linux/amd64 and linux/386 (both executed on this host): %s" % diff[:4], {"differs": diff, "amd64": {k: p64[k] for k in diff[:4]}, "386": {k: p32.get(k) for k in diff[:4]}}))
    # ... and the file set of every non-Linux target, executed on this host (same CPU, so the default architecture is amd64's there too)
    rl = ctx.run([os.path.join(bindir, "stubsim"), "-programs"], timeout=120)
    if rl[0] == 0:
        plinux = json.loads(rl[1])
        ncmp = 0
        for t, run in sorted(stubruns.items()):
            pp = run.get("programs")
            if not pp or run.get("programs_judged"):
                continue
            run["programs_judged"] = True
            ncmp += len(pp)
            diff = sorted(k for k in pp if pp[k] != plinux.get(k))
            if diff:
                progviol.append(("the same policy, name or value gives a different program or text form with the files of %s than with the files of linux (both executed on this host): %s" % (t, diff[:4]),
                                 {"differs": diff, "linux": {k: plinux.get(k) for k in diff[:4]}, t: {k: pp[k] for k in diff[:4]}}))
        ctx.cov["evaluations"] += ncmp
        ctx.cov["programs_compared_across_file_sets"] = ncmp
    else:
        ctx.note("stubsim -programs failed on the host build: " + rl[2][-200:])
    # the same predicates decided by TLC on the facts
    data = {"targets": rows, "uapi": {k: str(v) for k, v in u.items()}, "enosys": {a: str(enosys_of(a)) for a in goarches}}
    dpath = ctx.path("consts.json")
    json.dump(data, open(dpath, "w"))
    datamod = '---- MODULE ConstsData ----\nEXTENDS Json\nData == JsonDeserialize("%s")\nTargets == Data.targets\nUAPI == Data.uapi\nENOSYSof == Data.enosys\n====\n' % dpath
    mc = "---- MODULE ConstsMC ----\nEXTENDS Consts\nVARIABLE x\nInit == x = 0\nNext == UNCHANGED x\nSpec == Init /\\ [][Next]_x\nI1 == ConstsOK\nI2 == SameEverywhere\nI3 == StubsOK\nI4 == TablesOrError\n====\n"
    r = ctx.tlc("ConstsMC", "SPECIFICATION Spec\nINVARIANTS I1 I2 I3 I4\nCHECK_DEADLOCK FALSE\n", files={"ConstsData.tla": datamod, "ConstsMC.tla": mc}, workers=2, timeout=600)
    if bool(viol) != bool(r["violated"]):
        raise vlib.Machinery("TLC (%s) and the witness search (%d) disagree" % (r["violated"], len(viol)))
    for msg, w in viol + simviol + progviol:
        ctx.violation(msg, {"witness": w, "targets": targets, "how": "./check C19 --replay <this file> (re-extracts the facts for the listed targets)"})
    if "error_wording" in ctx.cov:
        for n in sorted(ctx.cov.pop("error_wording"))[:5]:
            ctx.note("compilation without a table fails with an error that does not name the architecture as unsupported: " + n)
    if "stub_source_notes" in ctx.cov:
        for n in sorted(ctx.cov.pop("stub_source_notes")):
            ctx.note("non-Linux stub source: " + n)
    ctx.cov["stub_executions"] = [{"targets": len([t for t, r in stubruns.items() if r is run]), "executed": run["executed"], "histories": run["histories"], "why": run["why"]}
                                  for run in {id(r): r for r in stubruns.values()}.values()]
    ctx.cov["distinct_nontrivial"] = nbuilt
    ctx.cov["exhaustive"] = th
    ctx.cov["targets"] = len(targets)
    ctx.cov["targets_built"] = nbuilt
    ctx.cov["rule"] = ("build targets: %s of `go tool dist list`; per target 15 constants read from the compiler's export data (go list -export, which also shows the target builds), "
                       "the files of every non-Linux target executed on the host through a build overlay (all call histories of Consts!StubHistories, strace between markers), GetInfo(GOARCH) for every GOARCH; distinct_nontrivial = targets that build"
                       % ("all %d" % len(all_targets) if th else "%d representative ones (all in the thorough tier)" % len(targets)))
    ctx.sample({"target": "%s/%s" % (rows[0]["goos"], rows[0]["goarch"]), "consts": rows[0]["consts"]})
    ctx.assumptions += ["UAPI values from linux-libc-dev 6.1 headers; ENOSYS per architecture: mips family 89, every other Go linux port 38 (asm-generic)",
                        "non-Linux stubs are executed on the Linux host (their file set compiled here through an overlay): behaviour that depends on the foreign operating system's own libraries is not observable"]
    if replay:
        return ctx.finish()
