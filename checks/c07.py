"""C07 - invalid policies are rejected, never mis-compiled; valid ones accepted."""
import polfam


def check(ctx, replay=None):
    if replay:
        return polfam.replay_one(ctx, replay)
    th = ctx.tier == "thorough"
    plan = [
        dict(scope="defects2" if th else "defects", mc=["RejectOK", "DecisionOK", "ValidOK"], mc_maxskips=[255], kw=dict(NSys=3), stride=1, concs=4 if th else 3, expand=1),
        dict(scope="longdefects", mc=["RejectOK"] if th else None, mc_maxskips=[255], kw=dict(W=8, X32Bit=512, NSys=300), stride=1, concs=2, expand=1),
        dict(scope="rich", mc=["RejectOK"], mc_maxskips=[255], stride=1 if th else 3, concs=2, expand=1),
        dict(scope="many", mc=["RejectOK"], mc_maxskips=[255], stride=1 if th else 10, concs=2, expand=1),
    ]
    # "every policy free of these defects ... is accepted", whatever its shape: lists of 1..7 and of 63..128 conditions (one list may
    # constrain an argument several times), many lists per syscall, every operation
    plan.append(dict(scope="shortlist", mc=None, kw=dict(W=8, X32Bit=512, NSys=300), stride=1 if th else 2, concs=2, expand=1))
    plan.append(dict(scope="longlist", mc=None, kw=dict(W=8, X32Bit=512, NSys=300), stride=1 if th else 4, concs=2, expand=1))
    plan.append(dict(scope="longops", mc=None, kw=dict(W=8, X32Bit=512, NSys=300), stride=1 if th else 2, concs=2, expand=1))
    # two alternatives of one syscall, every pair of operations, incl. alternatives that hold for every argument value
    plan.append(dict(scope="mergeops", mc=["RejectOK"], mc_maxskips=[255], stride=1 if th else 2, concs=2, expand=1))
    plan.append(dict(scope="pairs", mc=None, stride=1 if th else 4, concs=2, expand=1))
    if th:
        # around the kernel's limit (thorough only: TLC needs ~10 s per 4100-instruction model compilation to know the exact size):
        # programs of 4090..4101 instructions; those that fit 4096 must be accepted
        plan.append(dict(scope="limit", mc=None, kw=dict(W=10, X32Bit=512, NSys=300), stride=1, concs=2, expand=1))
    polfam.run_family(ctx, plan, mine={"accept", "panic"}, decision_owner=None)
    ctx.cov["rule"] = ("valid base policies and every single (thorough: also every pair of) listed defect injected at every position (scope defects of "
                       "CompileScopes.tla: unnamed default action, no groups, unknown name, duplicate, conditional+unconditional, argument index 6/7/max, "
                       "six unknown operation spellings), plus the rich/many scopes whose cond+uncond combinations must be rejected and the defect-free shapes of shortlist / longlist / longops / pairs (lists of 1..128 conditions, repeated arguments), which must be accepted; compiled under recover(); "
                       "accepted policies are executed on every event (their decisions belong to C01/C03)")
    ctx.assumptions += ["the 'architecture without syscall tables' defect cannot be produced through Policy.Assemble on this host (GOARCH amd64 has tables); it is decided at the level of arch.GetInfo by C12/C19"]
