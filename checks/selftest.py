"""./check selftest [mutants]

Shows that the machinery can fail (a specification nothing binds to the code is the main
failure mode of this family):
  1. every named deviation switch makes TLC violate the invariant it is meant to break
     (the invariants are not vacuous; the deviation list documents the repaired defects)
  2. a recorded assembler trace with one corrupted field, or one event removed, is rejected
     by AsmTrace.tla; a recorded thread-sync trace with one corrupted probe is rejected by
     LoaderTrace.tla
  3. (`mutants`) a fixed list of seeded mutations, applied in a scratch worktree outside
     /repo and /verif, is reported by the owning property's quick check, and semantically
     neutral edits are not reported.
Exit 0 if everything behaved as expected, 1 otherwise."""
import json
import os
import shutil
import subprocess
import sys
import tempfile

import vlib
import polfam
import loaderfam

FAIL = []


def expect(cond, what):
    print(("ok   " if cond else "FAIL ") + what)
    if not cond:
        FAIL.append(what)


def deviations(ctx):
    jobs = []
    # compiler
    for dev, scope, inv in (('{"LegacyLayout"}', "many", "DecisionOK"), ('{"NoNrReload"}', "many", "DecisionOK"), ('{"LegacyLayout"}', "groups2", "ValidOK"),
                            ('{"UnknownOpDropped"}', "defects", "RejectOK")):
        kw = dict(NSys=3) if scope in ("groups2", "defects") else {}
        j = polfam.mc_job(scope, [inv], name="dev_%s_%s_%s" % (scope, inv, dev.strip('{}"')), dev=dev, **kw)
        j["expect_violation"] = True
        jobs.append((j, inv))
    j = polfam.mc_job("many", ["DecisionOK"], name="dev_legacyasm", dev='{"LegacyAssembler"}', MaxSkip=3)
    j["expect_violation"] = True
    jobs.append((j, "DecisionOK"))
    # assembler
    jobs.append((dict(module="AsmMC", cfg='CONSTANTS\n  N = 5\n  MaxSkip = 2\n  Algo = "legacy"\n  PerBranch = FALSE\nSPECIFICATION Spec\nINVARIANTS Correct\nCHECK_DEADLOCK FALSE\n',
                      name="dev_asm_legacy", expect_violation=True), "Correct"))
    # loader
    for dev, inv in (('{"R1Ignored"}', "NilImpliesInForce"), ('{"NoThreadLock"}', ("NNPRequestedLoads", "NNPBeforeInstallSameThread")), ('{"SupportedFlags0"}', "SupportedTrue"), ('{"PrctlErrorSwallowed"}', ("NNPBeforeInstallSameThread", "PrctlFailureStopsLoad")),
                     ('{"PrctlBeforeAssemble"}', ("NNPRequestedLoads", "NNPBeforeInstallSameThread", "EarlyFailurePure"))):
        jobs.append((dict(module="Loader", cfg=loaderfam.mc_cfg(dev=dev), name="dev_loader_" + dev.strip('{}"'), expect_violation=True), inv))
    jobs.append((dict(module="Loader", cfg=loaderfam.mc_cfg(dev='{"SplitOversize"}', maxloads=2), name="dev_loader_SplitOversize", expect_violation=True),
                 ("NilImpliesInForce", "SyncedCoverAll", "FlagsPassThrough")))
    jobs.append((dict(module="Loader", cfg=loaderfam.mc_cfg(dev='{"SharedDescriptor"}', maxloads=2, allow_deny=False, allow_other=True), name="dev_loader_SharedDescriptor", expect_violation=True),
                 ("NilImpliesInForce",)))
    # commands
    jobs.append((dict(module="ProfCache", cfg='CONSTANTS\n  NChunks = 4\n  Dev = {"InPlaceCache"}\nSPECIFICATION Spec\nINVARIANTS SecondRunSound ValidMeansComplete\nCHECK_DEADLOCK FALSE\n',
                      name="dev_cache", expect_violation=True), None))
    jobs.append((dict(module="ProfCache", cfg='CONSTANTS\n  NChunks = 4\n  Dev = {"FlushAfterRename"}\nSPECIFICATION Spec\nINVARIANTS SecondRunSound ValidMeansComplete\nCHECK_DEADLOCK FALSE\n',
                      name="dev_cache_early_rename", expect_violation=True), None))
    jobs.append((dict(module="ProfCache", cfg='CONSTANTS\n  NChunks = 4\n  Dev = {"InPlaceFallback"}\nSPECIFICATION Spec\nINVARIANTS SecondRunSound ValidMeansComplete\nCHECK_DEADLOCK FALSE\n',
                      name="dev_cache_fallback", expect_violation=True), None))
    jobs.append((dict(module="ProfCache", cfg='CONSTANTS\n  NChunks = 4\n  Dev = {"ScanLeftovers"}\nSPECIFICATION Spec\nINVARIANTS SecondRunSound\nCHECK_DEADLOCK FALSE\n',
                      name="dev_cache_scan", expect_violation=True), None))
    jobs.append((dict(module="ProfCache2", cfg='CONSTANTS\n  NChunks = 3\n  Dev = {"SharedTempName"}\nSPECIFICATION Spec\nINVARIANTS CacheSoundAfterOverlap\nCHECK_DEADLOCK FALSE\n',
                      name="dev_cache_sharedtmp", expect_violation=True), "CacheSoundAfterOverlap"))
    jobs.append((dict(module="ProfCache", cfg='CONSTANTS\n  NChunks = 4\n  Dev = {"SidecarHash"}\nSPECIFICATION Spec\nINVARIANTS SecondRunSound ValidMeansComplete\nCHECK_DEADLOCK FALSE\n',
                      name="dev_cache_sidecar", expect_violation=True), None))
    jobs.append((dict(module="ProfCache", cfg='CONSTANTS\n  NChunks = 4\n  Dev = {"ToolFailureIgnored"}\nSPECIFICATION Spec\nINVARIANTS SecondRunSound ValidMeansComplete\nCHECK_DEADLOCK FALSE\n',
                      name="dev_cache_toolfail", expect_violation=True), None))
    jobs.append((dict(module="ProfCache", cfg='CONSTANTS\n  NChunks = 4\n  Dev = {"InterruptEndsDump"}\nSPECIFICATION Spec\nINVARIANTS SecondRunSound ValidMeansComplete\nCHECK_DEADLOCK FALSE\n',
                      name="dev_cache_interrupt", expect_violation=True), None))
    import histfam
    for dev in ("TextKeyCache", "InstalledArchRecord", "FilterCache", "LazyAlias", "LogDegrades", "ActionProbe", "ValueMemo"):
        j = histfam.mc_job(2, '{"%s"}' % dev, name="dev_hist_" + dev)
        j["expect_violation"] = True
        jobs.append((j, "Memoryless"))
    dcfg = 'CONSTANTS\n  Nums = {0, 1, 7}\n  TableNums = {0, 1}\n  Dev = %s\n  MaxLines = 3\nSPECIFICATION Spec\nINVARIANTS %s\nCHECK_DEADLOCK FALSE\n'
    jobs.append((dict(module="Disasm", cfg=dcfg % ('{"StaleErr"}', "ErrorNotPartial"), name="dev_disasm_err", expect_violation=True), "ErrorNotPartial"))
    jobs.append((dict(module="Disasm", cfg=dcfg % ('{"SliceFixed"}', "Total"), name="dev_disasm_panic", expect_violation=True), "Total"))
    jobs.append((dict(module="Disasm", cfg=(dcfg % ('{"RingWindow"}', "FunctionScoped")).replace("MaxLines = 3", "MaxLines = 5"), name="dev_disasm_ring", expect_violation=True), "FunctionScoped"))
    scfg = 'CONSTANTS\n  Faults = {"none", "kernelrefuses", "badyaml"}\n  Dev = %s\nSPECIFICATION Spec\nINVARIANTS ExecOnlyUnderFilter FailureExitsNonZeroWithoutTarget\nCHECK_DEADLOCK FALSE\n'
    jobs.append((dict(module="Sandbox", cfg=scfg % '{"IgnoreLoadError"}', name="dev_sandbox", expect_violation=True), None))
    jobs.append((dict(module="Sandbox", cfg=(scfg % '{"TruncatedRead"}').replace("ExecOnlyUnderFilter", "WholeFileEnforced ExecOnlyUnderFilter"), name="dev_sandbox_trunc", expect_violation=True), None))
    import c13
    for dev, inv in (('{"SortNamesInPlace"}', ("NoConflict", "InputUnchanged")), ('{"PackageCache"}', ("NoConflict", "InputUnchanged")),
                     ('{"FlagStringMapOrder"}', "FlagStringDeterministic"), ('{"ActionNamesInverted"}', "ActionStringDeterministic"), ('{"SharedTextBytes"}', ("NoConflict", "InputUnchanged"))):
        j = c13.conc_job("dev_conc_" + dev.strip('{}"'), "names", '<<"Assemble", "FlagString", "MarshalText">>')
        j["cfg"] = j["cfg"].replace("Dev = {}", "Dev = " + dev)
        j["expect_violation"] = True
        jobs.append((j, inv))
    jobs.append((dict(module="Sandbox", cfg=(scfg % '{"SkipWhenUnsupported"}').replace('"badyaml"}', '"badyaml", "seccompdenied"}'), name="dev_sandbox_skip", expect_violation=True), "ExecOnlyUnderFilter"))
    jobs.append((dict(module="Sandbox", cfg=(scfg % '{"ExecveAppended"}').replace("ExecOnlyUnderFilter", "PolicyAsWritten ExecOnlyUnderFilter"), name="dev_sandbox_execve", expect_violation=True), "PolicyAsWritten"))
    jobs.append((dict(module="Sandbox", cfg=(scfg % '{"ZeroMeansUnset"}').replace("ExecOnlyUnderFilter", "PolicyAsWritten ExecOnlyUnderFilter"), name="dev_sandbox_zero", expect_violation=True), "PolicyAsWritten"))
    jobs.append((dict(module="TableGenMC", cfg='CONSTANTS\n  Dev = {"X64Filter"}\n  OutFile = "unused"\nSPECIFICATION Spec\nINVARIANTS BuildersIdealInv GeneratedUnambiguousInv\nCHECK_DEADLOCK FALSE\n',
                      name="dev_tablegen_x64", expect_violation=True, workers=1), ("BuildersIdealInv", "GeneratedUnambiguousInv")))
    import c18
    jobs.append((dict(module="ProfileGen", cfg=(c18.GEN_CFG % (1, ctx.path("selftest_profile.json"))).replace("Dev = {}", 'Dev = {"NoTruncate"}'), name="dev_profile_notruncate",
                      expect_violation=True, workers=1), "ASSUME"))
    res = ctx.tlc_many([j for j, _ in jobs], parallel=4)
    for (j, inv), r in zip(jobs, res):
        want = (inv,) if isinstance(inv, str) else inv
        expect(bool(r["violated"]) and (want is None or r["violated"] in want), "deviation run %-34s violates %s (got %s)" % (j["name"], want or "an invariant", r["violated"]))


def traces(ctx):
    bindir = ctx.harness()
    tr = ctx.path("t.ndjson")
    rc, out, err = ctx.run([os.path.join(bindir, "asmreplay"), "-random", "12", "-seed", "5", "-randmax", "400", "-trace", tr, "-tracemax", "6", "-out", ctx.path("r.ndjson")], timeout=600)
    rows = vlib.read_ndjson(tr)
    import c06
    base = ctx.tlc("AsmTrace", c06.TRACE_CFG % tr, name="t_base", workers=1, java_opts="-Xss512m", timeout=1200)
    expect(base["violated"] is None, "recorded assembler trace (%d events) is accepted by AsmTrace.tla" % len(rows))
    # corrupt one stored skip
    k = [i for i, r in enumerate(rows) if r["ev"] == "jump" and r["bt"]][0]
    bad = [dict(r) for r in rows]
    bad[k]["st"] += 1
    p2 = ctx.path("t_bad.ndjson")
    vlib.write_ndjson(p2, bad)
    r2 = ctx.tlc("AsmTrace", c06.TRACE_CFG % p2, name="t_corrupt", workers=1, java_opts="-Xss512m", timeout=1200, expect_violation=True)
    expect(r2["violated"] is not None, "the same trace with one skip corrupted is rejected (%s)" % r2["violated"])
    # remove one hook event
    p3 = ctx.path("t_cut.ndjson")
    vlib.write_ndjson(p3, rows[:k] + rows[k + 1:])
    r3 = ctx.tlc("AsmTrace", c06.TRACE_CFG % p3, name="t_removed", workers=1, java_opts="-Xss512m", timeout=1200, expect_violation=True)
    expect(r3["violated"] is not None, "the same trace with one event removed is rejected (%s)" % r3["violated"])
    # thread-sync recording
    import c10
    d = loaderfam.child_bin(ctx)
    obs, e = c10.run_cfg(d + "/tsyncchild", {"n": 8, "flags": 1, "seed": 3, "spawns": 2})
    t = c10.to_trace(obs, 1)
    f1 = ctx.path("lt.ndjson")
    vlib.write_ndjson(f1, t)
    a = ctx.tlc("LoaderTrace", c10.TRACE_CFG % f1, name="lt_base", workers=2, timeout=600, expect_violation=True)
    expect(a["violated"] == "NotAccepted", "recorded thread-sync trace is accepted by LoaderTrace.tla")
    k = [i for i, r in enumerate(t) if r["ev"] == "probe" and r["saw"]][-1]
    t[k] = dict(t[k], filtered=False)
    f2 = ctx.path("lt_bad.ndjson")
    vlib.write_ndjson(f2, t)
    b = ctx.tlc("LoaderTrace", c10.TRACE_CFG % f2, name="lt_corrupt", workers=2, timeout=600, expect_violation=True)
    expect(b["violated"] is None, "the same trace with one unfiltered probe after `loaded` is rejected")


MUTANTS = [
    # (file, sed expression, owning checks, expected: True = must be reported)
    ("assembler.go", r"s/bridge = bpf.Jump{Skip: uint32(dest - jump.index - 1)}/bridge = bpf.Jump{Skip: uint32(dest - jump.index)}/", ["C06"], True),
    ("filter.go", r"s/jumpN := len(x32Filter) + len(instructions) - len(actions)/jumpN := len(x32Filter) + len(instructions) - len(actions) - 1/", ["C04"], True),
    ("filter.go", r"s/if condition.Argument < 0 || condition.Argument > 5 {/if condition.Argument < 0 || condition.Argument > 6 {/", ["C07"], True),
    ("seccomp_linux.go", r"s/if r1 != 0 \&\& flags\&FilterFlagTSync != 0/if false \&\& r1 != 0 \&\& flags\&FilterFlagTSync != 0/", ["C09"], True),
    ("seccomp_linux.go", r"s/^\truntime.LockOSThread()$/\t\/\/ runtime.LockOSThread()/; s/^\tdefer runtime.UnlockOSThread()$/\t_ = runtime.GOOS/", ["C11"], True),
    ("filter.go", r"s/for _, flag := range \[\]FilterFlag{FilterFlagTSync, FilterFlagLog} {/for flag := range filterFlagNames {/", ["C13"], True),
    ("filter.go", r's/json:"argument"  yaml:"argument"`/json:"argument"  yaml:"position"`/', ["C14"], True),
    ("cmd/seccomp-profiler/main.go", r"s/\tsort.Strings(names)/\t_ = sort.Strings/", ["C18"], True),
    ("internal/unix/types_other.go", r"s/SECCOMP_RET_LOG          = 0x7ffc0000/SECCOMP_RET_LOG          = 0x7ffd0000/", ["C19"], True),
    # semantically neutral edits: must NOT be reported
    ("filter.go", r"s/\/\/ No group matched\./\/\/ no group matched: return the default action/", ["C01", "C05"], False),
    ("assembler.go", r"s/\tbridgeTrue := skipTrue > math.MaxUint8$/\tbridgeTrue := skipTrue >= math.MaxUint8+1/", ["C06"], False),
    ("arch/info.go", r"s/name = strings.ToLower(name)/name = strings.ToLower(strings.TrimSpace(name))/", ["C12"], False),
]


def mutants(ctx):
    wt = tempfile.mkdtemp(prefix="verif-selftest-wt-")
    out = tempfile.mkdtemp(prefix="verif-selftest-out-")
    try:
        subprocess.run(["git", "-C", vlib.REPO, "worktree", "add", "--detach", "-f", wt, "HEAD"], check=True, capture_output=True)
        env = dict(os.environ, VERIF_REPO=wt, VERIF_OUTDIR=out)
        for f, expr, owners, must in MUTANTS:
            subprocess.run(["git", "-C", wt, "checkout", "--", "."], check=True)
            subprocess.run(["sed", "-i", expr, os.path.join(wt, f)], check=True)
            changed = subprocess.run(["git", "-C", wt, "diff", "--quiet"]).returncode != 0
            if not changed:
                expect(False, "mutation did not apply: %s" % expr[:60])
                continue
            b = subprocess.run(["go", "build", "./..."], cwd=wt, env=dict(env, **vlib.GOENV), capture_output=True, text=True)
            if b.returncode != 0:
                expect(False, "mutant does not build: %s" % expr[:60])
                continue
            for pid in owners:
                r = subprocess.run([os.path.join(vlib.VERIF, "check"), pid, "quick"], env=env, capture_output=True, text=True, cwd=vlib.VERIF)
                reported = r.returncode == 1 and "VIOLATION property=%s" % pid in r.stdout
                expect(reported == must and r.returncode in (0, 1), "%s on [%s] -> rc %d (%s)" % (pid, expr[:70], r.returncode, "must be reported" if must else "must stay quiet"))
    finally:
        subprocess.run(["git", "-C", vlib.REPO, "worktree", "remove", "--force", wt], capture_output=True)
        shutil.rmtree(wt, ignore_errors=True)
        shutil.rmtree(out, ignore_errors=True)


def main():
    os.environ.setdefault("VERIF_OUTDIR", tempfile.mkdtemp(prefix="verif-selftest-ev-"))
    vlib.OUTDIR = os.environ["VERIF_OUTDIR"]
    ctx = vlib.Ctx("selftest", "quick")
    try:
        if len(sys.argv) > 2 and sys.argv[2] == "mutants":
            mutants(ctx)
        else:
            deviations(ctx)
            traces(ctx)
    except vlib.Machinery as e:
        print("MACHINERY FAILURE:", e)
        return 2
    finally:
        shutil.rmtree(os.environ["VERIF_OUTDIR"], ignore_errors=True)
    print("%d expectation(s) failed" % len(FAIL))
    return 1 if FAIL else 0
