"""C06 - the label/jump builder preserves jump targets at any distance.

spec:   Asm.tla (builder + Program.Assemble, code shaped), AsmMC.tla
        (exhaustive state machine), AsmGen.tla (case export), AsmTrace.tla
        (trace validation of hook H3 step events at MaxSkip = 255)
verdict: the real assembler's output must be path-equivalent to the label
        program (labelprog oracle = AsmCorrect on unfoldings); a valid label
        program must not be refused or make Assemble panic.
"""
import json
import os

import polfam
import vlib


def mc_cfg(n, maxskip, perbranch, algo="rev"):
    return """CONSTANTS
  N = %d
  MaxSkip = %d
  Algo = "%s"
  PerBranch = %s
SPECIFICATION Spec
INVARIANTS Correct NoBackwardError UselessOnlyIf Consistent
CHECK_DEADLOCK FALSE
""" % (n, maxskip, algo, "TRUE" if perbranch else "FALSE")


def gen_cfg(n, perbranch, out, stride, offset):
    return """CONSTANTS
  N = %d
  MaxSkip = 255
  PerBranch = %s
  OutFile = "%s"
  Stride = %d
  Offset = %d
""" % (n, "TRUE" if perbranch else "FALSE", out, stride, offset)


TRACE_CFG = """CONSTANTS
  MaxSkip = 255
  TraceFile = "%s"
SPECIFICATION Spec
INVARIANT Refines
POSTCONDITION Accepted
CHECK_DEADLOCK FALSE
"""


def replay_case(ctx, path):
    if "policy" in json.load(open(path)).get("case", {}) or "kind" in json.load(open(path)):
        return polfam.replay_one(ctx, path)
    bindir = ctx.harness()
    rc, out, err = ctx.run([os.path.join(bindir, "asmreplay"), "-replay", os.path.abspath(path)], timeout=120)
    if rc != 0:
        raise vlib.Machinery("asmreplay failed: " + err[-2000:])
    r = json.loads(out.strip().splitlines()[-1])
    print("replay %s: verdict=%s err=%r why=%s" % (path, r["verdict"], r["err"], r.get("why", "")))
    if r["verdict"] == "violation":
        print("VIOLATION property=C06 replay=%s" % path)
        return 1
    return 0


def check(ctx, replay=None):
    if replay:
        return replay_case(ctx, replay)
    thorough = ctx.tier == "thorough"
    bindir = ctx.harness()

    # 1. exhaustive model check of the assembler design (small MaxSkip forces bridges)
    jobs = []
    n = 6 if thorough else 5
    for ms in (1, 2, 3):
        for pb in (False, True):
            jobs.append(dict(module="AsmMC", cfg=mc_cfg(n, ms, pb), name="AsmMC_n%d_m%d_%s" % (n, ms, "pb" if pb else "sh"),
                             timeout=3000))
    for r in ctx.tlc_many(jobs, parallel=2 if thorough else 3):
        if r["violated"]:
            # the model of the code breaks the refinement: confirm on the real code below;
            # by itself a model counterexample is not a verdict
            raise vlib.Machinery("TLC: %s violated in %s: the specification of the unchanged design does not satisfy its own invariant" % (r["violated"], r["name"]))

    # 2. spec -> code: TLC-exported label programs replayed on the real builder,
    #    plain and blown up to real scale
    cases = ctx.path("cases.ndjson")
    parts = []
    exports = [(4, False, 1, 0), (4, True, 1, 0), (5, False, 8 if not thorough else 2, ctx.seed % (8 if not thorough else 2)),
               (5, True, 8 if not thorough else 2, ctx.seed % (8 if not thorough else 2))]
    jobs = []
    for i, (nn, pb, stride, off) in enumerate(exports):
        out = ctx.path("gen%d.ndjson" % i)
        parts.append(out)
        jobs.append(dict(module="AsmGen", cfg=gen_cfg(nn, pb, out, stride, off), name="AsmGen%d" % i, workers=1, timeout=900))
    ctx.tlc_many(jobs, parallel=4)
    with open(cases, "w") as f:
        k = 0
        for p in parts:
            for line in open(p):
                d = json.loads(line)
                d["id"] = "tlc-%d" % k
                k += 1
                f.write(json.dumps(d, separators=(",", ":")) + "\n")
    res = ctx.path("res.ndjson")
    trace = ctx.path("trace.ndjson")
    nrand = 1500 if thorough else 150
    rc, out, err = ctx.run([os.path.join(bindir, "asmreplay"), "-in", cases, "-out", res, "-blowup", "43,64,85,86,128,255,256",
                            "-blowevery", "1" if thorough else "3", "-random", str(nrand), "-seed", str(ctx.seed),
                            "-trace", trace, "-tracemax", "60" if thorough else "25", "-randmax", "1800" if thorough else "700"],
                           timeout=3000)
    if rc != 0:
        raise vlib.Machinery("asmreplay failed: " + err[-2000:])
    total = nontrivial = drift = traced = 0
    second_errs = {}
    origins = {}
    for r in vlib.read_ndjson(res):
        total += 1
        origins[r["origin"]] = origins.get(r["origin"], 0) + 1
        if r["bridges"] > 0:
            nontrivial += 1
        if r.get("traced"):
            traced += 1
        if r.get("second_assemble_error"):
            second_errs[r["second_assemble_error"]] = second_errs.get(r["second_assemble_error"], 0) + 1
        if r.get("drift"):
            drift += 1
            ctx.drift({"case": r["id"], "what": r["drift"]})
        if r["verdict"] == "violation":
            ctx.violation(r["why"], {"case": {"id": r["id"], "perbranch": r["perbranch"], "insts": r["insts"]},
                                     "observed": {"err": r.get("err"), "out": r.get("out", [])},
                                     "admissible": "an instruction list path-equivalent to the label program (or the 'useless jump' error for a jump whose branches both go to the next instruction)",
                                     "how": "./check C06 --replay <this file>"})
        elif r["bridges"] > 0:
            ctx.sample({"id": r["id"], "origin": r["origin"], "label_insts": r["n"], "assembled": r["out_len"],
                        "bridges": r["bridges"], "max_distance": r["max_dist"], "verdict": r["verdict"]})
    ctx.cov["evaluations"] = total
    ctx.cov["distinct_nontrivial"] = nontrivial
    ctx.cov["rule"] = ("label programs: all of AsmProgs N=4, a stride sample of N=5 (TLC export), each also blown up to real scale "
                       "with block sizes around 255/k, plus seeded random programs of 200..%d instructions; non-trivial = the real "
                       "assembler inserted at least one bridge" % (2000 if thorough else 900))
    ctx.cov["by_origin"] = origins
    if second_errs:
        ctx.cov["second_assemble_of_the_same_program_refused"] = second_errs

    # 3. code -> spec: hook H3 step events validated against Asm.tla at MaxSkip = 255
    if os.path.getsize(trace) > 0:
        tr = ctx.tlc("AsmTrace", TRACE_CFG % trace, workers=1, timeout=3000, java_opts="-Xss512m")
        if tr["violated"] == "Refines":
            ctx.note("AsmTrace: the specification's AsmCorrect rejects an output of the real assembler")
            ctx.drift({"trace": "AsmCorrect evaluated by TLC failed on a recorded final program"})
        elif tr["violated"]:
            ctx.drift({"trace": "recorded step events are not a behaviour of Asm.tla (%s); step model no longer describes the code" % tr["violated"]})
        else:
            ctx.cov["traces_validated_against_impl"] += traced
    # 4. "the meaning of a compiled policy does not depend on its size": one family of policies (CompileScopes longlist / shortlist:
    #    the same shapes, the same events) at sizes 20..60 instructions and at 260..1400 instructions (1..5 bridges, the
    #    conditional group last). A wrong decision is C06's only when the small twin of the family decides correctly:
    #    a compiler defect that does not depend on the size belongs to C01-C04.
    kw = dict(W=8, X32Bit=512, NSys=300)
    js, outs = [], {}
    for sc in ("shortlist", "longlist"):
        j, outs[sc] = polfam.gen_job(ctx, sc, stride=1, offset=0, le=ctx.seed % 2 == 0, name=sc, with_model=True, **kw)
        js.append(j)
    if thorough:
        js.append(polfam.mc_job("longlist", ["DecisionOK"], name="MC_longlist", MaxSkip=255, **kw))
    for r in ctx.tlc_many(js, parallel=3):
        if r["violated"]:
            raise vlib.Machinery("TLC: %s violated in %s: the specification of the unchanged design does not satisfy its own invariant" % (r["violated"], r["name"]))
    size_kinds = {"decision", "foreign", "x32", "invalid"}
    res = {}
    for sc in ("shortlist", "longlist"):
        s, f = polfam.replay(ctx, outs[sc], concs=3 if thorough else 2, expand=1, tag=sc)
        res[sc] = (s, [x for x in f if x["kind"] in size_kinds])
        polfam.account(ctx, s, [], mine=set(), decision_owner="-")
    if res["shortlist"][0]["programs_over_255"] != 0 or res["longlist"][0]["programs_over_255"] == 0:
        raise vlib.Machinery("the size family is not what it claims: shortlist has %d programs above 255 instructions, longlist %d"
                             % (res["shortlist"][0]["programs_over_255"], res["longlist"][0]["programs_over_255"]))
    small_bad, big_bad = res["shortlist"][1], res["longlist"][1]
    if big_bad and not small_bad:
        for f in big_bad:
            f = dict(f)
            f["how"] = "./check C06 --replay <this file>"
            ctx.violation("the meaning of a policy depends on its size (%s): %s; the same shapes at 20..60 instructions decide every event correctly" % (f["kind"], f["why"]), f)
    elif big_bad:
        ctx.note("policies above 255 instructions decide wrongly, and so do their small twins: not a size effect (C01-C04 own it): %s" % big_bad[0]["why"])
    ctx.assumptions += ["conditions are uninterpreted: every original jump carries a unique operand, so path equivalence is equality of unfoldings",
                        "exhaustiveness holds for MaxSkip 1..3; at the real limit 255 programs are generated (blow-ups of every enumerated shape, random), not enumerated"]
