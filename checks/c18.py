"""C18 - profiles are (found minus blacklisted) plus allowed, and load back."""
import json
import os
import random
import re
import shutil
import subprocess
from concurrent.futures import ThreadPoolExecutor

import cmdfam
import vlib

# (names with an underscore on purpose: exit_group, rt_sigreturn - a flag value is a list of names, not of words)
NR = {"read": 0, "write": 1, "close": 3, "exit_group": 231}
# a binary of another architecture than the host's (Profile!ArchNames is the BINARY's table): an i386 ELF, for which socketcall exists and accept does not
NR386 = {"read": 3, "write": 4, "rt_sigreturn": 173, "socketcall": 102}
GEN_CFG_386 = """CONSTANTS
  Universe = {"read", "write", "rt_sigreturn", "socketcall", "accept", "verif_bogus"}
  ArchNames = {"read", "write", "rt_sigreturn", "socketcall"}
  MaxFound = %d
  OutFile = "%s"
  Dev = {}
"""
TRIVIAL_MAIN = "package main\n\nimport \"os\"\n\nfunc main() { os.Exit(0) }\n"
GEN_CFG = """CONSTANTS
  Universe = {"read", "write", "close", "exit_group", "socketcall", "verif_bogus"}
  ArchNames = {"read", "write", "close", "exit_group"}
  MaxFound = %d
  OutFile = "%s"
  Dev = {}
"""


# what an -out file may hold from an earlier run: a longer profile of the same format
PRIOR_YAML = "seccomp:\n  default_action: errno\n  syscalls:\n  - action: allow\n    names:\n" + "".join("    - %s\n" % n for n in
    ["accept", "bind", "chdir", "dup", "epoll_wait", "fstat", "getpid", "ioctl", "kill", "listen", "mmap", "nanosleep", "open", "pipe", "read", "socket", "uname", "write"] * 3)
PRIOR_CODE = "package main\n\nvar earlier = []string{\n" + "".join('\t"%s",\n' % n for n in ["accept", "bind", "chdir", "dup", "epoll_wait", "fstat", "getpid"] * 12) + "}\n"


def listing(found, goarch="amd64", nrs=None):
    lines = []
    for i, name in enumerate(found):
        lines += cmdfam.site_function(i, "f%d_%s" % (i, name), (nrs or (NR if goarch == "amd64" else NR386))[name], via="raw" if i % 2 == 0 else "wrapper", pad=i % 3,
                                      raw_ins="SYSCALL" if goarch == "amd64" else ("INT $0x80", "SYSENTER")[i % 4 // 2])
    return "\n".join(lines) + ("\n" if lines else "")


def realise(c, table, r, related=False):
    """Profile.tla speaks of abstract names. A case is replayed with those names themselves or (every second case) with other syscalls of the
    binary's table standing in for the names the binary's architecture has: half of them from the 45 highest-numbered entries (numbers far
    above the table's entry count, behind the gap of unassigned numbers), the others anywhere. Returns the renamed case and its numbers."""
    own = sorted(NR if c["goarch"] == "amd64" else NR386)
    universe = set(own) | {"socketcall", "accept", "verif_bogus"}
    by_nr = sorted((nr, n) for n, nr in table.items() if n not in universe and nr > 0)
    high = [n for _, n in by_nr[-45:]]
    anyw = [n for _, n in by_nr[:-45]]
    rho, nrs = {}, {}
    if related:
        # names that CONTAIN each other (exit / exit_group, kill / tgkill, stat / fstat / newfstatat, read / pread64 / readlinkat): the
        # statement's set difference is over whole names - blacklisting one name of such a family removes that name only
        allnames = [n for _, n in by_nr]
        pairs = [(x, y) for x in allnames for y in allnames if x != y and x in y]
        r.shuffle(pairs)
        order = list(own)
        r.shuffle(order)
        used = set()
        for a in order:
            if a in rho:
                continue
            rest = [x for x in order if x not in rho and x != a]
            pick = next(((x, y) for x, y in pairs if x not in used and y not in used), None)
            if pick and rest:
                x, y = pick if r.randrange(2) else pick[::-1]
                rho[a], rho[rest[0]] = x, y
                used |= {x, y}
            else:
                n = next(n for n in allnames if n not in used)
                rho[a] = n
                used.add(n)
        nrs = {n: table[n] for n in rho.values()}
    for k, a in enumerate(own):
        if related:
            break
        pool = high if (k + r.randrange(2)) % 2 == 0 else anyw
        n = pool.pop(r.randrange(len(pool)))
        rho[a] = n
        nrs[n] = table[n]
    m = lambda xs: [rho.get(x, x) for x in xs]
    out = dict(c)
    for f in ("found", "bl", "al", "expect", "code"):
        out[f] = m(c[f])
    out["renamed"] = rho
    return out, nrs


def flag_args(flag, names, rnd):
    if not names:
        return []
    # the flag values are a multiset on the command line: a name may be given more than once
    # (repeated flag, or twice in one value); the statement speaks of the set
    names = list(names)
    if rnd.randrange(3) == 0:
        names.insert(rnd.randrange(len(names) + 1), rnd.choice(names))
    style = rnd.randrange(9)
    if style == 0:
        return [a for n in names for a in (flag, n)]
    # every separator the flag accepts (comma, semicolon, any white space: one name per line is a way to write such a list too), doubled
    # and trailing separators included
    sep = [",", " ", ";", "\n", "\t", ", ", "\r\n", ";\n"][style - 1]
    return [flag, sep.join(names) + (sep if rnd.randrange(4) == 0 else "")]


def check(ctx, replay=None):
    th = ctx.tier == "thorough"
    d = cmdfam.build_cmds(ctx)
    bindir = ctx.harness()
    out = ctx.path("profile_cases.json")
    ctx.tlc("ProfileGen", GEN_CFG % (3, out), workers=1, timeout=1200, java_opts="-Xss256m")
    cases = json.load(open(out))
    for c in cases:
        c["goarch"] = "amd64"
    # the same for an i386 binary (cross-compiled trivial program; the listing is injected through the cache as for the host's)
    bin386 = os.path.join(d, "target386")
    src386 = ctx.path("main386", "main.go")
    open(src386, "w").write(TRIVIAL_MAIN)
    open(os.path.join(os.path.dirname(src386), "go.mod"), "w").write("module verif386\n\ngo 1.18\n")
    rc, o, e = ctx.run(["go", "build", "-o", bin386, "."], cwd=os.path.dirname(src386), env={"GOARCH": "386", "CGO_ENABLED": "0"}, timeout=600)
    if rc == 0:
        out386 = ctx.path("profile_cases_386.json")
        ctx.tlc("ProfileGen", GEN_CFG_386 % (2, out386), name="ProfileGen386", workers=1, timeout=1200, java_opts="-Xss256m")
        c386 = json.load(open(out386))
        for c in c386:
            c["goarch"] = "386"
        cases += c386
    else:
        ctx.note("no i386 binary could be built: %s" % e[-200:])
    rnd = random.Random(ctx.seed)
    rnd.shuffle(cases)
    # make sure the interesting classes are in: duplicates, arch-foreign and unknown names in the flags, empty results
    def interesting(c):
        return (c["goarch"], len(set(c["found"])) < len(c["found"]), "socketcall" in c["al"], "accept" in c["al"], "verif_bogus" in c["al"] + c["bl"], not c["expect"], bool(set(c["bl"]) & set(c["found"])))
    picked, seen = [], {}
    for c in cases:
        k = interesting(c)
        if seen.get(k, 0) < (260 if th else 12):
            seen[k] = seen.get(k, 0) + 1
            picked.append(c)
    picked = picked[:(8000 if th else 400)]
    created = []
    work = os.path.join(d, "work")
    os.makedirs(work, exist_ok=True)

    rc, o, e = ctx.run([os.path.join(bindir, "archdump")], input="[]", timeout=120)
    if rc != 0:
        raise vlib.Machinery("archdump failed: " + e[-500:])
    tables = {a["var"]: a["names"] for a in json.loads(o.strip().splitlines()[-1])["arches"]}
    tables = {"amd64": tables["X86_64"], "386": tables["I386"]}

    def one(arg):
        i, c = arg
        r = random.Random(ctx.seed * 100003 + i)
        nrs = None
        if i % 2 == 1:
            c, nrs = realise(c, tables[c["goarch"]], r, related=(i % 4 == 3))
        bdir = os.path.join(work, "b%d" % i)
        os.makedirs(bdir, exist_ok=True)
        b = os.path.join(bdir, "target")
        shutil.copy(os.path.join(d, "probetarget") if c["goarch"] == "amd64" else bin386, b)
        cache = cmdfam.cache_path(b)
        created.append(cache)
        os.makedirs(os.path.dirname(cache), exist_ok=True)
        with open(cache, "w") as f:
            f.write(cmdfam.file_sha256(b) + "\n" + listing(c["found"], c["goarch"], nrs))
        fmt = "config" if i % 3 else "code"
        # Profile!Dests: standard output, a new -out file, or an -out file that already holds an earlier, longer profile
        dest = ("stdout", "newfile", "existing", "existing")[(i // 3) % 4]
        outf = os.path.join(bdir, "profile_{{.GOARCH}}.out" if i % 2 else "profile.out")
        real_outf = outf.replace("{{.GOARCH}}", c["goarch"])
        if dest == "existing":
            with open(real_outf, "w") as f:
                f.write(PRIOR_YAML if fmt == "config" else PRIOR_CODE)
        # -d puts the debug listing of all discovered sites in front of the profile (config format): the file is still the profile
        debug = ["-d"] if (fmt == "config" and i % 4 == 1) else []
        args = [os.path.join(d, "seccomp-profiler"), "-format", fmt] + debug + ([] if dest == "stdout" else ["-out", outf]) + flag_args("-b", c["bl"], r) + flag_args("-allow", c["al"], r) + [b]
        try:
            p = subprocess.run(args, capture_output=True, text=True, timeout=60, env={"PATH": os.path.join(work, "nopath"), "HOME": "/root"}, cwd="/")
        except subprocess.TimeoutExpired:
            return c, None, None, fmt, args
        names = None
        text = p.stdout
        if p.returncode == 0:
            if dest != "stdout":
                try:
                    text = open(real_outf).read()
                except OSError:
                    text = ""
            names = cmdfam.parse_profile_yaml(text) if fmt == "config" else re.findall(r'^\s+"([^"]+)",$', text, re.M)
        p.profile_text, p.dest = text, dest
        return c, p, names, fmt, args
    closure_items = []
    with ThreadPoolExecutor(max_workers=12) as ex:
        results = list(ex.map(one, list(enumerate(picked))))
    try:
        for c, p, names, fmt, args in results:
            if p is None:
                ctx.skip("profiler timed out")
                continue
            ctx.cov["evaluations"] += 1
            want = sorted(c["expect"])
            if c["found"] and (c["bl"] or c["al"]):
                ctx.cov["distinct_nontrivial"] += 1
            rep = {"binary": c["goarch"], "stand_ins": c.get("renamed"), "found": c["found"], "blacklist": c["bl"], "allow": c["al"], "format": fmt, "args": args[1:-1], "expected": want,
                   "destination": p.dest, "observed": names, "rc": p.returncode, "stderr": p.stderr[-300:], "how": "./check C18 quick"}
            # (no disassembler is reachable - PATH is an empty directory - so a run that succeeds has used the injected cache)
            if p.returncode != 0:
                ctx.note("the profiler failed on a well-formed listing (rc %d): %s" % (p.returncode, p.stderr[-120:]))   # nothing emitted: nothing to judge
                continue
            if names != want:
                why = "is not sorted / has duplicates" if sorted(set(names)) == want and names != want else "is not (found - blacklist) + (allow that exist for the architecture)"
                ctx.violation("the emitted allow-list %s %s; expected %s" % (names, why, want), rep)
                continue
            if fmt == "config":
                closure_items.append({"yaml": p.profile_text, "names": names, "arch": c["goarch"]})
            if sorted(c["code"]) != want:
                ctx.drift({"case": c, "what": "code-shaped model differs from the reference"})
        rc, o, e = ctx.run([os.path.join(bindir, "textcheck"), "-mode", "closure"], input=json.dumps(closure_items), timeout=1200)
        if rc != 0:
            raise vlib.Machinery("textcheck closure failed: " + e[-1500:])
        cl = json.loads(o.strip().splitlines()[-1])
        ctx.cov["traces_validated_against_impl"] = cl["checked"]
        for v in cl["violations"]:
            ctx.violation(v.splitlines()[0], {"what": "closure: emitted YAML -> configuration loader -> compiler -> decisions for every table number", "detail": v, "how": "./check C18 quick"})
    finally:
        for cpath in created:
            try:
                os.remove(cpath)
            except OSError:
                pass
    ctx.cov["states"] = ctx.cov["states"] or 1
    ctx.cov["transitions"] = ctx.cov["transitions"] or 1
    ctx.cov["cases_generated"] = len(cases)
    ctx.cov["cases_replayed_with_stand_in_syscalls"] = len([1 for c, p, names, fmt, args in results if c.get("renamed")])
    ctx.sample({"case": picked[0], "closure_profiles": len(closure_items)})
    ctx.cov["rule"] = ("cases of Profile.tla: every sequence of at most 3 discoveries over {read, write, close, exit_group} (the same syscall at several sites included) x every pair of disjoint "
                       "-b / -allow subsets of a 6-name universe (incl. a name of another architecture and an unknown name); %d of %d cases (seeded, stratified by class) run on the real "
                       "profiler binary (every second one with other syscalls of the binary's table standing in for the model's names, half of them from the 45 highest numbers) through an injected cache file, flags in nine syntaxes (repeated flag; comma, blank, semicolon, newline, tab, CRLF and mixed separators), both output formats; every YAML profile then loaded through ucfg, compiled and executed "
                       "on every x86_64 table number; non-trivial = discoveries and at least one flag" % (len(picked), len(cases)))
    ctx.assumptions += ["the found set reaches the profiler through the real extraction of a synthetic listing (site model); flag sets are disjoint as the statement demands"]
