"""C17 - the profiler never trusts an incomplete cached disassembly."""
import json
import os
import re
import shutil
import subprocess

import cmdfam
import vlib

NCHUNKS = 4
MC_CFG = """CONSTANTS
  NChunks = %d
  Dev = {}
SPECIFICATION Spec
INVARIANTS SecondRunSound ValidMeansComplete UndisturbedSucceeds
CHECK_DEADLOCK FALSE
"""
# one distinct syscall per chunk, so that a partial body means fewer syscalls
CHUNK_SYSCALLS = [("write", 1), ("close", 3), ("openat", 257), ("exit_group", 231)]


def listing_chunks():
    chunks = []
    for i, (name, nr) in enumerate(CHUNK_SYSCALLS):
        lines = []
        # > 8 KiB per chunk so that the buffered writer (4096 bytes) has flushed a part of it
        lines += cmdfam.site_function(i * 3, "pad%d" % i, 0, pad=150)[:-3] + ["  main.go:1\t0x1\t\tc3\t\t\tRET\t"]
        lines += cmdfam.site_function(i * 3 + 1, "f_%s" % name, nr, via="raw" if i % 2 == 0 else "wrapper", pad=3)
        chunks.append("\n".join(lines) + "\n")
    return chunks


def small_chunks():
    """A listing that fits the buffered writer (whole cache file < 4 KiB): everything is written by the final flush."""
    chunks = []
    for i, (name, nr) in enumerate(CHUNK_SYSCALLS):
        chunks.append("\n".join(cmdfam.site_function(i, "g_%s" % name, nr, via="raw" if i % 2 == 0 else "wrapper", pad=2)) + "\n")
    return chunks


def run_profiler(d, fakedir, binary, with_go=True, timeout=60, fsize=None):
    # "tool missing": a PATH without any `go` (the host's real go must not be found either)
    env = {"PATH": fakedir + ":/usr/bin:/bin" if with_go else os.path.join(fakedir, "empty"), "FAKEGO_DIR": fakedir, "HOME": "/root"}
    pre = None
    if fsize is not None:
        import resource
        import signal

        def pre():
            # a write that would grow a file beyond fsize bytes fails part-way with EFBIG (disk-full / quota stand-in)
            signal.signal(signal.SIGXFSZ, signal.SIG_IGN)
            resource.setrlimit(resource.RLIMIT_FSIZE, (fsize, fsize))
    try:
        p = subprocess.run([os.path.join(d, "seccomp-profiler"), "-format", "config", binary], capture_output=True, text=True, timeout=timeout, env=env, cwd="/",
                           preexec_fn=pre)
    except subprocess.TimeoutExpired:
        return None
    return {"rc": p.returncode, "names": cmdfam.parse_profile_yaml(p.stdout) if p.returncode == 0 else None, "stderr": p.stderr[-600:],
            "cached": "Using cached objdump" in p.stderr}


def option_histories(ctx, d, fresh_binary):
    import re
    go = shutil.which("go")
    prof = os.path.join(d, "seccomp-profiler")
    if not go:
        ctx.note("no go toolchain on PATH: option histories not run")
        return
    env = {"PATH": os.path.dirname(go) + ":/usr/bin:/bin", "HOME": "/root", "GOFLAGS": "-mod=mod", "GOPROXY": "off", "GOSUMDB": "off", "GOTOOLCHAIN": "local"}

    def run(args, binary):
        try:
            p = subprocess.run([prof] + args + [binary], capture_output=True, text=True, timeout=120, env=env, cwd="/")
        except subprocess.TimeoutExpired:
            return None
        return {"rc": p.returncode, "args": args, "names": cmdfam.parse_profile_yaml(p.stdout) if p.returncode == 0 and "-format=code" not in args else None, "stderr": p.stderr[-400:],
                "cached": "Using cached objdump" in p.stderr}
    usage = subprocess.run([prof, "-h"], capture_output=True, text=True, env=env).stderr
    names = sorted(set(re.findall(r"^  -([A-Za-z][\w-]*)", usage, re.M)))
    if len(names) < 4:
        raise vlib.Machinery("the usage text of the profiler lists only the options %s" % names)
    cold = run(["-format=config"], fresh_binary("optcold"))
    if cold is None or cold["rc"] != 0 or not cold["names"]:
        ctx.note("the real toolchain gives no cold-cache profile (%s): option histories not run" % (cold,))
        return
    want = sorted(cold["names"])
    outdir = os.path.join(d, "optout")
    os.makedirs(outdir, exist_ok=True)
    known = {"d": ["true"], "format": ["code", "config"], "b": ["read"], "allow": ["read,verif_bogus"], "out": [os.path.join(outdir, "first.out")]}
    nrun = 0
    for k, name in enumerate(names):
        for j, val in enumerate(known.get(name, ["true", "main\\.main", "1", "x"])):
            b = fresh_binary("opt%d_%d" % (k, j))
            first = run(["-%s=%s" % (name, val)], b)
            second = run(["-format=config"], b)
            nrun += 1
            ctx.cov["evaluations"] += 1
            ctx.cov["traces_validated_against_impl"] += 1
            if first is None or second is None:
                ctx.skip("option history timed out")
                continue
            if second["rc"] == 0 and sorted(second["names"]) != want:
                missing = sorted(set(want) - set(second["names"]))
                ctx.violation("after a first run with the option -%s=%s the next run %sprinted a profile of %d syscalls; a cold-cache run gives %d (missing: %s)"
                              % (name, val, "reused the cache and " if second["cached"] else "", len(second["names"]), len(want), missing[:8]),
                              {"fate": "earlier run with -%s=%s" % (name, val), "first_run": first, "second_run": {k2: v for k2, v in second.items() if k2 != "names"},
                               "second_profile": second["names"], "cold_profile": want, "admissible": "the cold-cache profile, or an error", "how": "./check C17 quick"})
    ctx.cov["option_histories"] = {"options_in_the_usage_text": names, "runs": nrun, "cold_profile_syscalls": len(want)}


def publish_kill(ctx, d, fresh_binary, want_names):
    """ProfCache!Kill at the step that PUBLISHES the listing (rename): the temporary directory of the process lies on another file system
    than the cache directory (TMPDIR on tmpfs), the listing is large (64 MB of padding between the first and the other call sites), and
    the profiler is killed the moment a file appears under the cache name - complete (a rename) or not."""
    import threading
    import time
    if not os.path.isdir("/dev/shm"):
        ctx.note("no /dev/shm: the kill at the publishing step is not staged")
        return
    fakedir = os.path.join(d, "fakego_big")
    chunks = listing_chunks()
    pad = ("\n".join(cmdfam.site_function(900, "bigpad", 0, pad=150)[:-3] + ["  main.go:1\t0x1\t\tc3\t\t\tRET\t"]) + "\n")
    pad = pad * (64 * 1024 * 1024 // len(pad))
    cmdfam.make_fake_go(fakedir, [chunks[0], pad] + chunks[1:])
    tmp = "/dev/shm/verif-c17-%d" % os.getpid()
    os.makedirs(tmp, exist_ok=True)
    try:
        for k in range(2):
            b = fresh_binary("publish%d" % k)
            cache = cmdfam.cache_path(b)
            env = {"PATH": fakedir + ":/usr/bin:/bin", "FAKEGO_DIR": fakedir, "HOME": "/root", "TMPDIR": tmp}
            p = subprocess.Popen([os.path.join(d, "seccomp-profiler"), "-format", "config", b], stdout=subprocess.DEVNULL, stderr=subprocess.DEVNULL, env=env, cwd="/")
            seen = {}

            def watch():
                t0 = time.time()
                while p.poll() is None and time.time() - t0 < 120:
                    try:
                        seen["size"] = os.path.getsize(cache)
                        p.kill()
                        return
                    except OSError:
                        pass
            w = threading.Thread(target=watch)
            w.start()
            p.wait()
            w.join()
            cmdfam.set_mode(fakedir, "ok")
            second = run_profiler(d, fakedir, b, timeout=300)
            ctx.cov["evaluations"] += 1
            ctx.cov["kills_at_the_publishing_step"] = ctx.cov.get("kills_at_the_publishing_step", 0) + (1 if "size" in seen else 0)
            if second is None:
                ctx.skip("run after a kill at the publishing step timed out")
                continue
            if second["rc"] == 0 and sorted(second["names"]) != sorted(want_names):
                ctx.violation("after a first run that was killed the moment a file appeared under the cache name (%s bytes then; temporary directory on another file system) the next run %sprinted the profile %s; a cold-cache run gives %s"
                              % (seen.get("size"), "reused the cache and " if second["cached"] else "", second["names"], sorted(want_names)),
                              {"fate": "killed at the publishing step, TMPDIR on tmpfs", "second_run": second, "cold_profile": sorted(want_names), "admissible": "the cold-cache profile, or an error", "how": "./check C17 quick"})
    finally:
        shutil.rmtree(tmp, ignore_errors=True)


def check(ctx, replay=None):
    th = ctx.tier == "thorough"
    d = cmdfam.build_cmds(ctx)
    r2 = ctx.tlc("ProfCache2", "CONSTANTS\n  NChunks = 3\n  Dev = {}\nSPECIFICATION Spec\nINVARIANTS CacheSoundAfterOverlap\nCHECK_DEADLOCK FALSE\n", workers=2, timeout=600)
    if r2["violated"]:
        raise vlib.Machinery("TLC: %s violated in ProfCache2: the specification of the unchanged design does not satisfy its own invariant" % r2["violated"])
    r = ctx.tlc("ProfCache", MC_CFG % NCHUNKS, workers=4, timeout=600)
    if r["violated"]:
        raise vlib.Machinery("TLC: %s violated: the specification of the unchanged design does not satisfy its own invariant" % r["violated"])
    if th:
        ctx.tlc("ProfCache", MC_CFG % 7, name="ProfCache7", workers=8, timeout=1200)
    fakedir = os.path.join(d, "fakego")
    cmdfam.make_fake_go(fakedir, listing_chunks())
    created = []

    # ProfCache!tempOK: with a binary name of 242 characters the cache file's name still fits NAME_MAX, the temporary file's does not
    LONG = "t" * 242

    def fresh_binary(tag, base="target"):
        # every scenario has a binary of its own: own directory, own NAME (short: target_<tag>; long: padded to 242 characters) and own
        # CONTENT (the tag appended), so that nothing one scenario leaves in the shared cache directory can be mistaken for another's
        bdir = os.path.join(d, "bin_%s" % tag)
        os.makedirs(bdir, exist_ok=True)
        name = ("target_%s" % tag) if base == "target" else (("t%s_" % tag) + base)[:len(base)]
        b = os.path.join(bdir, name)
        shutil.copy(os.path.join(d, "probetarget"), b)
        with open(b, "ab") as f:
            f.write(("scenario %s" % tag).encode())
        created.append(cmdfam.cache_path(b))
        return b
    try:
        # the cold-cache profile
        cold_bin = fresh_binary("cold")
        cmdfam.set_mode(fakedir, "ok")
        cold = run_profiler(d, fakedir, cold_bin)
        if cold is None or cold["rc"] != 0 or sorted(cold["names"]) != sorted(n for n, _ in CHUNK_SYSCALLS):
            raise vlib.Machinery("the cold run does not give the expected profile: %s" % (cold,))
        want = cold["names"]
        # first-run fates from the specification: every disassembler failure point and every kill point, tool missing, clean
        # (sig_after_i: the disassembler itself dies from a signal - OOM killer, crash - after chunk i; a failure like a non-zero exit)
        fates = (["ok", "missing"] + ["fail_after_%d" % i for i in range(NCHUNKS + 1)] + ["kill_after_%d" % i for i in range(NCHUNKS + 1)]
                 + ["sig_after_%d" % i for i in range(NCHUNKS + 1)]
                 # ProfCache!Interrupt: a catchable signal reaches the profiler while the disassembler writes (the disassembler goes on to the end
                 # after SIGTERM / SIGINT, and gives up after SIGHUP)
                 + ["%s_after_%d" % (s, i) for s in ("term", "int", "hup") for i in range(NCHUNKS + 1)])
        reps = 8 if th else 1
        plan = [(fate, rebuilt, "target", False) for fate in fates for rebuilt in (False, True)]
        plan += [(fate, False, LONG, False) for fate in ["ok", "missing", "fail_after_1"] + ["kill_after_%d" % i for i in range(NCHUNKS + 1)]]
        # ProfCache!Init: the cache may hold the complete listing of an OLDER version of the binary (an undisturbed earlier run; the older
        # version makes fewer syscalls) before the binary is rebuilt and the disturbed run happens
        plan += [(fate, False, "target", True) for fate in fates]
        nprior = 0
        for fate, rebuilt, base, prior in plan:
            if True:
                for rep in range(reps):
                    tag = "%s_%d_%d_%d%s" % (fate, rebuilt, rep, len(base), "_prior" if prior else "")
                    b = fresh_binary(tag, base)
                    if prior:
                        cur = open(b, "rb").read()
                        with open(b, "ab") as f:
                            f.write(b"OLDVERSION")          # (the fake disassembler serves the first chunk only for such a binary)
                        cmdfam.set_mode(fakedir, "ok")
                        zeroth = run_profiler(d, fakedir, b)
                        if zeroth is None or zeroth["rc"] != 0 or zeroth["names"] != [CHUNK_SYSCALLS[0][0]]:
                            raise vlib.Machinery("the run on the older version does not give the older profile: %s" % (zeroth,))
                        with open(b, "wb") as f:
                            f.write(cur)                     # rebuilt: the current version
                        nprior += 1
                    cmdfam.set_mode(fakedir, fate if fate != "missing" else "ok")
                    first = run_profiler(d, fakedir, b, with_go=(fate != "missing"))
                    if first is None:
                        ctx.skip("first run timed out (%s)" % fate)
                        continue
                    cache = cmdfam.cache_path(b)
                    disk = None
                    if os.path.exists(cache):
                        with open(cache, "rb") as f:
                            data = f.read()
                        disk = {"bytes": len(data), "hash_line_valid": data[:64].decode("latin1") == cmdfam.file_sha256(b)}
                    if rebuilt:
                        with open(b, "ab") as f:
                            f.write(b"\0")
                    cmdfam.set_mode(fakedir, "ok")
                    second = run_profiler(d, fakedir, b)
                    ctx.cov["evaluations"] += 1
                    ctx.cov["traces_validated_against_impl"] += 1
                    if fate != "ok":
                        ctx.cov["distinct_nontrivial"] += 1
                    if second is None:
                        ctx.skip("second run timed out (%s)" % fate)
                        continue
                    if fate.startswith(("fail", "sig")) or fate == "missing":
                        if first["rc"] == 0:
                            # the statement constrains the NEXT run only: recorded, not a verdict
                            ctx.note("the disassembler failed (%s) but the profiler exited with status 0 and a profile of %s" % (fate, first["names"]))
                    if second["rc"] == 0 and sorted(second["names"]) != sorted(want):
                        ctx.violation("after a first run with fate '%s'%s%s the next run printed the profile %s; a cold-cache run gives %s"
                                      % (fate, (" on a binary whose older version had been cached completely" if prior else "") + (" and a rebuilt binary" if rebuilt else ""), " (binary name of %d characters)" % len(base) if base != "target" else "", second["names"], want),
                                      {"fate": fate, "rebuilt": rebuilt, "older_version_cached_before": prior, "binary_name_length": len(base), "first_run": first, "cache_after_first_run": disk, "second_run": second, "cold_profile": want,
                                       "admissible": "the cold-cache profile, or an error", "how": "./check C17 quick"})
                    if len(ctx.cov["samples"]) < 3 and fate.startswith("kill"):
                        ctx.sample({"fate": fate, "rebuilt": rebuilt, "first_rc": first["rc"], "cache_after_first_run": disk, "second_used_cache": second["cached"], "second_profile": second["names"]})
        ctx.cov["scenarios_with_an_older_version_cached_before"] = nprior
        # overlapping runs on one binary (ProfCache2.tla): run A has written `a` chunks when run B starts; B writes `b` chunks; A finishes
        # and renames; then B's disassembler fails. The next normal run must give the cold-cache profile or fail.
        import glob
        import time
        for a, b_chunks in ((2, 1), (3, 1), (3, 2)):
            b = fresh_binary("overlap_%d_%d" % (a, b_chunks))
            cache = cmdfam.cache_path(b)
            ga, gb = os.path.join(d, "gateA_%d_%d" % (a, b_chunks)), os.path.join(d, "gateB_%d_%d" % (a, b_chunks))
            env = {"PATH": fakedir + ":/usr/bin:/bin", "FAKEGO_DIR": fakedir, "HOME": "/root"}
            cmdfam.set_mode(fakedir, "ok")
            pa = subprocess.Popen([os.path.join(d, "seccomp-profiler"), "-format", "config", b], stdout=subprocess.PIPE, stderr=subprocess.PIPE, text=True, cwd="/",
                                  env=dict(env, FAKEGO_MODE="gate_after_%d:%s" % (a, ga)))
            t0 = time.time()
            while time.time() - t0 < 10 and not any(os.path.getsize(x) > 4096 * a for x in glob.glob(cache + ".tmp*")):
                time.sleep(0.02)
            pb = subprocess.Popen([os.path.join(d, "seccomp-profiler"), "-format", "config", b], stdout=subprocess.PIPE, stderr=subprocess.PIPE, text=True, cwd="/",
                                  env=dict(env, FAKEGO_MODE="gatefail_after_%d:%s" % (b_chunks, gb)))
            time.sleep(0.5)
            open(ga, "w").close()
            try:
                pa.communicate(timeout=30)
                open(gb, "w").close()
                pb.communicate(timeout=30)
            except subprocess.TimeoutExpired:
                pa.kill()
                pb.kill()
                ctx.skip("overlapping runs timed out")
                continue
            third = run_profiler(d, fakedir, b)
            ctx.cov["evaluations"] += 1
            ctx.cov["traces_validated_against_impl"] += 1
            ctx.cov["distinct_nontrivial"] += 1
            ctx.cov["overlapping_run_scenarios"] = ctx.cov.get("overlapping_run_scenarios", 0) + 1
            if third is not None and third["rc"] == 0 and sorted(third["names"]) != sorted(want):
                ctx.violation("after two overlapping runs on one binary (A had written %d chunks when B started, B's disassembler failed after %d, A finished in between) "
                              "the next run printed the profile %s; a cold-cache run gives %s" % (a, b_chunks, third["names"], want),
                              {"fate": "overlap a=%d b=%d" % (a, b_chunks), "run_A_rc": pa.returncode, "run_B_rc": pb.returncode, "third_run": third, "cold_profile": want,
                               "admissible": "the cold-cache profile, or an error", "how": "./check C17 quick"})
        # write failures part-way (file size limit) with a listing small enough to sit in the writer's buffer until the final flush
        smalldir = os.path.join(d, "fakego_small")
        cmdfam.make_fake_go(smalldir, small_chunks())
        total = 65 + sum(len(c) for c in small_chunks())
        cold_small = run_profiler(d, smalldir, fresh_binary("cold_small"))
        if cold_small is None or cold_small["rc"] != 0 or sorted(cold_small["names"]) != sorted(want):
            raise vlib.Machinery("the cold run on the small listing does not give the expected profile: %s" % (cold_small,))
        for limit in sorted(set(list(range(0, total + 64, 96 if th else 256)) + [64, 65, 66, total - 1, total])):
            b = fresh_binary("fsize_%d" % limit)
            first = run_profiler(d, smalldir, b, fsize=limit)
            second = run_profiler(d, smalldir, b)
            ctx.cov["evaluations"] += 1
            ctx.cov["traces_validated_against_impl"] += 1
            ctx.cov["distinct_nontrivial"] += 1
            if first is None or second is None:
                ctx.skip("run under a file size limit timed out")
                continue
            cache = cmdfam.cache_path(b)
            if limit < total and first["rc"] == 0:
                ctx.note("a write to the cache failed (file size limit %d of %d bytes) but the profiler exited with status 0" % (limit, total))
            if second["rc"] == 0 and sorted(second["names"]) != sorted(want):
                ctx.violation("after a first run whose cache write failed beyond %d of %d bytes the next run printed the profile %s; a cold-cache run gives %s"
                              % (limit, total, second["names"], want),
                              {"fate": "write fails beyond %d bytes" % limit, "first_run": first, "second_run": second, "cold_profile": want,
                               "admissible": "the cold-cache profile, or an error", "how": "./check C17 quick"})
        # an earlier run with any of the command's OPTIONS, then a normal run - with the real toolchain, so that options the command hands
        # on to the disassembler mean what they mean there. The options are read from the command's own usage text (a new one is swept too).
        option_histories(ctx, d, fresh_binary)
        publish_kill(ctx, d, fresh_binary, want)
    finally:
        for c in created:
            for p in [c] + [os.path.join(os.path.dirname(c), x) for x in (os.listdir(os.path.dirname(c)) if os.path.isdir(os.path.dirname(c)) else []) if x.startswith(os.path.basename(c))]:
                try:
                    os.remove(p)
                except OSError:
                    pass
    ctx.cov["rule"] = ("first-run fates of ProfCache.tla - clean, disassembler missing, non-zero exit after chunk 0..%d, SIGKILL of the profiler after chunk 0..%d (the disk keeps what the "
                       "4096-byte buffered writer had flushed) - x binary rebuilt or not, each followed by a normal run whose printed profile is compared with a cold-cache run; "
                       "the real profiler binary with a fake `go` first on PATH serving a canned listing in chunks of > 8 KiB with one distinct syscall each; non-trivial = disturbed first run"
                       % (NCHUNKS, NCHUNKS))
    ctx.cov["rule"] += ("; plus a listing that fits the 4 KiB write buffer with the first run under a file size limit at every ~%d bytes of the cache file "
                        "(a write that fails part-way)" % (96 if th else 256))
    ctx.assumptions += ["crash = process death (SIGKILL), not power loss; kill points between two steps of the cache writer other than chunk boundaries are covered by the model only",
                        "the cache directory is the real ~/.seccomp-profiler with file names unique to this run (removed afterwards)"]
