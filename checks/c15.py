"""C15 - the sandbox command runs its target only under the loaded policy."""
import json
import os
import shutil
import re
import subprocess

import cmdfam
import polfam
import vlib

FAULTS = ["none", "noargs", "nofile", "unreadable", "badyaml", "wrongtype", "unknownaction", "unknownsyscall", "foreignsyscall", "nosyscalls", "kernelrefuses", "seccompdenied", "notarget"]
FOREIGN = ["_llseek", "socketcall", "mmap2", "fstat64"]
# the same fault classes in other places of the file (Sandbox.tla does not distinguish them: they are realisations of "unknownsyscall")
UNKNOWN_VARIANTS = {
    "in a group whose action is the default action": "seccomp:\n  default_action: allow\n  syscalls:\n  - action: allow\n    names:\n    - tuxcall\n    - verif_no_such_syscall\n  - action: errno\n    names:\n    - security\n",
    "in names_with_args": "seccomp:\n  default_action: allow\n  syscalls:\n  - action: errno\n    names:\n    - security\n    names_with_args:\n    - name: verif_no_such_syscall\n      arguments:\n      - argument: 0\n        operation: Equal\n        value: 1\n",
    "in the last of three groups": "seccomp:\n  default_action: allow\n  syscalls:\n  - action: errno\n    names:\n    - tuxcall\n  - action: log\n    names:\n    - security\n  - action: trap\n    names:\n    - verif_no_such_syscall\n",
}
MC_CFG = """CONSTANTS
  Faults = {%s}
  Dev = {}
SPECIFICATION Spec
INVARIANTS ExecOnlyUnderFilter FailureExitsNonZeroWithoutTarget WholeFileEnforced HappyPathRuns TraceOrder PolicyAsWritten
CHECK_DEADLOCK FALSE
""" % ", ".join('"%s"' % f for f in FAULTS + ["execdenied"])
TRACE_CFG = """CONSTANTS
  Faults = {%s}
  Dev = {}
  TraceFile = "%%s"
SPECIFICATION TSpec
INVARIANT NotAccepted
ALIAS Small
CHECK_DEADLOCK FALSE
""" % ", ".join('"%s"' % f for f in FAULTS)

GOOD = """seccomp:
  default_action: allow
  syscalls:
  - action: errno
    names:
    - tuxcall
    - security
  - action: errno
    names_with_args:
    - name: getpmsg
      arguments:
      - argument: 1
        operation: Equal
        value: 7
"""


def policy_for(fault):
    big = "".join("    - name: putpmsg\n      arguments:\n      - argument: 0\n        operation: Equal\n        value: %d\n" % i for i in range(1100))
    return {
        "badyaml": "seccomp: [unclosed\n  default_action: allow\n",
        "wrongtype": "seccomp:\n  default_action: allow\n  syscalls: notalist\n",
        "unknownaction": GOOD.replace("default_action: allow", "default_action: permit"),
        "unknownsyscall": GOOD.replace("    - security\n", "    - verif_no_such_syscall\n"),
        # unknown to the table the filter is built for, known to another one (i386 / arm names on x86_64): as unknown as a misspelt one
        "foreignsyscall": GOOD.replace("    - security\n", "    - %s\n" % FOREIGN[0]),
        "nosyscalls": "seccomp:\n  default_action: allow\n  syscalls: []\n",
        "kernelrefuses": "seccomp:\n  default_action: allow\n  syscalls:\n  - action: errno\n    names_with_args:\n" + big,
    }.get(fault, GOOD)


def big_policy(nbytes, tail):
    """A policy file of about nbytes: a first group, then comment padding in 64-byte lines (so that any power-of-two cut falls on a
    line boundary and leaves a well-formed prefix), then `tail` (a second group, or a defect) at the very end."""
    head = "seccomp:\n  default_action: allow\n  syscalls:\n  - action: errno\n    names:\n    - tuxcall\n"
    head += "#" + "-" * ((-len(head) - 2) % 64) + "\n"
    assert len(head) % 64 == 0
    pad = ("#" + "." * 62 + "\n") * (nbytes // 64)
    return head + pad + tail


BIG_TAIL_GOOD = "  - action: errno\n    names:\n    - security\n"
BIG_TAILS_BAD = {"unknownsyscall": "  - action: errno\n    names:\n    - verif_no_such_syscall\n",
                 "badyaml": "  - action: errno\n    names: [unclosed\n",
                 "unknownaction": "  - action: permit\n    names:\n    - security\n"}


SETARCH = shutil.which("setarch")


def run_sandbox(d, scratch, fault, idx, nnp=True, uid=0, strace=False, policy_text=None, probes=None, fatal=None, policy_path=None):
    pol = os.path.join(scratch, "pol_%s_%d.yml" % (fault, idx))
    with open(pol, "w") as f:
        f.write(policy_text or policy_for(fault))
    os.chmod(pol, 0o644)
    marker = os.path.join(scratch, "marker_%s_%d" % (fault, idx))
    if os.path.exists(marker):
        os.remove(marker)
    target = os.path.join(d, "probetarget")
    args = [os.path.join(d, "sandbox"), "-policy", pol]
    if not nnp:
        args.append("-no-new-privs=false")
    if fault == "nofile":
        args[2] = os.path.join(scratch, "does-not-exist.yml")
    if policy_path:
        args[2] = policy_path
    if fault == "unreadable":
        os.chmod(pol, 0o600)
        uid = 65534
    if fault == "notarget":
        target = os.path.join(d, "no-such-target")
    if fault != "noargs":
        args += [target] + (probes or ["184", "185", "183", "181:0:7", "181:0:8"])
    if fault == "seccompdenied":
        # the command runs under an enclosing filter that answers seccomp(2) with ENOSYS (harness command underblock)
        args = [os.path.join(d, "underblock")] + args
    kw = {}
    if uid:
        kw = dict(user=uid, group=uid, extra_groups=[])
    # Sandbox!Domain: the execution domain the command is started in is no input of the policy it installs - every third undisturbed
    # run starts under `setarch i686` (PER_LINUX32: uname(2) reports a 32-bit machine to the same 64-bit programs), every sixth with
    # the 2.6 version string on top
    domain = "native"
    if fault == "none" and idx % 3 == 2 and SETARCH:
        domain = "PER_LINUX32" + ("|UNAME26" if idx % 6 == 5 else "")
        args = [SETARCH, "i686"] + (["--uname-2.6"] if idx % 6 == 5 else []) + args
    st = None
    if strace:
        st = os.path.join(scratch, "strace_%s_%d.txt" % (fault, idx))
        args = ["strace", "-f", "-X", "raw", "-e", "trace=seccomp,execve,exit_group", "-o", st] + args
    env = {"PATH": "/usr/bin:/bin", "VERIF_MARKER": marker, "HOME": "/"}
    if fatal:
        env["VERIF_FATAL_PROBE"] = fatal
    try:
        p = subprocess.run(args, capture_output=True, text=True, timeout=60, env=env, cwd="/", **kw)
    except subprocess.TimeoutExpired:
        return None
    return {"fault": fault, "rc": p.returncode, "stdout": p.stdout, "stderr": p.stderr[-400:], "marker": os.path.exists(marker), "strace": st,
            "sigsys": p.returncode in (-31, 159) or "SIGSYS" in p.stderr or "bad system call" in p.stderr,
            "target": target, "nnp": nnp, "uid": uid, "domain": domain}


def strace_events(path, target, fault):
    """begin / seccomp / execve / exit events of the sandbox process (the first pid) and its children."""
    ev = [{"ev": "begin", "fault": fault}]
    main = None
    # the execs that bring the command itself up are not its events: strace -> command, or strace -> underblock -> command
    skip_execs = 2 if fault == "seccompdenied" else 1
    for line in open(path):
        m = re.match(r"(\d+)\s+(\w+)\((.*)\)\s+=\s+(-?\d+|\?)", line)
        if not m:
            continue
        pid, call, args, ret = m.group(1), m.group(2), m.group(3), m.group(4)
        if main is None:
            main = pid
        if call == "execve":
            if skip_execs > 0:
                skip_execs -= 1
                continue
            ev.append({"ev": "execve", "target": target in args, "ok": ret == "0"})
        elif call == "seccomp":
            if args.startswith("0x1,") or args.startswith("1,"):
                ev.append({"ev": "seccomp", "ok": ret == "0"})
        elif call == "exit_group" and pid == main:
            ev.append({"ev": "exit", "code": int(args.split(",")[0], 0)})
    return ev


def abstract_yaml(case_pol, sys):
    """Documented YAML for an abstract policy of CompileGen over the probe syscalls (W = 1, identity embedding)."""
    out = ["seccomp:", "  default_action: %s" % case_pol["def"], "  syscalls:"]
    for g in case_pol["groups"]:
        if not g["names"] and not g["conds"]:
            continue
        out.append("  - action: %s" % g["act"])
        if g["names"]:
            out.append("    names:")
            out += ["    - %s" % sys[n][0] for n in g["names"]]
        if g["conds"]:
            out.append("    names_with_args:")
            for e in g["conds"]:
                out.append("    - name: %s" % sys[e["num"]][0])
                out.append("      arguments:")
                for c in e["conds"]:
                    v = ((c["val"] // 2) << 32) | (c["val"] % 2)
                    out += ["      - argument: %d" % c["arg"], "        operation: %s" % c["op"], "        value: %d" % v]
    return "\n".join(out) + "\n"


def check(ctx, replay=None):
    th = ctx.tier == "thorough"
    d = cmdfam.build_cmds(ctx)
    scratch = os.path.join(d, "work")
    os.makedirs(scratch, exist_ok=True)
    os.chmod(scratch, 0o777)
    r = ctx.tlc("Sandbox", MC_CFG, workers=2, timeout=300)
    if r["violated"]:
        raise vlib.Machinery("TLC: %s violated: the specification of the unchanged design does not satisfy its own invariant" % r["violated"])

    def viol(msg, res, extra=None):
        o = {"run": {k: res[k] for k in ("fault", "rc", "stderr", "marker", "nnp", "uid")}, "policy": policy_for(res["fault"])[:2000],
             "admissible": "non-zero exit without starting the target for every failure before exec; exit 0 with the target run under the filter otherwise",
             "how": "./check C15 quick"}
        if extra:
            o.update(extra)
        ctx.violation(msg, o)

    # (a) fault enumeration x no-new-privs x privilege, with strace for trace validation
    traces = []
    idx = 0
    for fault in FAULTS:
        for nnp in (True, False):
            for uid in (0, 65534):
                if fault == "unreadable" and uid == 0:
                    continue
                idx += 1
                use_strace = uid == 0
                res = run_sandbox(d, scratch, fault, idx, nnp=nnp, uid=uid, strace=use_strace)
                if res is None:
                    ctx.skip("sandbox run timed out (%s)" % fault)
                    continue
                ctx.cov["evaluations"] += 1
                expect_fail = fault != "none" or (not nnp and uid != 0)   # unprivileged without no_new_privs: the kernel refuses
                eff_fault = fault if fault != "none" or not expect_fail else "kernelrefuses"
                if expect_fail:
                    ctx.cov["distinct_nontrivial"] += 1
                    if res["rc"] == 0:
                        viol("fault '%s': the sandbox exited with status 0" % eff_fault, res)
                    if res["marker"]:
                        viol("fault '%s': the target was started although the policy was not in force" % eff_fault, res)
                else:
                    if res["rc"] != 0 or not res["marker"]:
                        # the statement does not oblige the command to run anything: recorded, not a verdict
                        ctx.note("valid policy (nnp=%s uid=%d): the sandbox did not run the target (rc %d): %s" % (nnp, uid, res["rc"], res["stderr"][-120:]))
                    else:
                        try:
                            o = json.loads(res["stdout"].strip().splitlines()[-1])
                            got = [p["errno"] for p in o["probes"]]
                            want = [1, 1, 38, 1, 38]
                            if got != want or o["status"]["seccomp"] != 2:
                                viol("the target does not observe the policy's decisions: probes %s, expected %s, Seccomp %s" % (got, want, o["status"]["seccomp"]), res)
                        except Exception as e:  # noqa
                            viol("the target's output is unreadable: %s" % e, res)
                if use_strace and res["strace"] and os.path.exists(res["strace"]):
                    traces.append((eff_fault, strace_events(res["strace"], os.path.basename(res["target"]), eff_fault), res))
    # a policy of several groups that together exceed the kernel's 4096 instructions (every group well inside it), with an exception in
    # front of a rule (allow afs_syscall if arg0 == 1 ... errno afs_syscall): the kernel refuses the program - or, whatever the command
    # does to make it fit, a target that runs observes the policy's decisions (first matching group)
    big = "seccomp:\n  default_action: allow\n  syscalls:\n  - action: allow\n    names_with_args:\n    - name: afs_syscall\n      arguments:\n      - argument: 0\n        operation: Equal\n        value: 1\n"
    for g in range(3):
        big += "  - action: errno\n    names_with_args:\n" + "".join(
            "    - name: putpmsg\n      arguments:\n      - argument: %d\n        operation: Equal\n        value: %d\n" % (g, 100 + i) for i in range(450))
    big += "  - action: errno\n    names:\n    - afs_syscall\n"
    for k in range(2):
        idx += 1
        res = run_sandbox(d, scratch, "none", 9000 + 3 * k, policy_text=big, probes=["183:1", "183:2", "183:0", "184"])   # (9000, 9003: native domain)
        if res is None:
            ctx.skip("sandbox run timed out (oversize policy)")
            continue
        ctx.cov["evaluations"] += 1
        ctx.cov["oversize_policies_in_several_groups"] = ctx.cov.get("oversize_policies_in_several_groups", 0) + 1
        if res["marker"]:
            try:
                got = [p["errno"] for p in json.loads(res["stdout"].strip().splitlines()[-1])["probes"]]
            except Exception:
                got = None
            if got != [38, 1, 1, 38]:
                viol("a policy beyond the kernel's program size: the target was run and does not observe the policy's decisions (afs_syscall(1), afs_syscall(2), afs_syscall(0), tuxcall: errno %s, expected [38, 1, 1, 38])" % got, res)
        elif res["rc"] == 0:
            viol("a policy beyond the kernel's program size: exit status 0 without running the target", res)
    # "the file is missing / cannot be read", realised in more ways than a missing name: the policy path is a directory, a file whose
    # read fails (EIO from /proc/self/mem), an empty file, a path below a file (ENOTDIR), a dangling symbolic link
    # (a usable policy named like the command's default lies next to the sandbox binary, as after an in-place build: a missing file of
    # that name elsewhere is still a missing file)
    with open(os.path.join(d, "seccomp.yml"), "w") as f:
        f.write(GOOD)
    os.chmod(os.path.join(d, "seccomp.yml"), 0o644)
    os.makedirs(os.path.join(scratch, "adir"), exist_ok=True)
    open(os.path.join(scratch, "empty.yml"), "w").close()
    if not os.path.islink(os.path.join(scratch, "dangling.yml")):
        os.symlink(os.path.join(scratch, "nowhere.yml"), os.path.join(scratch, "dangling.yml"))
    for what, path in (("a directory", os.path.join(scratch, "adir")), ("a file whose read fails", "/proc/self/mem"), ("an empty file", os.path.join(scratch, "empty.yml")),
                       ("a path below a regular file", os.path.join(scratch, "empty.yml", "x.yml")), ("a dangling symbolic link", os.path.join(scratch, "dangling.yml")),
                       ("a missing file named like the default policy, in a missing directory", os.path.join(scratch, "no-such-dir", "seccomp.yml")),
                       ("a missing file named like the default policy, in an existing directory", os.path.join(scratch, "adir", "seccomp.yml")),
                       ("a missing file named like the default policy, relative to the working directory", "seccomp.yml")):
        idx += 1
        res = run_sandbox(d, scratch, "none", idx, policy_path=path)
        ctx.cov["evaluations"] += 1
        ctx.cov["distinct_nontrivial"] += 1
        if res is not None and (res["rc"] == 0 or res["marker"]):
            viol("the policy path is %s: %s" % (what, "the target was started" if res["marker"] else "exit status 0"), res, {"policy": "(none: -policy %s)" % path})
    # the policy file is the file the PATH names, however the path is spelled: through a symbolic link to a directory followed by "..",
    # (the kernel resolves that to the parent of the link's TARGET; cleaning the path as text gives another directory - where a decoy lies),
    # through a link to the file, with doubled separators and "." components, relative to the working directory
    deep = os.path.join(scratch, "deep", "a", "b")
    os.makedirs(deep, exist_ok=True)
    for pth in (scratch, os.path.join(scratch, "deep"), os.path.join(scratch, "deep", "a"), deep):
        os.chmod(pth, 0o755)
    decoy = "seccomp:\n  default_action: allow\n  syscalls:\n  - action: errno\n    names:\n    - vserver\n"
    for name, text in ((os.path.join(scratch, "deep", "a", "real.yml"), GOOD), (os.path.join(scratch, "real.yml"), decoy), (os.path.join(scratch, "missing.yml"), GOOD)):
        with open(name, "w") as f:
            f.write(text)
        os.chmod(name, 0o644)
    for link, to in ((os.path.join(scratch, "conf"), deep), (os.path.join(scratch, "linkfile.yml"), os.path.join(scratch, "deep", "a", "real.yml"))):
        if not os.path.islink(link):
            os.symlink(to, link)
    real = os.path.join(scratch, "deep", "a", "real.yml")
    nspell = 0
    for what, path, exists in (("a link to a directory followed by ..", os.path.join(scratch, "conf") + "/../real.yml", True),
                               ("a link to a directory followed by .. (no such file there; one of that name where the cleaned text points)", os.path.join(scratch, "conf") + "/../missing.yml", False),
                               ("a symbolic link to the file", os.path.join(scratch, "linkfile.yml"), True),
                               ("doubled separators and . components", real.replace("/deep/", "//deep/./"), True),
                               ("a path relative to the working directory", real.lstrip("/"), True),
                               ("a relative path through .. components", "usr/../" + real.lstrip("/"), True)):
        idx += 1
        res = run_sandbox(d, scratch, "none", idx, policy_path=path)
        if res is None:
            ctx.skip("sandbox run timed out")
            continue
        nspell += 1
        ctx.cov["evaluations"] += 1
        ctx.cov["distinct_nontrivial"] += 1
        if not exists:
            if res["rc"] == 0 or res["marker"]:
                viol("the policy path is spelled through %s: %s" % (what, "the target was started" if res["marker"] else "exit status 0"), res, {"policy": "(none: -policy %s)" % path})
            continue
        if res["rc"] != 0 or not res["marker"]:
            ctx.note("valid policy named through %s: the sandbox did not run the target (rc %d): %s" % (what, res["rc"], res["stderr"][-120:]))
            continue
        try:
            got = [q["errno"] for q in json.loads(res["stdout"].strip().splitlines()[-1])["probes"]]
        except Exception:
            got = None
        if got != [1, 1, 38, 1, 38]:
            viol("the policy path is spelled through %s: the target does not observe the decisions of the file the path names (probes %s, expected [1, 1, 38, 1, 38])" % (what, got), res,
                 {"policy": "(-policy %s) = " % path + GOOD})
    ctx.cov["policy_path_spellings"] = nspell
    # "malformed", realised in more ways than an unclosed bracket: bytes that are not UTF-8 (YAML text is Unicode) in a comment, in a key
    # and in a syscall name, a control character, a tab as indentation, an unterminated quote, a mapping value where none can stand
    gb = GOOD.encode()
    malformed = {"a byte that is not UTF-8 in a comment": b"# policy f\xfcr den Dienst\n" + gb,
                 "a byte that is not UTF-8 in a key": gb.replace(b"    names:\n    - tuxcall", b"    na\xeemes:\n    - tuxcall"),
                 "a byte that is not UTF-8 in a syscall name": gb.replace(b"- security", b"- secur\xffity"),
                 "an overlong UTF-8 sequence in a comment": b"# \xc0\xaf\n" + gb,
                 "a control character in a value": gb.replace(b"default_action: allow", b"default_action: al\x01low"),
                 "a tab as indentation": gb.replace(b"  default_action", b"\tdefault_action"),
                 "an unterminated quote": gb.replace(b"- tuxcall", b"- \"tuxcall"),
                 "a mapping value where none can stand": gb.replace(b"default_action: allow", b"default_action: allow: yes")}
    for what, data in malformed.items():
        idx += 1
        mp = os.path.join(scratch, "malformed_%d.yml" % idx)
        with open(mp, "wb") as f:
            f.write(data)
        os.chmod(mp, 0o644)
        res = run_sandbox(d, scratch, "none", idx, policy_path=mp)
        ctx.cov["evaluations"] += 1
        ctx.cov["distinct_nontrivial"] += 1
        if res is not None and (res["rc"] == 0 or res["marker"]):
            viol("the policy file is malformed (%s): %s" % (what, "the target was started" if res["marker"] else "exit status 0"), res, {"policy": repr(data[:400])})
    ctx.cov["malformed_realisations"] = len(malformed)
    for where, text in UNKNOWN_VARIANTS.items():
        idx += 1
        res = run_sandbox(d, scratch, "none", idx, policy_text=text)
        ctx.cov["evaluations"] += 1
        ctx.cov["distinct_nontrivial"] += 1
        if res is not None and (res["rc"] == 0 or res["marker"]):
            viol("an unknown syscall name %s: %s" % (where, "the target was started" if res["marker"] else "exit status 0"), res, {"policy": text})
    # (a2) large policy files: what matters sits behind 64 KiB / 1 MiB of padding
    for size in (70000, 1100000) if th else (70000,):
        idx += 1
        res = run_sandbox(d, scratch, "none", idx, policy_text=big_policy(size, BIG_TAIL_GOOD), probes=["184", "185", "183"])
        ctx.cov["evaluations"] += 1
        if res is not None:
            try:
                got = [p["errno"] for p in json.loads(res["stdout"].strip().splitlines()[-1])["probes"]]
            except Exception:
                got = None
            if res["rc"] != 0 and not res["marker"]:
                ctx.note("a %d-byte policy file was refused (rc %d): %s" % (size, res["rc"], res["stderr"][-120:]))
            elif got != [1, 1, 38]:
                viol("a %d-byte policy file whose second group sits at the end: the target observes %s, expected [EPERM, EPERM, ENOSYS] (rc %d)" % (size, got, res["rc"]), res,
                     {"policy": "(generated: first group, %d bytes of comment padding, second group)" % size})
        for fault, tail in BIG_TAILS_BAD.items():
            idx += 1
            res = run_sandbox(d, scratch, "none", idx, policy_text=big_policy(size, tail))
            ctx.cov["evaluations"] += 1
            ctx.cov["distinct_nontrivial"] += 1
            if res is not None and (res["rc"] == 0 or res["marker"]):
                viol("fault '%s' at the end of a %d-byte policy file: %s" % (fault, size, "the target was started" if res["marker"] else "exit status 0"), res,
                     {"policy": "(generated: first group, %d bytes of comment padding, defective tail %r)" % (size, tail)})
    # (b) trace validation of the strace records
    if traces:
        tf = ctx.path("sandbox_trace.ndjson")
        vlib.write_ndjson(tf, [e for _, evs, _ in traces for e in evs])
        tr = ctx.tlc("SandboxTrace", TRACE_CFG % tf, workers=2, timeout=600, expect_violation=True)
        if tr["violated"] == "NotAccepted":
            ctx.cov["traces_validated_against_impl"] += len(traces)
            ctx.cov["states"] += tr["distinct"]
            ctx.cov["transitions"] += tr["generated"]
        else:
            # find the offending run: the statement on the event sequence itself
            found = False
            for fault, evs, res in traces:
                ok_seccomp = False
                for e in evs:
                    if e["ev"] == "seccomp" and e["ok"]:
                        ok_seccomp = True
                    if e["ev"] == "execve" and e["target"] and e["ok"] and not ok_seccomp:
                        found = True
                        viol("strace: the target was exec'd before a successful seccomp(SET_MODE_FILTER)", res, {"events": evs})
            if not found:
                ctx.drift({"trace": "SandboxTrace rejected the recorded events although no run execs the target before a successful seccomp"})
    # (c) the target sees Decide: policies of the compiler scopes through the documented YAML path
    import random
    rnd = random.Random(ctx.seed)
    sys = cmdfam.PROBES
    todo = []
    # scope many: conditional entries, the same syscall in several groups; scope groups2: name lists whose group action may EQUAL the default
    # action (such a group still shadows later groups)
    for scope, kw, n in (("many", {}, 600 if th else 25), ("groups2", dict(NSys=3), 400 if th else 25)):
        j, out = polfam.gen_job(ctx, scope, stride=1, name=scope + "_sandbox", with_model=False, **kw)
        ctx.tlc(**j)
        rows = vlib.read_ndjson(out)
        cs = [c for c in rows[1:] if not c["reject"] and c["pol"]["x86"] and c["pol"]["def"] == "allow"]
        if scope == "groups2":
            # prefer the policies in which a group with the default action comes before another group
            cs.sort(key=lambda c: not any(g["act"] == "allow" and g["names"] for g in c["pol"]["groups"][:-1]))
            head = cs[:n * 2]
            rnd.shuffle(head)
            cs = head
        else:
            rnd.shuffle(cs)
        todo += [(rows[0], c) for c in cs[:n]]
    # (runs that start in another execution domain use probe syscalls whose names every table has: a policy is valid or not
    #  whatever the domain, and these stay valid for the 32-bit sibling table)
    rc, o, e = ctx.run([os.path.join(ctx.harness(), "archdump")], input="[]", timeout=120)
    if rc != 0:
        raise vlib.Machinery("archdump failed: " + e[-500:])
    # (the tables a 64-bit x86 machine can be taken for; the ARM tables have none of the retired calls the probes use)
    tabs = [a["names"] for a in json.loads(o.strip().splitlines()[-1])["arches"] if a["var"] in ("X86_64", "I386")]
    common = [p for p in cmdfam.PROBES if all(p[0] in t for t in tabs)]
    sys_all = cmdfam.PROBES
    ndomain = 0
    for k, (header, c) in enumerate(todo):
        need = 1 + max([5] + [n for g in c["pol"]["groups"] for n in g["names"]] + [e["num"] for g in c["pol"]["groups"] for e in g["conds"]]
                       + [ev["nr"] for ev in header["events"] if ev["nr"] < header["nsys"]])
        sys = common if ((1000 + k) % 3 == 2 and SETARCH and len(common) >= need) else sys_all
        probes, want = [], []
        for ev, dec in zip(header["events"], c["ideal"]):
            if ev["arch"] != "own" or ev["nr"] >= header["x32bit"] or dec not in ("allow", "errno|EPERM"):
                continue
            nr = sys[ev["nr"]][1] if ev["nr"] < header["nsys"] else sys[5][1]
            a = [((ev["args"].get(str(i), 0) // 2) << 32) | (ev["args"].get(str(i), 0) % 2) for i in (0, 1)]
            probes.append("%d:%d:%d" % (nr, a[0], a[1]))
            want.append(38 if dec == "allow" else 1)
        if any(d == "kill_process" for d in c["ideal"]) and False:
            continue
        # the policy may kill the process for some events; those are not probed here
        res = run_sandbox(d, scratch, "none", 1000 + k, policy_text=abstract_yaml(c["pol"], sys), probes=probes)
        if res is None:
            ctx.skip("sandbox run timed out")
            continue
        ctx.cov["evaluations"] += len(probes)
        ctx.cov["traces_validated_against_impl"] += 1
        ndomain += 1 if res["domain"] != "native" else 0
        try:
            o = json.loads(res["stdout"].strip().splitlines()[-1])
            got = [p["errno"] for p in o["probes"]]
        except Exception:
            got = None
        if res["rc"] != 0 and not res["marker"]:
            ctx.note("a policy of the compiler scope was refused by the sandbox (rc %d): %s" % (res["rc"], res["stderr"][-120:]))
        elif got != want:
            bad = [(p, g, w) for p, g, w in zip(probes, got or [], want) if g != w][:3]
            viol("the target does not observe the policy's decisions (rc %d, first differences (probe, errno, expected): %s)" % (res["rc"], bad), res,
                 {"policy": abstract_yaml(c["pol"], sys)})
        elif len(set(want)) > 1:
            ctx.cov["distinct_nontrivial"] += 1
    ctx.cov["compiler_scope_policies_run_in_another_execution_domain"] = ndomain
    sys = sys_all
    # (d) every action, as the default and as a group's action, observed natively (Sandbox!Observes): the policy allows every
    #     system call of the table by name except the probe calls, so that the Go runtime of sandbox and target is not hit
    rc, o, e = ctx.run([os.path.join(ctx.harness(), "archdump")], input="[]", timeout=120)
    if rc != 0:
        raise vlib.Machinery("archdump failed: " + e[-500:])
    table = [a for a in json.loads(o.strip().splitlines()[-1])["arches"] if a["var"] == "X86_64"][0]
    probe_names = {n for n, _ in cmdfam.PROBES}
    others = sorted(n for n in table["names"] if n not in probe_names)
    allow_all = "  - action: allow\n    names:\n" + "".join("    - %s\n" % n for n in others)
    observes = {"allow": "returned:38", "log": "returned:38", "trace": "returned:38", "errno": "returned:1", "kill_thread": "thread-gone",
                "kill_process": "died", "trap": "died"}   # (SIGSYS: the target prints its first line and never the second)
    for k, (default, gact) in enumerate([(a, None) for a in sorted(observes)] + [("errno", a) for a in sorted(observes) if a != "errno"] + [("allow", "kill_thread")]):
        text = "seccomp:\n  default_action: %s\n  syscalls:\n" % default + allow_all + "  - action: errno\n    names:\n    - tuxcall\n"
        if gact:
            text += "  - action: %s\n    names:\n    - security\n" % gact
        res = run_sandbox(d, scratch, "none", 3000 + k, policy_text=text, probes=["184"], fatal="185:1:2:3")
        if res is None:
            ctx.skip("sandbox run timed out")
            continue
        ctx.cov["evaluations"] += 1
        ctx.cov["distinct_nontrivial"] += 1
        want = observes[gact or default]
        lines = [l for l in res["stdout"].strip().splitlines() if l.startswith("{")]
        # judged from the target's own output only (how the sandbox words the child's fate is not part of the statement)
        got = None
        if len(lines) >= 2:
            got = json.loads(lines[-1]).get("fatal")
        elif len(lines) == 1:
            got = "died"
        if res["rc"] != 0 and not res["marker"]:
            ctx.note("an allow-all-but-probes policy (default %s) was refused by the sandbox (rc %d): %s" % (default, res["rc"], res["stderr"][-120:]))
        elif got != want:
            viol("default_action %s%s: a call the policy answers with %s is observed by the target as %s, expected %s (rc %d)"
                 % (default, ", group action %s" % gact if gact else "", gact or default, got, want, res["rc"]), res,
                 {"policy": "default_action: %s; allow: every table name except the probe calls; errno: tuxcall%s" % (default, "; %s: security" % gact if gact else "")})
    # (e) deny-by-default policies that say nothing about execve (allowed: every other table name): the command cannot start anything
    #     under them on the tree as it is - and if a build does start the target, the target must see the policy's answer to execve too
    no_exec = "  - action: allow\n    names:\n" + "".join("    - %s\n" % n for n in others if n != "execve")
    nstarted = nruns = 0
    for k, default in enumerate(["errno", "trace", "kill_process", "trap", "errno", "kill_thread"]):
        text = "seccomp:\n  default_action: %s\n  syscalls:\n" % default + no_exec
        if k == 4:
            text += "  - action: errno\n    names:\n    - tuxcall\n"        # (a second group after the allow list)
        fatal = default in ("kill_process", "trap", "kill_thread")
        res = run_sandbox(d, scratch, "none", 3500 + k, policy_text=text, probes=["184"] if fatal else ["184", "59:0:0"], fatal="59:0:0" if fatal else None)
        if res is None:
            ctx.skip("sandbox run timed out")
            continue
        nruns += 1
        ctx.cov["evaluations"] += 1
        lines = [l for l in res["stdout"].strip().splitlines() if l.startswith("{")]
        if not res["marker"] and not lines:
            continue                      # the target was not started: nothing observed, nothing to judge
        nstarted += 1
        want = observes[default]
        if fatal:
            got = json.loads(lines[-1]).get("fatal") if len(lines) >= 2 else "died"
        else:
            try:
                got = "returned:%d" % json.loads(lines[-1])["probes"][1]["errno"]
            except Exception:
                got = "no answer"
        if got != want:
            viol("default_action %s, execve in no group: the target was started and sees its own execve answered as %s, the policy says %s" % (default, got, want), res,
                 {"policy": "default_action: %s; allow: every table name except the probe calls and execve" % default})
    ctx.cov["deny_by_default_without_execve"] = {"runs": nruns, "target_started": nstarted}
    ctx.sample({"fault_runs": idx, "trace_sample": traces[0][1] if traces else None})
    ctx.cov["rule"] = ("every failure point (%s) x -no-new-privs x {root, nobody}: exit status and a marker file the target creates first; strace -f event sequences "
                       "validated by SandboxTrace.tla; the shipped-style policies and %d policies of the compiler scope `many` rendered as documented YAML, the target probing "
                       "with 64-bit arguments against Decide; non-trivial = a failure run, or a policy whose probes get both decisions" % (", ".join(FAULTS[1:]), 120 if th else 25))
    ctx.assumptions += ["strace (ptrace) is available to root in this sandbox; unprivileged runs are not straced"]
