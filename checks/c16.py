"""C16 - syscall extraction is total, function-scoped and never silently truncated."""
import json
import os
import re

import vlib


def cfg(maxlines, extra=""):
    return """CONSTANTS
  Nums = {0, 1, 7}
  TableNums = {0, 1}
  Dev = {}
  MaxLines = %d
SPECIFICATION Spec
%s
CHECK_DEADLOCK FALSE
""" % (maxlines, extra)


def cases_of(out):
    rows = []
    for m in re.finditer(r'<<"CASE", "((?:[^"\\]|\\.)*)">>', out):
        rows.append(json.loads(m.group(1).encode().decode("unicode_escape")))
    return rows


def check(ctx, replay=None):
    th = ctx.tier == "thorough"
    bindir = ctx.harness()
    if replay:
        rep = json.load(open(replay))
        text = rep["text"]
        print("replay: the listing is stored in the file; re-running the full check on the current tree")
    inv = "INVARIANTS Total ErrorNotPartial FunctionScoped InTableOK\nPROPERTIES Monotone"
    jobs = [dict(module="Disasm", cfg=cfg(6 if th else 5, inv), name="Disasm_mc", timeout=3000),
            dict(module="DisasmGen", cfg=cfg(4 if th else 3, "INVARIANT Emit"), name="DisasmGen_ex", timeout=3000, workers=4),
            dict(module="DisasmGen", cfg=cfg(40, "INVARIANT Emit"), name="DisasmGen_sim", timeout=600, workers=1,
                 simulate="num=%d" % (4000 if th else 600), extra=["-depth", "41", "-seed", str(ctx.seed)])]
    res = ctx.tlc_many(jobs, parallel=3)
    if res[0]["violated"]:
        raise vlib.Machinery("TLC: %s violated: the specification of the unchanged design does not satisfy its own invariant" % res[0]["violated"])
    for r in res[1:]:
        ctx.cov["states"] -= r["distinct"]
        ctx.cov["transitions"] -= r["generated"]
    cases = cases_of(res[1]["out"]) + cases_of(res[2]["out"])
    if len(cases) < 1000:
        raise vlib.Machinery("only %d cases generated" % len(cases))
    cf = ctx.path("cases.ndjson")
    vlib.write_ndjson(cf, cases)
    d = ctx.path("listings", "x")
    d = os.path.dirname(d)
    rc, out, err = ctx.run([os.path.join(bindir, "disasmreplay"), "-in", cf, "-dir", d, "-seed", str(ctx.seed), "-huge", "3" if th else "1"], timeout=3000)
    if rc != 0:
        raise vlib.Machinery("disasmreplay failed: " + (out + err)[-1500:])
    s = json.loads(out.strip().splitlines()[-1])
    ctx.cov["evaluations"] = s["runs"]
    ctx.cov["listings_of_150_to_400_functions"] = s.get("listings_of_150_to_400_functions")
    ctx.cov["listings_with_functions_of_100_to_5000_lines"] = s.get("listings_with_functions_of_100_to_5000_lines")
    ctx.cov["listings_beyond_a_power_of_two_in_size"] = s.get("listings_beyond_a_power_of_two_in_size")
    ctx.cov["distinct_nontrivial"] = s["distinct_nontrivial"]
    ctx.cov["traces_validated_against_impl"] = s["cases"]
    ctx.cov["cases_with_model_drift"] = s["drift"]
    for dn in s["drift_sample"] or []:
        ctx.drift({"what": dn[:600]})
    for v in s["violations"] or []:
        ctx.violation(v["why"], {"text": v["text"], "arch": v["arch"], "read_error": v["read_error"], "observed": v["result"],
                                 "admissible": "no panic; an error and no result iff the text cannot be read to the end; every reported syscall justified by lines of the same function; prefix results are prefixes",
                                 "how": "./check C16 quick"})
    longest = max(cases, key=lambda c: len(c["lines"]))
    ctx.sample({"lines": [l["k"] + (l.get("f") or "") + (str(l["n"]) if "n" in l else "") for l in longest["lines"]][:40], "model_found": longest["found"], "readerr": longest["readerr"]})
    ctx.cov["rule"] = ("behaviours of Disasm.tla: every line-kind sequence of at most %d lines (16 kinds incl. the bare/5-character markers, short site lines, wrapper functions, "
                       "the XORL special case, numbers outside the table), each ended by EOF or a read error, plus %d simulated listings of up to 40 lines; rendered in go tool objdump "
                       "layout for x86_64 and i386; non-trivial = the real extraction reported at least one syscall" % (4 if th else 3, 4000 if th else 600))
    ctx.assumptions += ["read errors are realised as an over-long line, a directory and a missing file; the statement does not promise completeness, so the model's exact result is a drift diagnostic"]
