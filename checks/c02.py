"""C02 - argument conditions are exact unsigned 64-bit comparisons."""
import polfam


def check(ctx, replay=None):
    if replay:
        return polfam.replay_one(ctx, replay)
    th = ctx.tier == "thorough"
    plan = [
        # W = 2: every operand x every actual value (16 x 16) x 8 operations x 2 abstract positions, both byte orders
        dict(scope="single", mc=["DecisionOK"], mc_maxskips=[255], kw=dict(W=2, NSys=1), stride=1, concs=12 if th else 6, expand=1),
        # W = 15: halves on the word boundaries
        dict(scope="boundary", mc=["DecisionOK"], mc_maxskips=[255], kw=dict(W=15, NSys=1), stride=1, concs=10 if th else 5, expand=1),
    ]
    polfam.run_family(ctx, plan, mine={"decision"}, decision_owner="C02")
    ctx.cov["rule"] = ("single-condition policies: 8 operations x all 16 operands x all 16 actual values at W=2 and the 36x36 boundary pairs at W=15; "
                       "each concretised with seeded argument-position permutations (all six positions), monotone AND-homomorphic word embeddings "
                       "(low, high, spread, replicate; signedness edge for order-only operations) chosen independently per half, both byte orders; "
                       "non-trivial = both outcomes (match / no match) occur among the events")
    ctx.assumptions += ["64-bit width is reached through embeddings of W-bit abstract words (DESIGN 3.1); the big-endian layout is cross-checked against golang.org/x/net/bpf's VM"]
