"""C02 - argument conditions are exact unsigned 64-bit comparisons."""
import polfam


def lowering(ctx):
    """Full width: the decision trees of Lowering.tla are (i) what the compiler model's programs compute (TLC, all operands at W=2 and W=3),
    (ii) the 64-bit relations at B = 2^32 (Apalache, symbolic)."""
    import glob
    import os
    import shutil
    for w in (2, 3):
        cfg = "CONSTANTS\n  MaxSkip = 255\n  W = %d\n  X32Bit = 4\n  NSys = 1\n  Dev = {}\n" % w
        r = ctx.tlc("LoweringBind", cfg, name="LoweringBind_w%d" % w, workers=1, timeout=1200)
        if r["violated"]:
            ctx.note("LoweringBind: the trees of Lowering.tla are not what the compiler model emits at W=%d - the Apalache lemma is not bound" % w)
    wd = ctx.path("apalache", "x")
    wd = os.path.dirname(wd)
    shutil.copy(os.path.join(ctx.scratch, "tlc", "LoweringBind_w2", "Lowering.tla"), wd)
    res = {}
    for inv in ("LowerOK", "WrongOK"):
        try:
            rc, out, err = ctx.run(["apalache-mc", "check", "--cinit=CInit", "--length=0", "--inv=" + inv, "--out-dir=" + os.path.join(wd, "out_" + inv), "Lowering.tla"],
                                   cwd=wd, timeout=600, env={"TMPDIR": wd})    # (the launcher makes a SANY* directory under $TMPDIR and leaves it there)
        except Exception as e:  # noqa
            ctx.skip("apalache not usable: %s" % e)
            return
        res[inv] = "NoError" if "The outcome is: NoError" in out else ("Error" if "Checker has found an error" in out else "failed")
    ctx.cov["apalache"] = {"lemma": "LowerOK: the six order/equality trees decide the 64-bit relations, B = 2^32, a, v unbounded below 2^64", "LowerOK": res.get("LowerOK"),
                           "WrongOK_(a_wrong_tree_must_be_refuted)": res.get("WrongOK")}
    if res.get("LowerOK") == "NoError" and res.get("WrongOK") == "Error":
        ctx.cov["obligations"] = 6
        ctx.cov["discharged"] = 6
    elif "failed" in res.values():
        ctx.skip("apalache run failed")
    else:
        ctx.note("Apalache: LowerOK=%s WrongOK=%s" % (res.get("LowerOK"), res.get("WrongOK")))


def check(ctx, replay=None):
    if replay:
        return polfam.replay_one(ctx, replay)
    th = ctx.tier == "thorough"
    plan = [
        # W = 2: every operand x every actual value (16 x 16) x 8 operations x 2 abstract positions, both byte orders
        dict(scope="single", mc=["DecisionOK"], mc_maxskips=[255], kw=dict(W=2, NSys=1), stride=1, concs=12 if th else 6, expand=1),
        # W = 15: halves on the word boundaries
        dict(scope="boundary", mc=["DecisionOK"], mc_maxskips=[255], kw=dict(W=15, NSys=1), stride=1, concs=10 if th else 5, expand=1),
    ]
    # a single-condition entry next to another single-condition entry of the same syscall and argument (alternatives): each keeps its own relation
    # entries of one syscall that are not adjacent (A, B, A): each single-condition entry keeps its relation wherever it stands in the group
    plan.append(dict(scope="merge", mc=None, mc_maxskips=[255], stride=1 if th else 3, concs=2, expand=2))
    plan.append(dict(scope="mergeops", mc=["DecisionOK"], mc_maxskips=[255], stride=1 if th else 2, concs=3 if th else 2, expand=2))
    # ... and in another group than a conditional entry for the same syscall that tests the other argument (in front of it / behind it)
    plan.append(dict(scope="guarded", mc=["DecisionOK"], mc_maxskips=[255], kw=dict(W=2, NSys=1), stride=1 if th else 2, concs=3 if th else 2, expand=1))
    if th:
        # W = 3: every operand x every actual value (64 x 64)
        plan.append(dict(scope="single", mc=["DecisionOK"], mc_maxskips=[255], kw=dict(W=3, NSys=1), stride=1, concs=8, expand=1))
    polfam.run_family(ctx, plan, mine={"decision"}, decision_owner="C02")
    lowering(ctx)
    ctx.cov["rule"] = ("single-condition policies: 8 operations x all 16 operands x all 16 actual values at W=2 and the 36x36 boundary pairs at W=15; "
                       "each concretised with seeded argument-position permutations (all six positions), monotone AND-homomorphic word embeddings "
                       "(low, high, spread, replicate; signedness edge for order-only operations) chosen independently per half, both byte orders; "
                       "non-trivial = both outcomes (match / no match) occur among the events")
    ctx.assumptions += ["64-bit width is reached through embeddings of W-bit abstract words (DESIGN 3.1); the big-endian layout is cross-checked against golang.org/x/net/bpf's VM"]
