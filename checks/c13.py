"""C13 - compilation is deterministic, side-effect free and race-free."""
import json
import os
import shutil

import vlib


def conc_cfg(share, ops, dev="{}", g="{g1, g2, g3}"):
    return """CONSTANTS
  G = %s
  Share = "%s"
  OpsOf <- OpsDef
  Dev = %s
  MaxHist = 3
SPECIFICATION Spec
INVARIANTS NoConflict InputUnchanged Isolated FlagStringDeterministic ActionStringDeterministic
CHECK_DEADLOCK FALSE
""" % (g, share, dev)


def conc_job(name, share, ops, timeout=1200):
    mod = "---- MODULE %s ----\nEXTENDS Conc\nOpsDef == %s\n====\n" % (name, ops)
    return dict(module=name, cfg=conc_cfg(share, ops), name=name, timeout=timeout, files={name + ".tla": mod})


PROC_ENVS = [{}, {"GOARCH": "arm"}, {"GOMAXPROCS": "1"}, {"GOARCH": "386", "GOOS": "windows"}, {"LANG": "tr_TR.UTF-8", "LC_ALL": "tr_TR.UTF-8"},
             {"GOARCH": "arm64", "GOMAXPROCS": "3"}, {"TZ": "Asia/Tokyo", "HOME": "/nonexistent"}, {"GOARCH": "mips", "GOFLAGS": "-tags=netgo"},
             {"GOOS": "darwin", "CGO_ENABLED": "0"}, {"GOARCH": "amd64"}, {"GOROOT": "/nonexistent", "GOPATH": "/nonexistent"}, {"GOAMD64": "v3", "GODEBUG": "madvdontneed=1"}]


def run_json(ctx, cmd, input=None, env=None, timeout=600, cwd=None):
    rc, out, err = ctx.run(cmd, input=input, env=env, timeout=timeout, **({"cwd": cwd} if cwd else {}))
    races = err.count("WARNING: DATA RACE")
    rep = None
    try:
        rep = json.loads(out.strip().splitlines()[-1])
    except Exception:
        pass
    return rc, rep, races, err


def check(ctx, replay=None):
    th = ctx.tier == "thorough"
    bindir = ctx.harness()
    src = os.path.join(os.path.dirname(bindir), "cmd", "detrace")
    race_bin = os.path.join(bindir, "detrace_race")
    rc, out, err = ctx.run(["go", "build", "-race", "-tags", "verif", "-o", race_bin, "."], cwd=src, env={"CGO_ENABLED": "1"}, timeout=900)
    if rc != 0:
        raise vlib.Machinery("race build failed: " + err[-2000:])
    plain = os.path.join(bindir, "detrace")

    # 1. the footprint model: every interleaving of 3 goroutines x 4 sharing configurations
    jobs = []
    for share in ("distinct", "groups", "names", "conds"):
        jobs.append(conc_job("Conc_" + share, share, '<<"Assemble", "Dump", "FlagString", "MarshalText">>'))
    if th:
        for share in ("groups", "conds"):
            jobs.append(conc_job("Conc2_" + share, share, '<<"Assemble", "GetInfo", "Assemble", "Unpack">>', timeout=3000))
    hfile = ctx.path("hist.json")
    jobs.append(dict(module="ConcGen", cfg='CONSTANTS\n  G = {g1}\n  Share = "distinct"\n  OpsOf <- NoOps\n  Dev = {}\n  MaxHist = %d\n  OutFile = "%s"\nSPECIFICATION Spec\nCHECK_DEADLOCK FALSE\n' % (5 if th else 3, hfile),
                     name="ConcGen", workers=1, timeout=600))
    for r in ctx.tlc_many(jobs, parallel=4):
        if r["violated"]:
            raise vlib.Machinery("TLC: %s violated in %s: the specification of the unchanged design does not satisfy its own invariant" % (r["violated"], r["name"]))
    hists = json.load(open(hfile))

    def viol(msg, what):
        ctx.violation(msg, {"what": what, "how": "./check C13 quick (the harness cmd/detrace re-executes all histories and the concurrent run)"})

    # 1b. every policy of the compiler scopes (incl. empty groups in every position, merged conditional entries): compile, compile again,
    #     compile a slice-sharing copy, compare snapshots of the caller's policy (polreplay kind "determinism")
    import polfam
    plan = [dict(scope="groups2", mc=None, kw=dict(NSys=3), stride=1 if th else 2, concs=2, expand=1),
            dict(scope="merge", mc=None, stride=1 if th else 4, concs=2, expand=1),
            dict(scope="many", mc=None, stride=2 if th else 12, concs=2, expand=1),
            # condition lists whose arguments are not in ascending order (a compiler that "normalises" them must not do it in the caller's slice)
            dict(scope="deep", mc=None, stride=1 if th else 3, concs=2, expand=1),
            # policies that are rejected (unknown names in several spellings, bad indices ...): a refused compilation leaves the caller's policy alone too
            dict(scope="defects", mc=None, kw=dict(NSys=3), stride=1 if th else 4, concs=3, expand=1)]
    polfam.run_family(ctx, plan, mine={"determinism"}, decision_owner=None)

    # 2. sequential replay of the TLC histories
    rc, rep, races, err = run_json(ctx, [plain, "-mode", "seq"], input=json.dumps(hists))
    if rep is None:
        raise vlib.Machinery("detrace seq failed: " + err[-1500:])
    ctx.cov["evaluations"] += rep["checked"]
    ctx.cov["traces_validated_against_impl"] += len(hists)
    ctx.cov["distinct_nontrivial"] += len([h for h in hists if len([o for o in h if o[0] in "AD"]) >= 2])
    for v in rep["violations"]:
        viol(v, "sequential history replay")
    # 3. ungated concurrent run under the race detector
    for k in range(12 if th else 2):
        rc, rep, races, err = run_json(ctx, [race_bin, "-mode", "conc", "-n", "16", "-rounds", "120" if th else "25"], env={"GORACE": "halt_on_error=0 exitcode=0"})
        if rep is None and (races or ("panic:" in err and "github.com/elastic/go-seccomp-bpf." in err.split("panic:", 1)[1][:3000])):
            # the run did not get to its report: the race detector spoke before, or the process was brought down by a panic below the
            # library's own frames (a goroutine's panic cannot be recovered by the caller) - both are observations of the real code
            if races:
                i = err.find("WARNING: DATA RACE")
                viol("the race detector reported %d data race(s) between concurrent compilations / lookups / text conversions (the run then died)" % races, err[i:i + 1800])
            else:
                i = err.find("panic:")
                viol("concurrent compilations brought the process down: a panic in the library's frames outside any caller's reach", err[i:i + 1800])
            continue
        if rep is None:
            raise vlib.Machinery("detrace conc failed: " + err[-1500:])
        ctx.cov["evaluations"] += rep["checked"]
        if races:
            i = err.find("WARNING: DATA RACE")
            viol("the race detector reported %d data race(s) between concurrent compilations / lookups / text conversions" % races, err[i:i + 1800])
        for v in rep["violations"]:
            viol(v, "concurrent run")
    # 4. across processes
    digs = set()
    # a choice that is made once per process (a table built from a map at initialisation) shows only across processes: with a
    # bias of 1:7 between two outcomes, 48 processes all agree with probability 0.002
    nproc = 400 if th else 48
    by_env = {}
    for k in range(nproc):
        # the same binary in processes whose surroundings differ: environment variables that tools leave exported (a cross-compiling
        # shell's GOARCH/GOOS, locale, time zone, scheduler settings) and the working directory are not inputs of a compilation
        env = PROC_ENVS[(k // 2) % len(PROC_ENVS)]
        # ... nor is the execution domain (every sixth process runs under `setarch i686`: uname(2) reports a 32-bit machine)
        wrap = ["setarch", "i686"] if (k % 6 == 5 and shutil.which("setarch")) else []
        rc, rep, races, err = run_json(ctx, wrap + [plain if k % 8 else race_bin, "-mode", "digest", "-order", str(ctx.seed * 1000 + k)], env=env, cwd="/" if k % 3 == 0 else None)
        if rep is None:
            raise vlib.Machinery("detrace digest failed: " + err[-1500:])
        digs.add(rep["digest"])
        by_env.setdefault(rep["digest"], []).append(env)
        for v in rep["violations"]:
            viol(v, "text forms")
    if len(digs) != 1:
        viol("compiled programs / text forms / lookups differ between process runs (%d distinct digests)" % len(digs),
             {d: [json.dumps(e, sort_keys=True) for e in envs][:6] for d, envs in by_env.items()})
    ctx.sample({"histories": hists[:3], "digest": sorted(digs)[0]})
    # 5. the library has no memory (Hist.tla): histories of compilations, loads, lookups and text conversions over sibling policy values,
    #    every call compared with the same call made alone in a fresh process
    import histfam
    histfam.run(ctx)
    ctx.cov["rule"] = ("sequential: every call history of at most %d calls over two policy values (Assemble, Dump, GetInfo, text forms) generated by Conc.tla; concurrent: 16 ungated "
                       "goroutines x 4 sharing configurations (distinct values, copies sharing Syscalls, shared Names, shared Conditions) in a -race binary; "
                       "digests of compilations for 4 architectures, text forms and lookups across %d fresh processes under 12 different environments (GOARCH/GOOS of a cross-compiling shell, locale, GOMAXPROCS, ...) and two working directories; non-trivial = history compiles at least twice" % (4 if th else 3, nproc))
    ctx.assumptions += ["the TLA+ footprint model cannot observe Go memory accesses; the race detector is the recorder of the real footprints and only sees paths the run executes",
                        "concurrent compilation of the SAME policy value is outside the statement (Assemble caches the architecture in the receiver)"]
