"""C09 - a nil load result means the filter is in force; failed loads leave none behind."""
import json
import os

import loaderfam as lf
import vlib

FLAGS = '{{}, {"TSYNC"}, {"BAD"}, {"TSYNC", "LOG"}}'


def judge(h, obs):
    """Statement-level verdicts on the real observations; returns (violations, drifts)."""
    bad, drift = [], []
    prev = None
    pid_of = lf.pids(h)
    for e, o in zip(h["hist"], obs):
        th = o["threads"]
        if e["op"] == "load":
            caller = th[e["caller"]]
            fid = e["fid"]
            pid = pid_of[fid]
            tsync = "TSYNC" in e["flags"]
            # the new filter is in force: its policy answers the probe AND the thread carries one filter more than before
            # (an earlier load may have installed the same policy already)
            grew = caller["filters"] == lf.filters_before(prev, e["caller"]) + 1
            shows = (lambda t: True) if pid == -1 else (lambda t: pid in t["in_force"])    # (a policy that denies nothing shows in the filter count only)
            inforce_caller = shows(caller) and grew
            inforce_all = inforce_caller and all(shows(t) and t["filters"] == caller["filters"] for t in th.values())
            if o["result"] == "nil":
                if not inforce_caller:
                    bad.append("step %d: LoadFilter returned nil but filter %d is not in force on the calling thread" % (o["step"], fid))
                elif tsync and not inforce_all:
                    bad.append("step %d: thread-sync load returned nil but filter %d is not in force on every thread" % (o["step"], fid))
                elif tsync and prev is not None:
                    pf = {u["tid"]: u["filters"] for u in prev["unmanaged"]}
                    for u in o["unmanaged"]:
                        if u["tid"] in pf and u["filters"] <= 0:
                            bad.append("step %d: thread-sync load returned nil but runtime thread %d carries no filter" % (o["step"], u["tid"]))
            else:
                if caller["filters"] > lf.filters_before(prev, e["caller"]):
                    bad.append("step %d: LoadFilter returned an error but filter %d is in force" % (o["step"], fid))
            if o["result"] == "nil" and e["res"] != "nil" and not bad:
                # the kernel (as modelled) declines this attach, yet nil came back and the filter is there:
                drift.append("step %d: spec expects %s, real %s" % (o["step"], e["res"], o["result"]))
            if e["pol"] == "invalid":
                if o["result"] != "err":
                    bad.append("step %d: an invalid policy did not produce an error" % o["step"])
                if prev is not None and state_of(prev) != state_of(o):
                    bad.append("step %d: a load that failed before reaching the kernel changed process state" % o["step"])
                if "hook_flags" in o:
                    bad.append("step %d: an invalid policy reached the installation point" % o["step"])
        elif e["op"] == "supported":
            if prev is not None and state_of(prev) != state_of(o):
                bad.append("step %d: Supported() changed process state" % o["step"])
            blocked = 0 in e["state"][e["t"]]["chain"]
            if o["result"] != ("false" if blocked else "true"):
                # the statement only demands that probing changes nothing; the answer itself is a drift diagnostic
                drift.append("step %d: Supported() = %s (%s)" % (o["step"], o["result"], "seccomp(2) is answered with ENOSYS on this thread" if blocked else "on a kernel with seccomp"))
        # model/real projection (drift diagnostic and kernel-model validation)
        for t, exp in e["state"].items():
            if t == "pool":
                for u in o["unmanaged"]:
                    if u["filters"] != len(exp["chain"]) or bool(u["nnp"]) != exp["nnp"]:
                        drift.append("step %d: unmanaged thread %d has filters=%d nnp=%d, spec pool chain=%s nnp=%s" % (o["step"], u["tid"], u["filters"], u["nnp"], exp["chain"], exp["nnp"]))
                continue
            r = th.get(t)
            if r is None:
                drift.append("step %d: thread %s missing" % (o["step"], t))
                continue
            if (sorted(r["in_force"]), r["filters"]) != lf.project(exp["chain"], pid_of) or bool(r["nnp"]) != exp["nnp"]:
                drift.append("step %d: thread %s real in_force=%s nnp=%d filters=%d, spec chain=%s nnp=%s" % (o["step"], t, r["in_force"], r["nnp"], r["filters"], exp["chain"], exp["nnp"]))
        if o["result"] in ("nil", "err", "true", "false") and e.get("res") and o["result"] != e["res"]:
            drift.append("step %d: result real %s, spec %s" % (o["step"], o["result"], e["res"]))
        prev = o
    return bad, drift


def state_of(o):
    return (sorted((n, tuple(t["in_force"]), t["nnp"], t["filters"], t["seccomp"]) for n, t in o["threads"].items()),
            # runtime threads come and go on their own: compare the distinct states, not the thread ids
            sorted(set((u["filters"], u["nnp"], u["seccomp"]) for u in o["unmanaged"])))


def tags(h):
    f = set()
    for e in h["hist"]:
        if e["op"] == "load":
            tsync = "TSYNC" in e["flags"]
            if e["pol"] == "invalid":
                f.add("invalid")
            elif e["pol"] == "allowall" and e["res"] == "nil":
                f.add("ok-allowall")
            elif "BAD" in e["flags"]:
                f.add("badflags")
            elif e["pol"] == "oversize":
                f.add("oversize")
            elif e["res"] == "nil":
                f.add("ok-tsync" if tsync else "ok-plain")
            elif 0 in e["state"][e["caller"]]["chain"]:
                f.add("enosys")
            elif e["nnp"] and any(x < 0 for x in e["state"][e["caller"]]["chain"]):
                f.add("prctl-denied")
            elif not h["priv"] and not e["state"][e["caller"]]["nnp"]:
                f.add("eacces")
            else:
                f.add("refused-tsync")
            if any(x["op"] == "spawn" for x in e["hook"]):
                f.add("hook-spawn")
            if any(x["op"] == "load" for x in e["hook"]):
                f.add("overlapping-load")
            if e["nnp"]:
                f.add("nnp")
            if e.get("pid") and e["pol"] == "valid" and any(x["op"] == "load" and x.get("pid") == e["pid"] and x["fid"] < e["fid"] and x["res"] == "nil" for x in h["hist"]):
                f.add("same-policy-again")
        else:
            f.add(e["op"])
    return f


def features(h):
    return (h["priv"], tuple(sorted(tags(h))))


def build_targets(ctx, d):
    """The statement holds for a program whichever Linux target it was built for: the smallest user of the loader (harness/cmd/loadmini)
    is built for every target this host executes (amd64 and 386 on an x86_64 kernel) and runs a valid policy with and without thread-sync
    and an invalid one, as root and as nobody: nil only with the calling thread (thread-sync: every thread) in filter mode and the denied
    call answered EPERM; an invalid policy gives an error and changes nothing."""
    import subprocess
    src = os.path.join(os.path.dirname(ctx.harness()))
    ran = {}
    for goarch in ("amd64", "386"):
        out = os.path.join(d, "loadmini_" + goarch)
        rc, o, e = ctx.run(["go", "build", "-tags", "verif", "-o", out, "./cmd/loadmini"], cwd=src, env={"GOARCH": goarch, "CGO_ENABLED": "0"}, timeout=900)
        if rc != 0:
            ctx.note("loadmini does not build for linux/%s: %s" % (goarch, e[-300:]))
            continue
        os.chmod(out, 0o755)
        for kind, tsync in (("valid", False), ("valid", True), ("invalid", False), ("invalid", True)):
            for uid in (0, 65534):
                kw = dict(user=uid, group=uid, extra_groups=[]) if uid else {}
                try:
                    p = subprocess.run([out, kind] + (["tsync"] if tsync else []), capture_output=True, text=True, timeout=30, cwd="/", env={"PATH": "/usr/bin:/bin"}, **kw)
                    r = json.loads(p.stdout.strip().splitlines()[-1])
                except Exception as ex:  # noqa
                    if goarch == "amd64":
                        raise vlib.Machinery("loadmini (amd64) failed: %s" % ex)
                    ctx.note("a linux/386 program does not run on this host: %s" % ex)
                    break
                ran[goarch] = ran.get(goarch, 0) + 1
                ctx.cov["evaluations"] += 1
                rep = {"build_target": "linux/" + goarch, "uid": uid, "observed": r, "how": "./check C09 quick"}
                others = r["other_modes"].split()
                if kind == "valid" and r["result"] == "nil":
                    if r["seccomp_mode"] != "2" or r["probe"] != "1":
                        ctx.violation("a program built for linux/%s: LoadFilter returned nil but the calling thread is in seccomp mode %s and the denied call returns errno %s"
                                      % (goarch, r["seccomp_mode"], r["probe"]), rep)
                    elif tsync and any(m != "2" for m in others):
                        ctx.violation("a program built for linux/%s: a thread-sync load returned nil but other threads are in seccomp mode %s" % (goarch, others), rep)
                if kind == "invalid":
                    if not r["result"].startswith("err"):
                        ctx.violation("a program built for linux/%s: an invalid policy did not produce an error (result %s)" % (goarch, r["result"]), rep)
                    if r["seccomp_mode"] != "0" or r["probe"] != r["probe_before"]:
                        ctx.violation("a program built for linux/%s: a load that failed before reaching the kernel changed the calling thread (mode %s)" % (goarch, r["seccomp_mode"]), rep)
    ctx.cov["loads_by_build_target"] = ran


def check(ctx, replay=None):
    if replay:
        rep = json.load(open(replay))
        d = lf.child_bin(ctx)
        if "build_target" in rep:
            # a finding of the build-target runs: run them again on the current tree
            build_targets(ctx, d)
            return ctx.finish()
        if rep["script"].get("jail"):
            rep["script"]["jail"] = os.path.dirname(ctx.path("jail", "x"))
        obs, err = lf.run_child(d + "/loadchild", rep["script"], rep["priv"])
        if obs is None:
            raise vlib.Machinery("child failed: " + err)
        bad, drift = judge(rep["history"], obs)
        print("replay: violations=%s drift=%s" % (bad, drift[:3]))
        if bad:
            print("VIOLATION property=C09 replay=%s" % replay)
            return 1
        return 0
    th = ctx.tier == "thorough"
    # 1. exhaustive model check of the loader + kernel model
    # (the environment that denies prctl(2) multiplies the states by four: full size in the thorough tier, two threads x two loads here)
    jobs = [dict(module="Loader", cfg=lf.mc_cfg(allow_deny=th), name="Loader_3t_3l", timeout=3000)]
    if not th:
        jobs.append(dict(module="Loader", cfg=lf.mc_cfg(threads="{t1, t2}", maxloads=2, polids="{0, 1}"), name="Loader_2t_2l_deny", timeout=3000))
    if th:
        # (measured: 3 threads x 3 loads with the prctl-denying environment 13.7 M distinct states, 4 x 3 without it 21.2 M - minutes each;
        #  4 x 3 with it does not finish within the hour, 4 x 2 with it has 28.6 M)
        jobs.append(dict(module="Loader", cfg=lf.mc_cfg(threads="{t1, t2, t3, t4}", maxloads=3, allow_deny=False), name="Loader_4t_3l", timeout=3000))
    # 2. histories for replay: the full alphabet without, and a reduced alphabet with, an enclosing filter that blocks seccomp(2)
    jobs.append(dict(module="LoaderGen", cfg=lf.gen_cfg("{pool, t1, t2}", 3 if th else 2, FLAGS, '{"valid", "invalid", "oversize"}', "{t1, t2}", False),
                     name="LoaderGen", timeout=3000))
    jobs.append(dict(module="LoaderGen", cfg=lf.gen_cfg("{pool, t1, t2}", 2, '{{}, {"TSYNC"}, {"TSYNC", "LOG"}}', '{"valid"}', "{t1, t2}", False, allow_block=True),
                     name="LoaderGenBlock", timeout=3000))
    # ... and with an enclosing filter that denies prctl(2), and loads that repeat a policy
    jobs.append(dict(module="LoaderGen", cfg=lf.gen_cfg("{pool, t1, t2}", 2, '{{}, {"TSYNC"}}', '{"valid", "allowall"}', "{t1, t2}", False, allow_deny=True, polids="{0, 1}"),
                     name="LoaderGenDeny", timeout=3000))
    # ... and with calls that overlap: another wired thread loads a filter of its own while the call is parked at the schedule point
    jobs.append(dict(module="LoaderGen", cfg=lf.gen_cfg("{pool, t1, t2}", 2, '{{}, {"TSYNC"}}', '{"valid"}', "{t1, t2}", False, allow_other=True),
                     name="LoaderGenOther", timeout=3000))
    jobs.insert(1, dict(module="Loader", cfg=lf.mc_cfg(threads="{t1, t2, t3}", maxloads=2, allow_deny=False, allow_other=True), name="Loader_3t_2l_overlap", timeout=3000))
    res = ctx.tlc_many(jobs, parallel=3)
    extra = [h for h in lf.histories(res[-1]["out"]) if any(x["op"] == "load" for e in h["hist"] for x in (e.get("hook") or []))]
    ctx.cov["states"] -= res[-1]["distinct"]
    ctx.cov["transitions"] -= res[-1]["generated"]
    res = res[:-1]
    extra += [h for h in lf.histories(res[-1]["out"]) if any(e["op"] == "denyprctl" or e.get("pid") or e.get("pol") == "allowall" for e in h["hist"])]
    ctx.cov["states"] -= res[-1]["distinct"]
    ctx.cov["transitions"] -= res[-1]["generated"]
    res = res[:-1]
    for r in res[:-2]:
        if r["violated"]:
            raise vlib.Machinery("TLC: %s violated in %s: the specification of the unchanged design does not satisfy its own invariant" % (r["violated"], r["name"]))
    for r in res[-2:]:
        ctx.cov["states"] -= r["distinct"]
        ctx.cov["transitions"] -= r["generated"]
    hists = lf.histories(res[-2]["out"]) + [h for h in lf.histories(res[-1]["out"]) if any(e["op"] == "block" for e in h["hist"])] + extra
    if not hists:
        raise vlib.Machinery("no histories generated")
    n = 1500 if th else 220
    picked, nclasses = lf.sample(hists, n, ctx.seed, features)
    d = lf.child_bin(ctx)

    def one(ih):
        i, h = ih
        script = lf.to_script(h, 3)
        # every third privileged history runs in a process that has changed its root to an empty directory first (no /proc, no files):
        # what the loader does and reports depends on the kernel's answers only (Loader.tla has no file system)
        if h["priv"] and i % 3 == 1:
            script["jail"] = os.path.dirname(ctx.path("jails", "j%d" % i, "x"))
        # every fourth privileged history runs under an emulation of a kernel before 5.7 (seccomp(2) answers EINVAL to flag bits from 1 << 4 on):
        # the library hands the kernel the caller's flags, so nothing it reports depends on that
        if h["priv"] and i % 4 == 2 and not script.get("jail"):
            script["old_kernel"] = True
        obs, err = lf.run_child(d + "/loadchild", script, h["priv"])
        if obs is None and (err.startswith("rc=") or err == "timeout") and any(st["op"] == "supported" for st in script["steps"]):
            # find out where it died: replay the prefix without Supported()
            k = [i for i, st in enumerate(script["steps"]) if st["op"] == "supported"][0]
            pre = dict(script)
            pre["steps"] = script["steps"][:k]
            o2, e2 = lf.run_child(d + "/loadchild", pre, h["priv"])
            if o2 is not None:
                return h, script, "died-at-supported", err
        return h, script, obs, err
    failed_children = 0
    ndrift = 0
    seen_tags = {}
    njail = 0
    for h, script, obs, err in lf.run_many(one, list(enumerate(picked))):
        njail += 1 if script.get("jail") else 0
        ctx.cov["histories_replayed_under_an_emulated_older_kernel"] = ctx.cov.get("histories_replayed_under_an_emulated_older_kernel", 0) + (1 if script.get("old_kernel") else 0)
        if obs is None or (obs != "died-at-supported" and len(obs) != len(h["hist"])):
            failed_children += 1
            ctx.skip("child failed: %s" % (err or "short output"))
            continue
        if obs == "died-at-supported":
            ctx.violation("the process died when Supported() was called (probing for support must not change process state)",
                          {"history": h, "script": script, "priv": h["priv"], "observed": err, "how": "./check C09 --replay <this file>"})
            continue
        bad, drift = judge(h, obs)
        ctx.cov["traces_validated_against_impl"] += 1
        ctx.cov["evaluations"] += len(obs)
        if any(e["op"] == "load" and e["res"] == "err" for e in h["hist"]):
            ctx.cov["distinct_nontrivial"] += 1
        for t in tags(h):
            seen_tags[t] = seen_tags.get(t, 0) + 1
        if drift:
            ndrift += 1
            ctx.drift({"history": list(features(h)[1]), "what": drift[:3]})
        for b in bad:
            ctx.violation(b, {"history": h, "script": script, "priv": h["priv"], "observed": obs,
                              "admissible": "nil only with the filter in force (on every thread for thread-sync); an error whenever the kernel declines; failed-early loads and Supported() leave the state unchanged",
                              "how": "./check C09 --replay <this file>"})
        if not bad and not drift:
            ctx.sample({"priv": h["priv"], "steps": [(e["op"], e.get("caller", e.get("t")), e.get("pol"), e.get("flags"), e.get("nnp"), e.get("res")) for e in h["hist"]]}, limit=4)
    if failed_children > len(picked) // 4:
        raise vlib.Machinery("%d of %d children failed" % (failed_children, len(picked)))
    build_targets(ctx, d)
    ctx.cov["histories_generated"] = len(hists)
    ctx.cov["histories_replayed_without_a_file_system"] = njail
    ctx.cov["replayed_by_tag"] = seen_tags
    for need in ("refused-tsync", "eacces", "enosys", "badflags", "oversize", "invalid", "ok-tsync", "ok-plain", "supported", "hook-spawn", "prctl-denied", "same-policy-again", "ok-allowall", "overlapping-load"):
        if not seen_tags.get(need):
            raise vlib.Machinery("no replayed history exercised '%s'" % need)
    ctx.cov["history_classes"] = nclasses
    ctx.cov["histories_with_projection_drift"] = ndrift
    ctx.cov["rule"] = ("all maximal histories of LoaderGen (threads pool,t1,t2; %d calls; flags {},TSYNC,BAD,TSYNC|LOG; valid/invalid/oversize policies; "
                       "root and nobody; thread creation between calls and at the schedule point), of which a seeded stratified sample is replayed, one "
                       "child process each; non-trivial = the history contains a load the kernel or the library refuses" % (3 if th else 2))
    ctx.assumptions += ["kernel behaviour is that of the host kernel; the kernel part of Loader.tla is validated by the projection comparison (drift list)",
                        "unmanaged Go runtime threads are represented by the model thread `pool`"]
