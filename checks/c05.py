"""C05 - every emitted program is a valid seccomp filter with closed return set."""
import polfam


def check(ctx, replay=None):
    if replay:
        return polfam.replay_one(ctx, replay)
    th = ctx.tier == "thorough"
    plan = [
        dict(scope="groups" if th else "groups2", mc=["ValidOK"], mc_maxskips=[255, 2, 3], kw=dict(NSys=3), stride=2 if th else 1, concs=3, expand=1),
        dict(scope="actions", mc=["ValidOK"], mc_maxskips=[255], kw=dict(NSys=3), stride=1, concs=4, expand=1),
        dict(scope="rich", mc=["ValidOK"], mc_maxskips=[255, 3] if th else [3], stride=1 if th else 4, concs=2, expand=1),
        dict(scope="many", mc=["ValidOK"], mc_maxskips=[255, 2] if th else [2], stride=1 if th else 10, concs=2, expand=1),
        # policies the validation is meant to stop (argument index 6/7/max, ...): whatever comes back without error must be valid
        dict(scope="defects", mc=["ValidOK"], mc_maxskips=[255], kw=dict(NSys=3), stride=1, concs=2, expand=1),
        dict(scope="long1", mc=["ValidOK"] if th else None, mc_maxskips=[255], kw=dict(W=8, X32Bit=512, NSys=300), stride=1 if th else 2, concs=2, expand=1),
        dict(scope="long2", mc=["ValidOK"] if th else None, mc_maxskips=[255], kw=dict(W=8, X32Bit=512, NSys=300), stride=1 if th else 3, concs=2, expand=1),
        dict(scope="longconds", mc=["ValidOK"], mc_maxskips=[255], kw=dict(W=8, X32Bit=512, NSys=300), stride=1 if th else 2, concs=2, expand=1),
        # one list of 129..300 conditions (600..1700 instructions: second- and third-level bridges on its no-match label); generated, the model does not compile it
        dict(scope="hugelist", mc=None, with_model=False, kw=dict(W=11, X32Bit=4096, NSys=300), stride=1 if th else 2, concs=2, expand=1),
    ]
    polfam.run_family(ctx, plan, mine={"invalid"}, decision_owner=None)
    ctx.cov["rule"] = ("every accepted policy of the scopes (incl. groups without names in every position and conditional-only groups): raw encoding, "
                       "port of bpf_check_classic/seccomp_check_filter, closed return set")
