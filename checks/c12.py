"""C12 - syscall tables and architecture metadata are correct and unambiguous."""
import itertools
import json
import os
import re
import subprocess

import vlib

LEVEL = "exploration"
ORACLE = os.path.join(vlib.VERIF, "oracle")
AUDIT_MACRO = {"ARM": "ARM", "AARCH64": "AARCH64", "I386": "I386", "X32": "X86_64", "X86_64": "X86_64", "PPC": "PPC", "PPC64": "PPC64",
               "PPC64LE": "PPC64LE", "S390": "S390", "S390X": "S390X", "MIPS": "MIPS", "MIPSEL": "MIPSEL", "MIPS64": "MIPS64",
               "MIPS64N32": "MIPS64N32", "MIPSEL64": "MIPSEL64", "MIPSEL64N32": "MIPSEL64N32"}
STATEMENT_ALIASES = {"amd64": "X86_64", "x86_64": "X86_64", "386": "I386", "i386": "I386", "arm64": "AARCH64", "aarch64": "AARCH64", "x32": "X32", "arm": "ARM"}
NO_TABLE = ["ppc", "ppc64", "ppc64le", "s390", "s390x", "mips", "mipsle", "mipsel", "mips64", "mips64le", "mips64p32", "mips64p32le", "mipsel64",
            "mipsel64n32", "mips64n32", "riscv64", "loong64", "sparc64", "wasm", "riscv", "ia64",
            # the other architecture names the Go toolchain knows (go/build's list) ...
            "amd64p32", "armbe", "arm64be", "sparc",
            # ... and the other AUDIT_ARCH names of the kernel's audit.h (lower case, as the package spells the ones it knows)
            "alpha", "arcompact", "arcv2", "armeb", "c6x", "c6xbe", "cris", "csky", "frv", "h8300", "hexagon", "loongarch32", "loongarch64", "m32r", "m68k",
            "microblaze", "nds32", "nds32be", "nios2", "openrisc", "parisc", "parisc64", "riscv32", "sh", "shel", "sh64", "shel64", "tilegx", "tilegx32",
            "tilepro", "unicore", "xtensa"]
JUNK = [" amd64", "amd64 ", "amd_64", "x86-64", "x86_64\n", "arm6", "arm644", "i686", "x64", "amd", "64", "a", "x86", "x86_32", "aarch32", "i3866", "\tarm", "x32 ", "X 32"]


def first_existing(*paths):
    for p in paths:
        if os.path.exists(p):
            return p
    raise vlib.Machinery("oracle file missing: %s" % (paths,))


def parse_nr_header(path, pattern):
    out = {}
    for name, n in re.findall(pattern, open(path).read()):
        out[name] = int(n)
    return out


def parse_go_sysnum(path):
    out = {}
    for name, n in re.findall(r"^\s*SYS_(\w+)\s*=\s*(\d+)", open(path).read(), re.M):
        out[name.lower()] = int(n)
    return out


def oracles():
    k = os.path.join(ORACLE, "kernel")
    inc = "/usr/include/x86_64-linux-gnu/asm"
    goroot = subprocess.run(["go", "env", "GOROOT"], capture_output=True, text=True).stdout.strip()
    o = {a: [] for a in ("X86_64", "I386", "X32", "ARM", "AARCH64")}
    o["X86_64"].append(("unistd_64.h", parse_nr_header(first_existing(inc + "/unistd_64.h", k + "/unistd_64.h"), r"#define __NR_(\w+) (\d+)")))
    o["I386"].append(("unistd_32.h", parse_nr_header(first_existing(inc + "/unistd_32.h", k + "/unistd_32.h"), r"#define __NR_(\w+) (\d+)")))
    o["X32"].append(("unistd_x32.h", parse_nr_header(first_existing(inc + "/unistd_x32.h", k + "/unistd_x32.h"), r"#define __NR_(\w+) \(__X32_SYSCALL_BIT \+ (\d+)\)")))
    for arch, ga in (("X86_64", "amd64"), ("I386", "386"), ("ARM", "arm"), ("AARCH64", "arm64")):
        o[arch].append(("go syscall zsysnum_linux_%s.go" % ga, parse_go_sysnum(first_existing(os.path.join(goroot, "src/syscall/zsysnum_linux_%s.go" % ga),
                                                                                           os.path.join(ORACLE, "go_syscall/zsysnum_linux_%s.go" % ga)))))
        o[arch].append(("x/sys/unix zsysnum_linux_%s.go" % ga, parse_go_sysnum(os.path.join(ORACLE, "xsys/zsysnum_linux_%s.go" % ga))))
    # the ARM private calls (no other source on this machine lists them): __ARM_NR_BASE + n of the kernel's ARM unistd.h
    atxt = open(k + "/arm-unistd-private.h").read()
    base = int(re.search(r"#define __ARM_NR_BASE\s+\(__NR_SYSCALL_BASE\+(0x[0-9a-f]+)\)", atxt).group(1), 16)
    private = {name: base + int(n) for name, n in re.findall(r"#define __ARM_NR_(\w+)\s+\(__ARM_NR_BASE\+(\d+)\)", atxt)}
    for a in o:
        for name, t in o[a]:
            if len(t) < 200:
                raise vlib.Machinery("oracle %s for %s parsed to only %d entries" % (name, a, len(t)))
    if len(private) != 6:
        raise vlib.Machinery("oracle arm-unistd-private.h parsed to %d entries" % len(private))
    o["ARM"].append(("kernel arch/arm unistd.h (private calls)", private))
    return o


def audit_oracle():
    k = os.path.join(ORACLE, "kernel")
    em = {}
    for name, val in re.findall(r"#define\s+(EM_\w+)\s+(0x[0-9a-fA-F]+|\d+)", open(first_existing("/usr/include/linux/elf-em.h", k + "/elf-em.h")).read()):
        em[name] = int(val, 0)
    txt = open(first_existing("/usr/include/linux/audit.h", k + "/audit.h")).read()
    env = dict(em)
    for name, val in re.findall(r"#define\s+(__AUDIT_ARCH_\w+)\s+(0x[0-9a-fA-F]+)", txt):
        env[name] = int(val, 16)
    out = {}
    for name, expr in re.findall(r"#define\s+AUDIT_ARCH_(\w+)\s+\(([^)]*(?:\n[^)]*)?)\)", txt):
        e = expr.replace("\\\n", " ").replace("\n", " ")
        try:
            out[name] = eval(e, {"__builtins__": {}}, env) & 0xFFFFFFFF
        except Exception:
            pass
    return out


def case_masks(s, limit):
    letters = [i for i, c in enumerate(s) if c.isalpha()]
    out = []
    for bits in itertools.product([0, 1], repeat=len(letters)):
        t = list(s)
        for i, b in zip(letters, bits):
            if b:
                t[i] = t[i].upper()
        out.append("".join(t))
        if len(out) >= limit:
            break
    return out


def generator(ctx):
    """The program that regenerates the tables (anchor `ABI column filter of the generator`): TableGen.tla's builders are checked against the
    ideal tables over all abstract kernel trees, the trees are exported and the REAL generator is run on them. The statement speaks about the
    tables in the package, so a mismatch here is recorded and printed as a note - it is not a violation of C12."""
    import tablegen
    cases_f = ctx.path("tablegen_cases.json")
    cfg = 'CONSTANTS\n  Dev = {}\n  OutFile = "%s"\nSPECIFICATION Spec\n%sCHECK_DEADLOCK FALSE\n'
    run = "---- MODULE TGRun ----\nEXTENDS TableGenMC\nASSUME Export\n====\n"
    ctx.tlc("TGRun", cfg % (cases_f, ""), name="TableGenExport", files={"TGRun.tla": run}, workers=1, timeout=600)
    r = ctx.tlc("TableGenMC", cfg % (cases_f + ".unused", "INVARIANTS BuildersIdealInv GeneratedUnambiguousInv SharedIsCommonInv\n"), name="TableGenMC", workers=1, timeout=600)
    if r["violated"]:
        raise vlib.Machinery("TLC: %s violated in TableGenMC: the specification of the unchanged design does not satisfy its own invariant" % r["violated"])
    cases = json.load(open(cases_f))
    res = tablegen.replay(ctx, cases, len(cases) if ctx.tier == "thorough" else 60)
    ctx.cov["generator_conformance"] = {"abstract_kernel_trees": len(cases), "generator_runs": res["ran"], "mismatches": len(res["mismatches"]), "skipped": res["skipped"]}
    if res["skipped"]:
        ctx.note("table generator not replayed: " + res["skipped"])
    for m in res["mismatches"][:3]:
        ctx.note("table generator differs from TableGen.tla (not a C12 verdict: the committed tables are what the statement is about): %s" % json.dumps(m)[:400])
    ctx.cov["evaluations"] += res["ran"] * 5


def check(ctx, replay=None):
    th = ctx.tier == "thorough"
    bindir = ctx.harness()
    spellings = [""]
    for a in STATEMENT_ALIASES:
        spellings += case_masks(a, 1 << 12)
    for a in NO_TABLE:
        spellings += case_masks(a, 4096 if th else 8)
    spellings += JUNK
    spellings = list(dict.fromkeys(spellings))
    if replay:
        rep = json.load(open(replay))
        spellings = rep.get("spellings", spellings)
    dumps = []
    for i in range(24 if th else 4):
        # (the odd-numbered processes look the spellings up in reverse order: what a spelling resolves to must not depend on
        # which lookups came before it in the process)
        # (processes 2, 3 mod 4 first USE the tables - Tables!Use: compilations with every own and every foreign name for every
        # architecture - and dump them afterwards: the tables are data, no use of the package changes them)
        rc, out, err = ctx.run([os.path.join(bindir, "archdump")] + (["-history"] if i % 4 >= 2 else []),
                               input=json.dumps(spellings if i % 2 == 0 else spellings[::-1]), timeout=300)
        if rc != 0:
            raise vlib.Machinery("archdump failed: " + err[-1000:])
        dumps.append(json.loads(out))
        if i % 4 >= 2 and dumps[-1].get("uses", 0) < 500:
            raise vlib.Machinery("archdump -history performed only %s compilations" % dumps[-1].get("uses"))
    ctx.cov["compilations_before_a_dump"] = sum(d.get("uses", 0) for d in dumps)
    d0 = dumps[0]
    archs = {a["var"]: a for a in d0["arches"]}
    tabled = [v for v, a in archs.items() if a["numbers"]]
    orc = oracles()
    aud = audit_oracle()
    viol = []   # (message, witness)

    # --- the statement applied to the extracted data (witness search; TLC decides the same predicates below)
    hist = []   # findings about what a HISTORY does to the answers (compared across dumps; TLC decides the per-table predicates on one dump)
    for i, d in enumerate(dumps):
        if d.get("changed"):
            ctx.note("the tables of a process changed while the package was used (%d entries, e.g. %s); judged through the statement's predicates on the tables as they are afterwards" % (len(d["changed"]), d["changed"][:3]))
    for i, d in enumerate(dumps):
        for r in [r for r in (d.get("repeats") or []) if r["in"] not in JUNK][:6]:
            hist.append(("a spelling resolves differently when it is looked up again in the same process: %s" % r["why"], {"repeat": r}))
    for i, d in enumerate(dumps[1:], 1):
        for a0, a1 in zip(d0["arches"], d["arches"]):
            if a0["numbers"] != a1["numbers"]:
                diff = sorted(k for k in set(a0["numbers"]) | set(a1["numbers"]) if a0["numbers"].get(k) != a1["numbers"].get(k))[:5]
                hist.append(("number lookups of %s differ between two process runs (e.g. %s)" % (a0["var"], diff), {"arch": a0["var"], "numbers": diff}))
            if a0["names"] != a1["names"]:
                diff = sorted(k for k in set(a0["names"]) | set(a1["names"]) if a0["names"].get(k) != a1["names"].get(k))[:5]
                hist.append(("name lookups of %s differ between two process runs (e.g. %s)" % (a0["var"], diff), {"arch": a0["var"], "names": diff}))
        by_in = {l["in"]: l for l in d["lookups"]}
        for l0 in d0["lookups"]:
            if l0 != by_in.get(l0["in"]):
                hist.append(("GetInfo(%r) differs between process runs / lookup orders" % l0["in"], {"spelling": l0["in"]}))

    def table_findings(archs, when):
        viol = []
        for v in tabled:
            a = archs[v]
            nums = {int(k): n for k, n in a["numbers"].items()}
            byname = {}
            for n, name in nums.items():
                byname.setdefault(name, []).append(n)
            amb = {k: sorted(x) for k, x in byname.items() if len(x) > 1}
            if amb:
                viol.append(("%d names of %s have two numbers (e.g. %s)" % (len(amb), v, sorted(amb.items())[:3]), {"arch": v, "ambiguous": sorted(amb)[:10]}))
            for n, name in nums.items():
                if name not in a["names"]:
                    viol.append(("%s: number %d -> %s but the name does not look up" % (v, n, name), {"arch": v, "nr": n}))
                elif a["names"][name] != n and name not in amb:
                    viol.append(("%s: %d -> %s -> %d" % (v, n, name, a["names"][name]), {"arch": v, "nr": n}))
            for name, n in a["names"].items():
                if nums.get(n) != name:
                    viol.append(("%s: %s -> %d -> %s" % (v, name, n, nums.get(n)), {"arch": v, "name": name}))
            for oname, t in orc.get(v, []):
                bad = [(s, a["names"][s], t[s]) for s in t if s in a["names"] and a["names"][s] != t[s]]
                if bad:
                    viol.append(("%s disagrees with %s on %d names (e.g. %s)" % (v, oname, len(bad), bad[:3]), {"arch": v, "oracle": oname, "names": [b[0] for b in bad[:10]]}))
                common = len([s for s in t if s in a["names"]])
                ctx.cov["evaluations"] += common
                if len(t) >= 150 and common < 150:
                    raise vlib.Machinery("oracle %s shares only %d names with table %s" % (oname, common, v))
                # number -> name direction: notes only (naming conventions differ between sources)
                inv = {n: s for s, n in t.items()}
                diffn = [(n, nums[n], inv[n]) for n in nums if n in inv and nums[n] != inv[n] and t.get(nums[n]) != n]
                if diffn:
                    ctx.note("%s vs %s: %d numbers carry another name (%s)" % (v, oname, len(diffn), diffn[:3]))
        for v in tabled:
            nums = {int(k): n for k, n in archs[v]["numbers"].items()}
            srcs = orc.get(v, [])
            for n, name in nums.items():
                listing = [{x: s for s, x in t.items()}.get(n) for _, t in srcs]
                listing = [x for x in listing if x is not None]
                if len(listing) >= 2 and len(set(listing)) == 1 and name != listing[0] and not any(name in t for _, t in srcs):
                    viol.append(("%s: number %d is %r in every source that lists it but %r in the table (a name no source knows)" % (v, n, listing[0], name), {"arch": v, "nr": n}))
        return [(m + when, w) for m, w in viol]

    # the dump TLC evaluates: the first one whose tables break the statement (a dump taken after the tables were used counts like any other:
    # the lookups the statement speaks about are the ones a process performs, not only the first ones), else the first dump
    d_eval, viol = d0, []
    def tables_of(d):
        return [(a["var"], a["names"], a["numbers"]) for a in d["arches"]]
    for i, d in enumerate(dumps):
        if i > 0 and tables_of(d) == tables_of(d0):
            continue
        f = table_findings({a["var"]: a for a in d["arches"]}, " [process %d%s]" % (i, ", after %d compilations with own and foreign names" % d["uses"] if d.get("uses") else ""))
        if f:
            d_eval, viol = d, f
            break
    archs = {a["var"]: a for a in d_eval["arches"]}
    for v, a in archs.items():
        want = aud.get(AUDIT_MACRO[v])
        if want is None:
            raise vlib.Machinery("AUDIT_ARCH_%s not found in audit.h" % AUDIT_MACRO[v])
        if int(a["id"], 16) != want:
            viol.append(("audit id of %s is %s, the kernel's AUDIT_ARCH_%s is %#x" % (v, a["id"], AUDIT_MACRO[v], want), {"arch": v}))
        ctx.cov["evaluations"] += 1
    if archs["X32"]["mask"] != 0x40000000 or any(a["mask"] != 0 for v, a in archs.items() if v != "X32"):
        ctx.note("seccomp masks differ from the expected ones (not part of the statement): %s" % {v: a["mask"] for v, a in archs.items() if a["mask"]})

    def spec_getinfo(s):
        n = d0["goarch"] if s == "" else s.lower()
        return STATEMENT_ALIASES.get(n, "")
    for l in d0["lookups"]:
        want = spec_getinfo(l["in"])
        ctx.cov["evaluations"] += 1
        if l["in"] in JUNK:
            # near misses are outside the statement (a more lenient or stricter parser is admissible): noted, never a verdict
            if l["var"]:
                ctx.note("GetInfo(%r) resolves to %s" % (l["in"], l["var"]))
            continue
        if l["var"] != want:
            viol.append(("GetInfo(%r) gives %s, expected %s" % (l["in"], l["var"] or ("error: " + l["err"]), want or "an unsupported-architecture error"), {"spelling": l["in"]}))
        elif want == "" and "unsupported" not in l["err"]:
            ctx.note("GetInfo(%r) fails with an unexpected text: %s" % (l["in"], l["err"]))

    # --- the same predicates decided by TLC over the extracted data (Tables.tla)
    data = {"archs": tabled,
            "numbers": {v: archs[v]["numbers"] for v in tabled},
            "names": {v: archs[v]["names"] for v in tabled},
            "audit": {v: "0x%08x" % int(a["id"], 16) for v, a in archs.items()},
            "oracle_audit": {v: "0x%08x" % aud[AUDIT_MACRO[v]] for v in archs},
            "oracles": {v: [t for _, t in orc.get(v, [])] for v in tabled},
            "oracle_inv": {v: [{str(n): s for s, n in t.items()} for _, t in orc.get(v, [])] for v in tabled},
            "lookups": [{"in": list(l["in"]), "var": l["var"]} for l in d0["lookups"] if l["in"] not in JUNK],
            "goarch": list(d0["goarch"])}
    jpath = ctx.path("tables.json")
    json.dump(data, open(jpath, "w"))
    # an ambiguous fragment for the Invert machine if the data has one, else the first entries
    frag = None
    for v in tabled:
        nums = archs[v]["numbers"]
        byname = {}
        for n, name in nums.items():
            byname.setdefault(name, []).append(int(n))
        for name, ns in byname.items():
            if len(ns) > 1:
                frag = {ns[0]: name, ns[1]: name}
                break
        if frag:
            break
    if not frag:
        frag = {}
    for n, name in list(archs["X86_64"]["numbers"].items())[:3]:
        frag.setdefault(int(n), name)
    fragtxt = " @@ ".join('(%d :> "%s")' % (n, s) for n, s in sorted(frag.items()))
    datamod = '''---- MODULE TablesData ----
EXTENDS Json, TLC, Integers, Sequences
Data == JsonDeserialize("%s")
Archs == {Data.archs[i] : i \\in 1..Len(Data.archs)}
Numbers == Data.numbers
Names == Data.names
AuditId == Data.audit
OracleAudit == Data.oracle_audit
Oracles == Data.oracles
OracleInv == Data.oracle_inv
Lookups == Data.lookups
GOARCH == Data.goarch
====
''' % jpath
    cfg = "CONSTANTS\n  Frag <- FragDef\nSPECIFICATION Spec\nINVARIANTS TablesInv AuditInv GetInfoInv InvertDeterministic InvertRightInverse\nCHECK_DEADLOCK FALSE\n"
    mc = '''---- MODULE TablesMC ----
EXTENDS Tables
FragDef == %s
TablesInv == TablesOK
AuditInv == AuditOK
GetInfoInv == GetInfoOK
====
''' % fragtxt
    r = ctx.tlc("TablesMC", cfg, files={"TablesData.tla": datamod, "TablesMC.tla": mc}, workers=4, timeout=1200)
    tlc_bad = r["violated"]
    ctx.cov["states"] = r["distinct"]
    ctx.cov["transitions"] = r["generated"]
    if bool(viol) != bool(tlc_bad):
        # TLC stops at the first violated invariant; an InvertDeterministic failure alone cannot happen for an injective fragment
        raise vlib.Machinery("TLC (%s) and the witness search (%d findings) disagree" % (tlc_bad, len(viol)))
    for msg, w in viol:
        ctx.violation(msg, {"witness": w, "tlc_invariant": tlc_bad, "how": "./check C12 --replay <this file> (re-dumps the tables of the current tree)"})
    for msg, w in hist:
        ctx.violation(msg, {"witness": w, "how": "./check C12 --replay <this file> (re-dumps the tables of the current tree in fresh processes, half of them after using the tables)"})
    generator(ctx)
    ctx.cov["distinct_nontrivial"] = sum(len(archs[v]["numbers"]) for v in tabled)
    ctx.cov["exhaustive"] = True
    # lookups in histories of the whole interface (Hist.tla): names resolved for a table the way the compiler does it, then the table read
    import histfam
    histfam.run(ctx)
    ctx.cov["rule"] = ("every entry of the five tables in both directions (from a dump of the real arch package, taken in %d separate processes), every name shared with each "
                       "independent source, all 16 audit ids, GetInfo for every case spelling of the statement's aliases, table-less architectures and near-miss strings "
                       "(%d spellings); distinct_nontrivial = number of table entries" % (len(dumps), len(spellings)))
    ctx.sample({"x86_64_entries": len(archs["X86_64"]["numbers"]), "x32_entries": len(archs["X32"]["numbers"]), "lookups": d0["lookups"][1:4]})
    ctx.assumptions += ["oracles: kernel UAPI headers of linux-libc-dev 6.1 (x86 ABIs), Go 1.23 syscall tables and x/sys/unix v0.48.0 (all four Go architectures); "
                        "names an oracle does not list are not judged; number->name differences are notes (naming conventions differ between sources)"]
    if replay:
        rc = ctx.finish()
        return rc
