"""C03 - AND within a list, OR across lists, no leak across syscalls."""
import polfam


def check(ctx, replay=None):
    if replay:
        return polfam.replay_one(ctx, replay)
    th = ctx.tier == "thorough"
    plan = [
        dict(scope="rich", mc=["DecisionOK"], mc_maxskips=[255, 3] if th else [255], stride=1 if th else 3, concs=4 if th else 3, expand=2),
        dict(scope="merge", mc=["DecisionOK"], mc_maxskips=[255], stride=1 if th else 4, concs=3, expand=2),
        dict(scope="many", mc=["DecisionOK"], mc_maxskips=[255, 3, 4] if th else [3], stride=1 if th else 10, concs=3, expand=2),
        dict(scope="allops", mc=["DecisionOK"], mc_maxskips=[255], stride=1, concs=4, expand=2),
        # up to three lists per syscall, up to three conditions per list, the same argument constrained twice
        dict(scope="deep", mc=["DecisionOK"], mc_maxskips=[255, 4] if th else [255], stride=1, concs=3, expand=2),
    ]
    # two conditions of one list on the same argument: every pair of operations (an AND must stay an AND)
    plan.append(dict(scope="pairs", mc=["DecisionOK"], mc_maxskips=[255], stride=1, concs=3 if th else 2, expand=2))
    plan.append(dict(scope="subsume", mc=["DecisionOK"], mc_maxskips=[255], stride=1 if th else 2, concs=2, expand=2))
    # three or four alternatives of one syscall, each a single Equal test (alternating arguments, operands with different high words)
    plan.append(dict(scope="eqruns", mc=["DecisionOK"], mc_maxskips=[255], stride=1 if th else 2, concs=2, expand=2))
    plan.append(dict(scope="mergeops", mc=["DecisionOK"], mc_maxskips=[255], stride=1 if th else 2, concs=3 if th else 2, expand=2))
    # real scale: one syscall with k lists x c conditions (jump distances 253..258) between other entries and a later group
    plan.append(dict(scope="longconds", mc=["DecisionOK"] if th else None, mc_maxskips=[255], kw=dict(W=8, X32Bit=512, NSys=300), stride=1 if th else 3, concs=4 if th else 2, expand=1))
    plan.append(dict(scope="longops", mc=["DecisionOK"] if th else None, mc_maxskips=[255], kw=dict(W=8, X32Bit=512, NSys=300), stride=1, concs=3 if th else 2, expand=1))
    # one list of 63..128 conditions next to short lists of the same syscall, in every order
    plan.append(dict(scope="longlist", mc=["DecisionOK"] if th else None, mc_maxskips=[255], kw=dict(W=8, X32Bit=512, NSys=300), stride=1, concs=3 if th else 2, expand=1))
    # n unconditional names and conditional entries in one group, the conditional syscalls numbered below / above all the names
    plan.append(dict(scope="mixgroup", mc=["DecisionOK"] if th else None, mc_maxskips=[255], kw=dict(W=8, X32Bit=512, NSys=300), stride=1 if th else 2, concs=3, expand=1))
    plan.append(dict(scope="hugelist", mc=None, with_model=False, kw=dict(W=11, X32Bit=4096, NSys=300), stride=1 if th else 2, concs=2, expand=1))
    if th:
        plan.append(dict(scope="manywide", mc=["DecisionOK"], mc_maxskips=[255], stride=4, concs=3, expand=2))
    polfam.run_family(ctx, plan, mine={"decision"}, decision_owner="C03")
    ctx.cov["rule"] = ("policies mixing unconditional and conditional entries (scopes rich, merge, many, allops of CompileScopes.tla); the first "
                       "concretisation of every policy is the identity one (syscall numbers 0..n, low-aligned words) so that argument words coincide "
                       "with syscall numbers and operands; non-trivial = at least two different decisions among the events")
    ctx.assumptions += ["entries whose condition list is empty are outside the scope (the statement of C07 carves them out)"]
