"""C11 - no_new_privs is set iff requested, before install, on the installing thread."""
import json

import loaderfam as lf
import vlib

FLAGS = '{{}, {"TSYNC"}, {"LOG"}, {"TSYNC", "LOG"}, {"SPEC"}, {"TSYNC", "SPEC"}}'


def judge(case, o):
    """Statement-level verdicts for one load executed on an ordinary (unwired) goroutine."""
    bad = []
    priv, nnp, attempt = case["priv"], case["nnp"], case["attempt"]
    reached = "hook_flags" in o
    if nnp:
        if o["result"] != "nil":
            bad.append("NoNewPrivs requested, valid filter, but the load failed (%s): %s" % ("root" if priv else "uid nobody", o.get("error")))
        if reached and o.get("tid_prctl") != o.get("tid_seccomp"):
            bad.append("no_new_privs was set on thread %s but the filter was installed from thread %s" % (o.get("tid_prctl"), o.get("tid_seccomp")))
        if reached and o.get("seccomp_thread") and o["seccomp_thread"]["nnp"] != 1:
            bad.append("NoNewPrivs requested but the installing thread does not carry the bit")
    else:
        for k in ("prctl_thread", "seccomp_thread"):
            if o.get(k) and o[k]["nnp"] != 0:
                bad.append("NoNewPrivs not requested but the bit is set on a thread afterwards")
        if not priv:
            if o["result"] != "err":
                bad.append("unprivileged load without no_new_privs did not fail")
            if o.get("seccomp_thread") and (o["seccomp_thread"]["seccomp"] != 0 or o["seccomp_thread"]["filters"] != 0):
                bad.append("unprivileged load without no_new_privs installed a filter")
        elif o["result"] != "nil":
            bad.append("privileged load of a valid filter failed: %s" % o.get("error"))
    return bad


def judge_history(h, obs):
    """C11 on histories of several calls on wired threads: a requested bit is set on the calling thread and the load succeeds
    whenever the specification says the kernel accepts it; an unrequested bit is left as it was; an unprivileged load without the bit fails."""
    bad = []
    prev = None
    for e, o in zip(h["hist"], obs):
        if e["op"] == "load":
            caller = o["threads"][e["caller"]]
            before = prev["threads"].get(e["caller"]) if prev else None
            if e["nnp"] and e["pol"] == "valid" and "BAD" not in e["flags"]:
                if e["res"] == "nil" and o["result"] != "nil":
                    bad.append("step %d: NoNewPrivs requested, valid filter, the kernel (as specified) accepts it, but the load failed: %s" % (o["step"], o.get("error")))
                if "hook_flags" in o and caller["nnp"] != 1:
                    bad.append("step %d: NoNewPrivs requested but the filter was handed to the kernel and the calling thread does not carry the bit" % o["step"])
            if not e["nnp"] and before is not None and caller["nnp"] != before["nnp"]:
                bad.append("step %d: NoNewPrivs not requested but the calling thread's bit changed from %d to %d" % (o["step"], before["nnp"], caller["nnp"]))
            if not e["nnp"] and not h["priv"] and before is not None and before["nnp"] == 0 and e["pol"] == "valid":
                if o["result"] == "nil" or e["fid"] in caller["in_force"]:
                    bad.append("step %d: unprivileged load without no_new_privs did not fail cleanly" % o["step"])
        prev = o
    return bad


def htags(h):
    t = []
    for e in h["hist"]:
        if e["op"] == "load":
            t.append("%s%s%s" % ("n" if e["nnp"] else "-", "T" if "TSYNC" in e["flags"] else "-", e["caller"]))
        else:
            t.append(e["op"] + e.get("t", ""))
    return (h["priv"], tuple(t))


def histories(ctx, d, th):
    """Several calls in a row, on different wired threads (a bit set by an earlier call on another thread must not be taken for granted)."""
    r = ctx.tlc("LoaderGen", lf.gen_cfg("{pool, t1, t2}", 3 if th else 2, '{{}, {"TSYNC"}}', '{"valid"}', "{t1, t2}", False), name="LoaderGenC11h", timeout=3000)
    ctx.cov["states"] -= r["distinct"]
    ctx.cov["transitions"] -= r["generated"]
    hists = [h for h in lf.histories(r["out"]) if sum(1 for e in h["hist"] if e["op"] == "load") >= 2]
    # ... and under an enclosing filter that answers prctl(2) with EPERM: a requested bit that cannot be set must stop the load
    r2 = ctx.tlc("LoaderGen", lf.gen_cfg("{pool, t1, t2}", 2, '{{}, {"TSYNC"}}', '{"valid"}', "{t1, t2}", False, allow_deny=True), name="LoaderGenC11deny", timeout=3000)
    ctx.cov["states"] -= r2["distinct"]
    ctx.cov["transitions"] -= r2["generated"]
    def denied_load(h):
        """(privileged, the caller's bit before the call, thread-sync) of the first load that requests the bit on a thread where prctl(2) is denied."""
        prev = None
        for e in h["hist"]:
            if e["op"] == "load" and e["nnp"] and any(x < 0 for x in e["state"][e["caller"]]["chain"]):
                before = prev["state"].get(e["caller"], {"nnp": False})["nnp"] if prev else False
                return (h["priv"], before, "TSYNC" in e["flags"])
            prev = e
        return None
    denied = [h for h in lf.histories(r2["out"]) if denied_load(h)]
    if len(set(denied_load(h) for h in denied)) < 6:
        raise vlib.Machinery("histories with a denied prctl cover only the classes %s" % sorted(set(denied_load(h) for h in denied)))
    picked, nclasses = lf.sample(hists, 900 if th else 160, ctx.seed, htags)
    p2, n2 = lf.sample(denied, 400 if th else 80, ctx.seed, denied_load)
    picked += p2
    nclasses += n2
    # ... and the SAME policy value loaded again (Loader!PolIds): what one call was asked about no_new_privs says nothing about the next -
    # in particular for calls that are equal in everything else (policy, flags)
    r3 = ctx.tlc("LoaderGen", lf.gen_cfg("{pool, t1, t2}", 3 if th else 2, '{{}, {"TSYNC"}}', '{"valid"}', "{t1, t2}", False, polids="{1}"), name="LoaderGenC11same", timeout=3000)
    ctx.cov["states"] -= r3["distinct"]
    ctx.cov["transitions"] -= r3["generated"]

    def flips(h):
        loads = [e for e in h["hist"] if e["op"] == "load"]
        return any(a["flags"] == b["flags"] and a["nnp"] != b["nnp"] for a, b in zip(loads, loads[1:]))
    same = [h for h in lf.histories(r3["out"]) if sum(1 for e in h["hist"] if e["op"] == "load") >= 2]
    p3, n3 = lf.sample([h for h in same if flips(h)], 300 if th else 70, ctx.seed, htags)
    p4, n4 = lf.sample([h for h in same if not flips(h)], 150 if th else 30, ctx.seed, htags)
    if len(p3) < 20:
        raise vlib.Machinery("only %d histories load one policy twice with equal flags and different NoNewPrivs" % len(p3))
    ctx.cov["histories_that_load_one_policy_again_with_the_other_NoNewPrivs"] = len(p3)
    picked += p3 + p4
    nclasses += n3 + n4
    # ... and on threads whose seccomp(2) calls are answered with ENOSYS by an enclosing filter (Loader!BlockSeccomp; a privileged starter
    # installs it without touching the bit): the load fails there - whatever else the library tries, a filter that reaches the
    # installation point with the bit requested finds the bit set
    r5 = ctx.tlc("LoaderGen", lf.gen_cfg("{pool, t1, t2}", 2, '{{}, {"TSYNC"}}', '{"valid"}', "{t1, t2}", False, allow_block=True), name="LoaderGenC11block", timeout=3000)
    ctx.cov["states"] -= r5["distinct"]
    ctx.cov["transitions"] -= r5["generated"]
    blocked = [h for h in lf.histories(r5["out"]) if any(e["op"] == "block" for e in h["hist"]) and any(e["op"] == "load" and e["nnp"] and 0 in e["state"][e["caller"]]["chain"] for e in h["hist"])]
    p5, n5 = lf.sample(blocked, 200 if th else 60, ctx.seed, htags)
    if len(p5) < 20:
        raise vlib.Machinery("only %d histories load with NoNewPrivs on a thread whose seccomp(2) is blocked" % len(p5))
    ctx.cov["histories_with_a_load_where_seccomp_is_answered_ENOSYS"] = len(p5)
    picked += p5
    nclasses += n5

    def one(h):
        script = lf.to_script(h, 3)
        obs, err = lf.run_child(d + "/loadchild", script, h["priv"])
        return h, script, obs, err
    failed = 0
    for h, script, obs, err in lf.run_many(one, picked):
        if obs is None or len(obs) != len(h["hist"]):
            failed += 1
            ctx.skip("child failed: %s" % (err or "short output"))
            continue
        ctx.cov["traces_validated_against_impl"] += 1
        ctx.cov["evaluations"] += len(obs)
        ctx.cov["distinct_nontrivial"] += 1
        for b in judge_history(h, obs):
            ctx.violation(b, {"history": h, "script": script, "priv": h["priv"], "observed": obs, "how": "./check C11 quick"})
    if failed > len(picked) // 4:
        raise vlib.Machinery("%d of %d history children failed" % (failed, len(picked)))
    ctx.cov["histories_replayed"] = len(picked) - failed
    ctx.cov["history_classes"] = nclasses


def sandbox_flag(ctx):
    """The same field reached from the command line: cmd/sandbox's -no-new-privs flag is the caller's request. The target (a separate
    program image) reports its own NoNewPrivs bit; an unprivileged run without the request must not start the target."""
    import os
    import cmdfam
    import c15
    dd = cmdfam.build_cmds(ctx)
    scratch = os.path.join(dd, "work")
    os.makedirs(scratch, exist_ok=True)
    os.chmod(scratch, 0o777)
    n = 0
    for nnp in (True, False):
        for uid in (0, 65534):
            n += 1
            res = c15.run_sandbox(dd, scratch, "none", 7000 + n, nnp=nnp, uid=uid)
            if res is None:
                ctx.skip("sandbox run timed out")
                continue
            ctx.cov["evaluations"] += 1
            bit = None
            try:
                bit = json.loads(res["stdout"].strip().splitlines()[-1])["status"]["nnp"]
            except Exception:
                pass
            rep = {"run": {k: res[k] for k in ("rc", "stderr", "marker", "nnp", "uid")}, "target_reports_NoNewPrivs": bit, "how": "./check C11 quick"}
            who = "root" if uid == 0 else "uid nobody"
            if nnp and res["marker"] and bit != 1:
                ctx.violation("cmd/sandbox with no_new_privs requested (%s): the target runs with NoNewPrivs = %s" % (who, bit), rep)
            if not nnp and uid == 0 and res["marker"] and bit != 0:
                ctx.violation("cmd/sandbox -no-new-privs=false as root: the bit was not requested but the target runs with NoNewPrivs = %s" % bit, rep)
            if not nnp and uid != 0 and (res["marker"] or res["rc"] == 0):
                ctx.violation("cmd/sandbox -no-new-privs=false as uid nobody: the load must fail, but %s" % ("the target was started" if res["marker"] else "the exit status is 0"), rep)
            if nnp and uid != 0 and not res["marker"]:
                ctx.note("cmd/sandbox with no_new_privs requested as uid nobody did not run the target (rc %d): %s" % (res["rc"], res["stderr"][-100:]))


def check(ctx, replay=None):
    d = lf.child_bin(ctx)
    if replay:
        rep = json.load(open(replay))
        obs, err = lf.run_child(d + "/loadchild", rep["script"], rep["case"]["priv"], env=rep.get("env"))
        if obs is None:
            raise vlib.Machinery("child failed: " + err)
        bad = judge(rep["case"], obs[-1])
        print("replay: %s" % (bad or "ok"))
        if bad:
            print("VIOLATION property=C11 replay=%s" % replay)
            return 1
        return 0
    th = ctx.tier == "thorough"
    jobs = [dict(module="Loader", cfg=lf.mc_cfg(threads="{t1, t2, t3}", maxloads=2 if not th else 3), name="Loader_mc", timeout=3000),
            dict(module="LoaderGen", cfg=lf.gen_cfg("{pool, u2}", 1, FLAGS, '{"valid"}', "{pool}", True), name="LoaderGenC11", timeout=3000)]
    res = ctx.tlc_many(jobs, parallel=2)
    if res[0]["violated"]:
        raise vlib.Machinery("TLC: %s violated: the specification of the unchanged design does not satisfy its own invariant" % res[0]["violated"])
    ctx.cov["states"] -= res[1]["distinct"]
    ctx.cov["transitions"] -= res[1]["generated"]
    hists = lf.histories(res[1]["out"])
    cases = {}
    for h in hists:
        for e in h["hist"]:
            if e["op"] != "load":
                continue
            attempt = any(x["op"] == "migrate" for x in e["hook"])
            attempt_asm = any(x["op"] == "migrate_asm" for x in e["hook"])
            key = (h["priv"], e["nnp"], tuple(e["flags"]), attempt, attempt_asm)
            cases[key] = {"priv": h["priv"], "nnp": e["nnp"], "flags": e["flags"], "attempt": attempt, "attempt_asm": attempt_asm, "spec_res": e["res"]}
    if len(cases) < 96:
        raise vlib.Machinery("only %d load cases generated" % len(cases))
    envs = [{"GOMAXPROCS": "1"}, {}] if not th else [{"GOMAXPROCS": "1"}, {}, {"GOMAXPROCS": "2"}, {"GOMAXPROCS": "16"}]
    reps = 1 if not th else 25
    work = [(c, env) for c in cases.values() for env in envs for _ in range(reps)]

    def one(w):
        c, env = w
        script = {"filters": 1, "steps": [{"op": "load", "t": "free", "unlocked": True, "fid": 1, "pol": "valid", "flags": c["flags"], "nnp": c["nnp"],
                                          "hook": ([{"op": "migrate_asm"}] if c.get("attempt_asm") else []) + ([{"op": "migrate"}] if c["attempt"] else [])}]}
        obs, err = lf.run_child(d + "/loadchild", script, c["priv"], env=env)
        return c, env, script, obs, err
    failed = migrated = migrated_asm = 0
    for c, env, script, obs, err in lf.run_many(one, work):
        if obs is None:
            failed += 1
            ctx.skip("child failed: " + err)
            continue
        o = obs[-1]
        ctx.cov["traces_validated_against_impl"] += 1
        ctx.cov["evaluations"] += 1
        if c["attempt"] or c.get("attempt_asm"):
            ctx.cov["distinct_nontrivial"] += 1
        if o.get("migrated"):
            migrated += 1
        if o.get("migrated_asm"):
            migrated_asm += 1
        if (o["result"] == "nil") != (c["spec_res"] == "nil"):
            ctx.drift({"case": c, "real": o["result"], "spec": c["spec_res"]})
        for b in judge(c, o):
            ctx.violation(b, {"case": c, "script": script, "env": env, "observed": o,
                              "admissible": "requested: bit set on the installing thread before the install and the load succeeds, root or not, migration attempt or not; not requested: bit untouched, unprivileged load fails without installing",
                              "how": "./check C11 --replay <this file>"})
        ctx.sample({"case": c, "env": env, "result": o["result"], "tid_prctl": o.get("tid_prctl"), "tid_seccomp": o.get("tid_seccomp"), "migrated": o.get("migrated")}, limit=4)
    if failed > len(work) // 4:
        raise vlib.Machinery("%d of %d children failed" % (failed, len(work)))
    histories(ctx, d, th)
    sandbox_flag(ctx)
    ctx.cov["cases"] = len(cases)
    ctx.cov["migrations_that_took_effect"] = migrated
    ctx.cov["migrations_during_assembly_that_took_effect"] = migrated_asm
    if cases and not migrated_asm:
        raise vlib.Machinery("no forced migration during assembly took effect: the schedule point of hook H3 is dead")
    # the bit follows the CALL: in histories of the whole interface (Hist.tla) a load is preceded by compilations and by loads of equal and
    # sibling policy values with the other setting
    import histfam
    histfam.run(ctx)
    ctx.cov["rule"] = ("every load case of LoaderGen with migration: {root, nobody} x NoNewPrivs x flags {0, tsync, log, tsync|log} x {no attempt, forced migration attempt at "
                       "the schedule point between prctl and seccomp (hook H2)} x {no attempt, forced migration during assembly (hook H3, before the library wires the goroutine)}, each in a fresh child under several GOMAXPROCS; non-trivial = a migration was attempted")
    ctx.assumptions += ["a migration attempt = a helper goroutine wires itself to the loader's OS thread while the loader goroutine is parked at hook H2; "
                        "with the library's own LockOSThread the attempt has no effect (observed: %d took effect)" % migrated]
