"""C04 - foreign-architecture and x32 events never reach the rules."""
import polfam
import vlib


def check(ctx, replay=None):
    if replay:
        import json
        rep = json.load(open(replay))
        if "script" in rep:
            # a history of several loads: re-run it in a fresh child and judge the programs handed to the kernel
            import loaderfam
            d = loaderfam.child_bin(ctx)
            obs, err = loaderfam.run_child(d + "/loadchild", rep["script"], True)
            if obs is None:
                raise vlib.Machinery("child failed: " + err)
            bad = [o["installed_foreign"] for o in obs if o.get("installed_foreign")]
            print("replay: %s" % (bad or "every installed program answers foreign and x32 events before its rules"))
            if bad:
                print("VIOLATION property=C04 replay=%s" % replay)
                return 1
            return 0
        return polfam.replay_one(ctx, replay)
    th = ctx.tier == "thorough"
    plan = [
        dict(scope="groups" if th else "groups2", mc=["DecisionOK", "PathOK"], mc_maxskips=[255, 3], kw=dict(NSys=3), stride=2 if th else 1, concs=4, expand=0 if th else 6),
        # every action constant as default and as group action, incl. values that share the action part with the default and carry data bits
        dict(scope="actions", mc=["DecisionOK", "PathOK"], mc_maxskips=[255], kw=dict(NSys=3), stride=1, concs=3, expand=0 if th else 6),
        dict(scope="many", mc=["DecisionOK", "PathOK"], mc_maxskips=[255, 3] if th else [3], stride=2 if th else 12, concs=3, expand=0 if th else 6),
        # both encodings of the architecture jump at the real limit (jumpN 251..260), with and without conditions
        dict(scope="long1", mc=["DecisionOK", "PathOK"], mc_maxskips=[255], kw=dict(W=8, X32Bit=512, NSys=300), stride=1, concs=4 if th else 2, expand=0 if th else 4),
        dict(scope="longconds", mc=["PathOK"] if th else None, mc_maxskips=[255], kw=dict(W=8, X32Bit=512, NSys=300), stride=1 if th else 3, concs=2, expand=2),
        dict(scope="rich", mc=["PathOK"], mc_maxskips=[3] if th else [], stride=4 if th else 12, concs=2, expand=4),
    ]
    polfam.run_family(ctx, plan, mine={"foreign", "x32"}, decision_owner=None)
    # the filter a process INSTALLS is the compiled one also at its second and third load: the programs hook H2 sees in histories of
    # several loads (Loader.tla: own and repeated policies, with and without thread-sync) are run on foreign and x32 events
    import loaderfam
    loaderfam.installed_programs(ctx, "installed_foreign", "a program handed to the kernel lets a foreign-architecture or x32 event reach its rules",
                                 n=96 if th else 40)
    ctx.cov["rule"] = ("every policy of the scope x every architecture word the package knows (+0, ~0, own+-1, own with a high bit flipped) x the "
                       "nr classes incl. 0x40000000, 0x40000000|n, 0x80000000, 0xFFFFFFFF; the executed path must contain no load other than "
                       "arch (and nr + the x32 guard compare for x32 events)")
