/* SPDX-License-Identifier: GPL-2.0 WITH Linux-syscall-note */
#ifndef _LINUX_PRCTL_H
#define _LINUX_PRCTL_H

#include <linux/types.h>

/* Values to pass as first argument to prctl() */

#define PR_SET_PDEATHSIG  1  /* Second arg is a signal */
#define PR_GET_PDEATHSIG  2  /* Second arg is a ptr to return the signal */

/* Get/set current->mm->dumpable */
#define PR_GET_DUMPABLE   3
#define PR_SET_DUMPABLE   4

/* Get/set unaligned access control bits (if meaningful) */
#define PR_GET_UNALIGN	  5
#define PR_SET_UNALIGN	  6
# define PR_UNALIGN_NOPRINT	1	/* silently fix up unaligned user accesses */
# define PR_UNALIGN_SIGBUS	2	/* generate SIGBUS on unaligned user access */

/* Get/set whether or not to drop capabilities on setuid() away from
 * uid 0 (as per security/commoncap.c) */
#define PR_GET_KEEPCAPS   7
#define PR_SET_KEEPCAPS   8

/* Get/set floating-point emulation control bits (if meaningful) */
#define PR_GET_FPEMU  9
#define PR_SET_FPEMU 10
# define PR_FPEMU_NOPRINT	1	/* silently emulate fp operations accesses */
# define PR_FPEMU_SIGFPE	2	/* don't emulate fp operations, send SIGFPE instead */

/* Get/set floating-point exception mode (if meaningful) */
#define PR_GET_FPEXC	11
#define PR_SET_FPEXC	12
# define PR_FP_EXC_SW_ENABLE	0x80	/* Use FPEXC for FP exception enables */
# define PR_FP_EXC_DIV		0x010000	/* floating point divide by zero */
# define PR_FP_EXC_OVF		0x020000	/* floating point overflow */
# define PR_FP_EXC_UND		0x040000	/* floating point underflow */
# define PR_FP_EXC_RES		0x080000	/* floating point inexact result */
# define PR_FP_EXC_INV		0x100000	/* floating point invalid operation */
# define PR_FP_EXC_DISABLED	0	/* FP exceptions disabled */
# define PR_FP_EXC_NONRECOV	1	/* async non-recoverable exc. mode */
# define PR_FP_EXC_ASYNC	2	/* async recoverable exception mode */
# define PR_FP_EXC_PRECISE	3	/* precise exception mode */

/* Get/set whether we use statistical process timing or accurate timestamp
 * based process timing */
#define PR_GET_TIMING   13
#define PR_SET_TIMING   14
# define PR_TIMING_STATISTICAL  0       /* Normal, traditional,
                                                   statistical process timing */
# define PR_TIMING_TIMESTAMP    1       /* Accurate timestamp based
                                                   process timing */

#define PR_SET_NAME    15		/* Set process name */
#define PR_GET_NAME    16		/* Get process name */

/* Get/set process endian */
#define PR_GET_ENDIAN	19
#define PR_SET_ENDIAN	20
# define PR_ENDIAN_BIG		0
# define PR_ENDIAN_LITTLE	1	/* True little endian mode */
# define PR_ENDIAN_PPC_LITTLE	2	/* "PowerPC" pseudo little endian */

/* Get/set process seccomp mode */
#define PR_GET_SECCOMP	21
#define PR_SET_SECCOMP	22

/* Get/set the capability bounding set (as per security/commoncap.c) */
#define PR_CAPBSET_READ 23
#define PR_CAPBSET_DROP 24

/* Get/set the process' ability to use the timestamp counter instruction */
#define PR_GET_TSC 25
#define PR_SET_TSC 26
# define PR_TSC_ENABLE		1	/* allow the use of the timestamp counter */
# define PR_TSC_SIGSEGV		2	/* throw a SIGSEGV instead of reading the TSC */

/* Get/set securebits (as per security/commoncap.c) */
#define PR_GET_SECUREBITS 27
#define PR_SET_SECUREBITS 28

/*
 * Get/set the timerslack as used by poll/select/nanosleep
 * A value of 0 means "use default"
 */
#define PR_SET_TIMERSLACK 29
#define PR_GET_TIMERSLACK 30

#define PR_TASK_PERF_EVENTS_DISABLE		31
#define PR_TASK_PERF_EVENTS_ENABLE		32

/*
 * Set early/late kill mode for hwpoison memory corruption.
 * This influences when the process gets killed on a memory corruption.
 */
#define PR_MCE_KILL	33
# define PR_MCE_KILL_CLEAR   0
# define PR_MCE_KILL_SET     1

# define PR_MCE_KILL_LATE    0
# define PR_MCE_KILL_EARLY   1
# define PR_MCE_KILL_DEFAULT 2

#define PR_MCE_KILL_GET 34

/*
 * Tune up process memory map specifics.
 */
#define PR_SET_MM		35
# define PR_SET_MM_START_CODE		1
# define PR_SET_MM_END_CODE		2
# define PR_SET_MM_START_DATA		3
# define PR_SET_MM_END_DATA		4
# define PR_SET_MM_START_STACK		5
# define PR_SET_MM_START_BRK		6
# define PR_SET_MM_BRK			7
# define PR_SET_MM_ARG_START		8
# define PR_SET_MM_ARG_END		9
# define PR_SET_MM_ENV_START		10
# define PR_SET_MM_ENV_END		11
# define PR_SET_MM_AUXV			12
# define PR_SET_MM_EXE_FILE		13
# define PR_SET_MM_MAP			14
# define PR_SET_MM_MAP_SIZE		15

/*
 * This structure provides new memory descriptor
 * map which mostly modifies /proc/pid/stat[m]
 * output for a task. This mostly done in a
 * sake of checkpoint/restore functionality.
 */
struct prctl_mm_map {
	__u64	start_code;		/* code section bounds */
	__u64	end_code;
	__u64	start_data;		/* data section bounds */
	__u64	end_data;
	__u64	start_brk;		/* heap for brk() syscall */
	__u64	brk;
	__u64	start_stack;		/* stack starts at */
	__u64	arg_start;		/* command line arguments bounds */
	__u64	arg_end;
	__u64	env_start;		/* environment variables bounds */
	__u64	env_end;
	__u64	*auxv;			/* auxiliary vector */
	__u32	auxv_size;		/* vector size */
	__u32	exe_fd;			/* /proc/$pid/exe link file */
};

/*
 * Set specific pid that is allowed to ptrace the current task.
 * A value of 0 mean "no process".
 */
#define PR_SET_PTRACER 0x59616d61
# define PR_SET_PTRACER_ANY ((unsigned long)-1)

#define PR_SET_CHILD_SUBREAPER	36
#define PR_GET_CHILD_SUBREAPER	37

/*
 * If no_new_privs is set, then operations that grant new privileges (i.e.
 * execve) will either fail or not grant them.  This affects suid/sgid,
 * file capabilities, and LSMs.
 *
 * Operations that merely manipulate or drop existing privileges (setresuid,
 * capset, etc.) will still work.  Drop those privileges if you want them gone.
 *
 * Changing LSM security domain is considered a new privilege.  So, for example,
 * asking selinux for a specific new context (e.g. with runcon) will result
 * in execve returning -EPERM.
 *
 * See Documentation/userspace-api/no_new_privs.rst for more details.
 */
#define PR_SET_NO_NEW_PRIVS	38
#define PR_GET_NO_NEW_PRIVS	39

#define PR_GET_TID_ADDRESS	40

#define PR_SET_THP_DISABLE	41
#define PR_GET_THP_DISABLE	42

/*
 * No longer implemented, but left here to ensure the numbers stay reserved:
 */
#define PR_MPX_ENABLE_MANAGEMENT  43
#define PR_MPX_DISABLE_MANAGEMENT 44

#define PR_SET_FP_MODE		45
#define PR_GET_FP_MODE		46
# define PR_FP_MODE_FR		(1 << 0)	/* 64b FP registers */
# define PR_FP_MODE_FRE		(1 << 1)	/* 32b compatibility */

/* Control the ambient capability set */
#define PR_CAP_AMBIENT			47
# define PR_CAP_AMBIENT_IS_SET		1
# define PR_CAP_AMBIENT_RAISE		2
# define PR_CAP_AMBIENT_LOWER		3
# define PR_CAP_AMBIENT_CLEAR_ALL	4

/* arm64 Scalable Vector Extension controls */
/* Flag values must be kept in sync with ptrace NT_ARM_SVE interface */
#define PR_SVE_SET_VL			50	/* set task vector length */
# define PR_SVE_SET_VL_ONEXEC		(1 << 18) /* defer effect until exec */
#define PR_SVE_GET_VL			51	/* get task vector length */
/* Bits common to PR_SVE_SET_VL and PR_SVE_GET_VL */
# define PR_SVE_VL_LEN_MASK		0xffff
# define PR_SVE_VL_INHERIT		(1 << 17) /* inherit across exec */

/* Per task speculation control */
#define PR_GET_SPECULATION_CTRL		52
#define PR_SET_SPECULATION_CTRL		53
/* Speculation control variants */
# define PR_SPEC_STORE_BYPASS		0
# define PR_SPEC_INDIRECT_BRANCH	1
# define PR_SPEC_L1D_FLUSH		2
/* Return and control values for PR_SET/GET_SPECULATION_CTRL */
# define PR_SPEC_NOT_AFFECTED		0
# define PR_SPEC_PRCTL			(1UL << 0)
# define PR_SPEC_ENABLE			(1UL << 1)
# define PR_SPEC_DISABLE		(1UL << 2)
# define PR_SPEC_FORCE_DISABLE		(1UL << 3)
# define PR_SPEC_DISABLE_NOEXEC		(1UL << 4)

/* Reset arm64 pointer authentication keys */
#define PR_PAC_RESET_KEYS		54
# define PR_PAC_APIAKEY			(1UL << 0)
# define PR_PAC_APIBKEY			(1UL << 1)
# define PR_PAC_APDAKEY			(1UL << 2)
# define PR_PAC_APDBKEY			(1UL << 3)
# define PR_PAC_APGAKEY			(1UL << 4)

/* Tagged user address controls for arm64 */
#define PR_SET_TAGGED_ADDR_CTRL		55
#define PR_GET_TAGGED_ADDR_CTRL		56
# define PR_TAGGED_ADDR_ENABLE		(1UL << 0)
/* MTE tag check fault modes */
# define PR_MTE_TCF_NONE		0UL
# define PR_MTE_TCF_SYNC		(1UL << 1)
# define PR_MTE_TCF_ASYNC		(1UL << 2)
# define PR_MTE_TCF_MASK		(PR_MTE_TCF_SYNC | PR_MTE_TCF_ASYNC)
/* MTE tag inclusion mask */
# define PR_MTE_TAG_SHIFT		3
# define PR_MTE_TAG_MASK		(0xffffUL << PR_MTE_TAG_SHIFT)
/* Unused; kept only for source compatibility */
# define PR_MTE_TCF_SHIFT		1

/* Control reclaim behavior when allocating memory */
#define PR_SET_IO_FLUSHER		57
#define PR_GET_IO_FLUSHER		58

/* Dispatch syscalls to a userspace handler */
#define PR_SET_SYSCALL_USER_DISPATCH	59
# define PR_SYS_DISPATCH_OFF		0
# define PR_SYS_DISPATCH_ON		1
/* The control values for the user space selector when dispatch is enabled */
# define SYSCALL_DISPATCH_FILTER_ALLOW	0
# define SYSCALL_DISPATCH_FILTER_BLOCK	1

/* Set/get enabled arm64 pointer authentication keys */
#define PR_PAC_SET_ENABLED_KEYS		60
#define PR_PAC_GET_ENABLED_KEYS		61

/* Request the scheduler to share a core */
#define PR_SCHED_CORE			62
# define PR_SCHED_CORE_GET		0
# define PR_SCHED_CORE_CREATE		1 /* create unique core_sched cookie */
# define PR_SCHED_CORE_SHARE_TO		2 /* push core_sched cookie to pid */
# define PR_SCHED_CORE_SHARE_FROM	3 /* pull core_sched cookie to pid */
# define PR_SCHED_CORE_MAX		4
# define PR_SCHED_CORE_SCOPE_THREAD		0
# define PR_SCHED_CORE_SCOPE_THREAD_GROUP	1
# define PR_SCHED_CORE_SCOPE_PROCESS_GROUP	2

/* arm64 Scalable Matrix Extension controls */
/* Flag values must be in sync with SVE versions */
#define PR_SME_SET_VL			63	/* set task vector length */
# define PR_SME_SET_VL_ONEXEC		(1 << 18) /* defer effect until exec */
#define PR_SME_GET_VL			64	/* get task vector length */
/* Bits common to PR_SME_SET_VL and PR_SME_GET_VL */
# define PR_SME_VL_LEN_MASK		0xffff
# define PR_SME_VL_INHERIT		(1 << 17) /* inherit across exec */

#define PR_SET_VMA		0x53564d41
# define PR_SET_VMA_ANON_NAME		0

#endif /* _LINUX_PRCTL_H */
