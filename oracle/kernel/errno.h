/* SPDX-License-Identifier: GPL-2.0 WITH Linux-syscall-note */
#ifndef _ASM_GENERIC_ERRNO_H
#define _ASM_GENERIC_ERRNO_H

#include <asm-generic/errno-base.h>

#define	EDEADLK		35	/* Resource deadlock would occur */
#define	ENAMETOOLONG	36	/* File name too long */
#define	ENOLCK		37	/* No record locks available */

/*
 * This error code is special: arch syscall entry code will return
 * -ENOSYS if users try to call a syscall that doesn't exist.  To keep
 * failures of syscalls that really do exist distinguishable from
 * failures due to attempts to use a nonexistent syscall, syscall
 * implementations should refrain from returning -ENOSYS.
 */
#define	ENOSYS		38	/* Invalid system call number */

#define	ENOTEMPTY	39	/* Directory not empty */
#define	ELOOP		40	/* Too many symbolic links encountered */
#define	EWOULDBLOCK	EAGAIN	/* Operation would block */
#define	ENOMSG		42	/* No message of desired type */
#define	EIDRM		43	/* Identifier removed */
#define	ECHRNG		44	/* Channel number out of range */
#define	EL2NSYNC	45	/* Level 2 not synchronized */
#define	EL3HLT		46	/* Level 3 halted */
#define	EL3RST		47	/* Level 3 reset */
#define	ELNRNG		48	/* Link number out of range */
#define	EUNATCH		49	/* Protocol driver not attached */
#define	ENOCSI		50	/* No CSI structure available */
#define	EL2HLT		51	/* Level 2 halted */
#define	EBADE		52	/* Invalid exchange */
#define	EBADR		53	/* Invalid request descriptor */
#define	EXFULL		54	/* Exchange full */
#define	ENOANO		55	/* No anode */
#define	EBADRQC		56	/* Invalid request code */
#define	EBADSLT		57	/* Invalid slot */

#define	EDEADLOCK	EDEADLK

#define	EBFONT		59	/* Bad font file format */
#define	ENOSTR		60	/* Device not a stream */
#define	ENODATA		61	/* No data available */
#define	ETIME		62	/* Timer expired */
#define	ENOSR		63	/* Out of streams resources */
#define	ENONET		64	/* Machine is not on the network */
#define	ENOPKG		65	/* Package not installed */
#define	EREMOTE		66	/* Object is remote */
#define	ENOLINK		67	/* Link has been severed */
#define	EADV		68	/* Advertise error */
#define	ESRMNT		69	/* Srmount error */
#define	ECOMM		70	/* Communication error on send */
#define	EPROTO		71	/* Protocol error */
#define	EMULTIHOP	72	/* Multihop attempted */
#define	EDOTDOT		73	/* RFS specific error */
#define	EBADMSG		74	/* Not a data message */
#define	EOVERFLOW	75	/* Value too large for defined data type */
#define	ENOTUNIQ	76	/* Name not unique on network */
#define	EBADFD		77	/* File descriptor in bad state */
#define	EREMCHG		78	/* Remote address changed */
#define	ELIBACC		79	/* Can not access a needed shared library */
#define	ELIBBAD		80	/* Accessing a corrupted shared library */
#define	ELIBSCN		81	/* .lib section in a.out corrupted */
#define	ELIBMAX		82	/* Attempting to link in too many shared libraries */
#define	ELIBEXEC	83	/* Cannot exec a shared library directly */
#define	EILSEQ		84	/* Illegal byte sequence */
#define	ERESTART	85	/* Interrupted system call should be restarted */
#define	ESTRPIPE	86	/* Streams pipe error */
#define	EUSERS		87	/* Too many users */
#define	ENOTSOCK	88	/* Socket operation on non-socket */
#define	EDESTADDRREQ	89	/* Destination address required */
#define	EMSGSIZE	90	/* Message too long */
#define	EPROTOTYPE	91	/* Protocol wrong type for socket */
#define	ENOPROTOOPT	92	/* Protocol not available */
#define	EPROTONOSUPPORT	93	/* Protocol not supported */
#define	ESOCKTNOSUPPORT	94	/* Socket type not supported */
#define	EOPNOTSUPP	95	/* Operation not supported on transport endpoint */
#define	EPFNOSUPPORT	96	/* Protocol family not supported */
#define	EAFNOSUPPORT	97	/* Address family not supported by protocol */
#define	EADDRINUSE	98	/* Address already in use */
#define	EADDRNOTAVAIL	99	/* Cannot assign requested address */
#define	ENETDOWN	100	/* Network is down */
#define	ENETUNREACH	101	/* Network is unreachable */
#define	ENETRESET	102	/* Network dropped connection because of reset */
#define	ECONNABORTED	103	/* Software caused connection abort */
#define	ECONNRESET	104	/* Connection reset by peer */
#define	ENOBUFS		105	/* No buffer space available */
#define	EISCONN		106	/* Transport endpoint is already connected */
#define	ENOTCONN	107	/* Transport endpoint is not connected */
#define	ESHUTDOWN	108	/* Cannot send after transport endpoint shutdown */
#define	ETOOMANYREFS	109	/* Too many references: cannot splice */
#define	ETIMEDOUT	110	/* Connection timed out */
#define	ECONNREFUSED	111	/* Connection refused */
#define	EHOSTDOWN	112	/* Host is down */
#define	EHOSTUNREACH	113	/* No route to host */
#define	EALREADY	114	/* Operation already in progress */
#define	EINPROGRESS	115	/* Operation now in progress */
#define	ESTALE		116	/* Stale file handle */
#define	EUCLEAN		117	/* Structure needs cleaning */
#define	ENOTNAM		118	/* Not a XENIX named type file */
#define	ENAVAIL		119	/* No XENIX semaphores available */
#define	EISNAM		120	/* Is a named type file */
#define	EREMOTEIO	121	/* Remote I/O error */
#define	EDQUOT		122	/* Quota exceeded */

#define	ENOMEDIUM	123	/* No medium found */
#define	EMEDIUMTYPE	124	/* Wrong medium type */
#define	ECANCELED	125	/* Operation Canceled */
#define	ENOKEY		126	/* Required key not available */
#define	EKEYEXPIRED	127	/* Key has expired */
#define	EKEYREVOKED	128	/* Key has been revoked */
#define	EKEYREJECTED	129	/* Key was rejected by service */

/* for robust mutexes */
#define	EOWNERDEAD	130	/* Owner died */
#define	ENOTRECOVERABLE	131	/* State not recoverable */

#define ERFKILL		132	/* Operation not possible due to RF-kill */

#define EHWPOISON	133	/* Memory page has hardware error */

#endif
