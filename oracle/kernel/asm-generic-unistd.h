/* SPDX-License-Identifier: GPL-2.0 WITH Linux-syscall-note */
#include <asm/bitsperlong.h>

/*
 * This file contains the system call numbers, based on the
 * layout of the x86-64 architecture, which embeds the
 * pointer to the syscall in the table.
 *
 * As a basic principle, no duplication of functionality
 * should be added, e.g. we don't use lseek when llseek
 * is present. New architectures should use this file
 * and implement the less feature-full calls in user space.
 */

#ifndef __SYSCALL
#define __SYSCALL(x, y)
#endif

#if __BITS_PER_LONG == 32 || defined(__SYSCALL_COMPAT)
#define __SC_3264(_nr, _32, _64) __SYSCALL(_nr, _32)
#else
#define __SC_3264(_nr, _32, _64) __SYSCALL(_nr, _64)
#endif

#ifdef __SYSCALL_COMPAT
#define __SC_COMP(_nr, _sys, _comp) __SYSCALL(_nr, _comp)
#define __SC_COMP_3264(_nr, _32, _64, _comp) __SYSCALL(_nr, _comp)
#else
#define __SC_COMP(_nr, _sys, _comp) __SYSCALL(_nr, _sys)
#define __SC_COMP_3264(_nr, _32, _64, _comp) __SC_3264(_nr, _32, _64)
#endif

#define __NR_io_setup 0
__SC_COMP(__NR_io_setup, sys_io_setup, compat_sys_io_setup)
#define __NR_io_destroy 1
__SYSCALL(__NR_io_destroy, sys_io_destroy)
#define __NR_io_submit 2
__SC_COMP(__NR_io_submit, sys_io_submit, compat_sys_io_submit)
#define __NR_io_cancel 3
__SYSCALL(__NR_io_cancel, sys_io_cancel)
#if defined(__ARCH_WANT_TIME32_SYSCALLS) || __BITS_PER_LONG != 32
#define __NR_io_getevents 4
__SC_3264(__NR_io_getevents, sys_io_getevents_time32, sys_io_getevents)
#endif

/* fs/xattr.c */
#define __NR_setxattr 5
__SYSCALL(__NR_setxattr, sys_setxattr)
#define __NR_lsetxattr 6
__SYSCALL(__NR_lsetxattr, sys_lsetxattr)
#define __NR_fsetxattr 7
__SYSCALL(__NR_fsetxattr, sys_fsetxattr)
#define __NR_getxattr 8
__SYSCALL(__NR_getxattr, sys_getxattr)
#define __NR_lgetxattr 9
__SYSCALL(__NR_lgetxattr, sys_lgetxattr)
#define __NR_fgetxattr 10
__SYSCALL(__NR_fgetxattr, sys_fgetxattr)
#define __NR_listxattr 11
__SYSCALL(__NR_listxattr, sys_listxattr)
#define __NR_llistxattr 12
__SYSCALL(__NR_llistxattr, sys_llistxattr)
#define __NR_flistxattr 13
__SYSCALL(__NR_flistxattr, sys_flistxattr)
#define __NR_removexattr 14
__SYSCALL(__NR_removexattr, sys_removexattr)
#define __NR_lremovexattr 15
__SYSCALL(__NR_lremovexattr, sys_lremovexattr)
#define __NR_fremovexattr 16
__SYSCALL(__NR_fremovexattr, sys_fremovexattr)

/* fs/dcache.c */
#define __NR_getcwd 17
__SYSCALL(__NR_getcwd, sys_getcwd)

/* fs/cookies.c */
#define __NR_lookup_dcookie 18
__SC_COMP(__NR_lookup_dcookie, sys_lookup_dcookie, compat_sys_lookup_dcookie)

/* fs/eventfd.c */
#define __NR_eventfd2 19
__SYSCALL(__NR_eventfd2, sys_eventfd2)

/* fs/eventpoll.c */
#define __NR_epoll_create1 20
__SYSCALL(__NR_epoll_create1, sys_epoll_create1)
#define __NR_epoll_ctl 21
__SYSCALL(__NR_epoll_ctl, sys_epoll_ctl)
#define __NR_epoll_pwait 22
__SC_COMP(__NR_epoll_pwait, sys_epoll_pwait, compat_sys_epoll_pwait)

/* fs/fcntl.c */
#define __NR_dup 23
__SYSCALL(__NR_dup, sys_dup)
#define __NR_dup3 24
__SYSCALL(__NR_dup3, sys_dup3)
#define __NR3264_fcntl 25
__SC_COMP_3264(__NR3264_fcntl, sys_fcntl64, sys_fcntl, compat_sys_fcntl64)

/* fs/inotify_user.c */
#define __NR_inotify_init1 26
__SYSCALL(__NR_inotify_init1, sys_inotify_init1)
#define __NR_inotify_add_watch 27
__SYSCALL(__NR_inotify_add_watch, sys_inotify_add_watch)
#define __NR_inotify_rm_watch 28
__SYSCALL(__NR_inotify_rm_watch, sys_inotify_rm_watch)

/* fs/ioctl.c */
#define __NR_ioctl 29
__SC_COMP(__NR_ioctl, sys_ioctl, compat_sys_ioctl)

/* fs/ioprio.c */
#define __NR_ioprio_set 30
__SYSCALL(__NR_ioprio_set, sys_ioprio_set)
#define __NR_ioprio_get 31
__SYSCALL(__NR_ioprio_get, sys_ioprio_get)

/* fs/locks.c */
#define __NR_flock 32
__SYSCALL(__NR_flock, sys_flock)

/* fs/namei.c */
#define __NR_mknodat 33
__SYSCALL(__NR_mknodat, sys_mknodat)
#define __NR_mkdirat 34
__SYSCALL(__NR_mkdirat, sys_mkdirat)
#define __NR_unlinkat 35
__SYSCALL(__NR_unlinkat, sys_unlinkat)
#define __NR_symlinkat 36
__SYSCALL(__NR_symlinkat, sys_symlinkat)
#define __NR_linkat 37
__SYSCALL(__NR_linkat, sys_linkat)
#ifdef __ARCH_WANT_RENAMEAT
/* renameat is superseded with flags by renameat2 */
#define __NR_renameat 38
__SYSCALL(__NR_renameat, sys_renameat)
#endif /* __ARCH_WANT_RENAMEAT */

/* fs/namespace.c */
#define __NR_umount2 39
__SYSCALL(__NR_umount2, sys_umount)
#define __NR_mount 40
__SYSCALL(__NR_mount, sys_mount)
#define __NR_pivot_root 41
__SYSCALL(__NR_pivot_root, sys_pivot_root)

/* fs/nfsctl.c */
#define __NR_nfsservctl 42
__SYSCALL(__NR_nfsservctl, sys_ni_syscall)

/* fs/open.c */
#define __NR3264_statfs 43
__SC_COMP_3264(__NR3264_statfs, sys_statfs64, sys_statfs, \
	       compat_sys_statfs64)
#define __NR3264_fstatfs 44
__SC_COMP_3264(__NR3264_fstatfs, sys_fstatfs64, sys_fstatfs, \
	       compat_sys_fstatfs64)
#define __NR3264_truncate 45
__SC_COMP_3264(__NR3264_truncate, sys_truncate64, sys_truncate, \
	       compat_sys_truncate64)
#define __NR3264_ftruncate 46
__SC_COMP_3264(__NR3264_ftruncate, sys_ftruncate64, sys_ftruncate, \
	       compat_sys_ftruncate64)

#define __NR_fallocate 47
__SC_COMP(__NR_fallocate, sys_fallocate, compat_sys_fallocate)
#define __NR_faccessat 48
__SYSCALL(__NR_faccessat, sys_faccessat)
#define __NR_chdir 49
__SYSCALL(__NR_chdir, sys_chdir)
#define __NR_fchdir 50
__SYSCALL(__NR_fchdir, sys_fchdir)
#define __NR_chroot 51
__SYSCALL(__NR_chroot, sys_chroot)
#define __NR_fchmod 52
__SYSCALL(__NR_fchmod, sys_fchmod)
#define __NR_fchmodat 53
__SYSCALL(__NR_fchmodat, sys_fchmodat)
#define __NR_fchownat 54
__SYSCALL(__NR_fchownat, sys_fchownat)
#define __NR_fchown 55
__SYSCALL(__NR_fchown, sys_fchown)
#define __NR_openat 56
__SYSCALL(__NR_openat, sys_openat)
#define __NR_close 57
__SYSCALL(__NR_close, sys_close)
#define __NR_vhangup 58
__SYSCALL(__NR_vhangup, sys_vhangup)

/* fs/pipe.c */
#define __NR_pipe2 59
__SYSCALL(__NR_pipe2, sys_pipe2)

/* fs/quota.c */
#define __NR_quotactl 60
__SYSCALL(__NR_quotactl, sys_quotactl)

/* fs/readdir.c */
#define __NR_getdents64 61
__SYSCALL(__NR_getdents64, sys_getdents64)

/* fs/read_write.c */
#define __NR3264_lseek 62
__SC_3264(__NR3264_lseek, sys_llseek, sys_lseek)
#define __NR_read 63
__SYSCALL(__NR_read, sys_read)
#define __NR_write 64
__SYSCALL(__NR_write, sys_write)
#define __NR_readv 65
__SC_COMP(__NR_readv, sys_readv, sys_readv)
#define __NR_writev 66
__SC_COMP(__NR_writev, sys_writev, sys_writev)
#define __NR_pread64 67
__SC_COMP(__NR_pread64, sys_pread64, compat_sys_pread64)
#define __NR_pwrite64 68
__SC_COMP(__NR_pwrite64, sys_pwrite64, compat_sys_pwrite64)
#define __NR_preadv 69
__SC_COMP(__NR_preadv, sys_preadv, compat_sys_preadv)
#define __NR_pwritev 70
__SC_COMP(__NR_pwritev, sys_pwritev, compat_sys_pwritev)

/* fs/sendfile.c */
#define __NR3264_sendfile 71
__SYSCALL(__NR3264_sendfile, sys_sendfile64)

/* fs/select.c */
#if defined(__ARCH_WANT_TIME32_SYSCALLS) || __BITS_PER_LONG != 32
#define __NR_pselect6 72
__SC_COMP_3264(__NR_pselect6, sys_pselect6_time32, sys_pselect6, compat_sys_pselect6_time32)
#define __NR_ppoll 73
__SC_COMP_3264(__NR_ppoll, sys_ppoll_time32, sys_ppoll, compat_sys_ppoll_time32)
#endif

/* fs/signalfd.c */
#define __NR_signalfd4 74
__SC_COMP(__NR_signalfd4, sys_signalfd4, compat_sys_signalfd4)

/* fs/splice.c */
#define __NR_vmsplice 75
__SYSCALL(__NR_vmsplice, sys_vmsplice)
#define __NR_splice 76
__SYSCALL(__NR_splice, sys_splice)
#define __NR_tee 77
__SYSCALL(__NR_tee, sys_tee)

/* fs/stat.c */
#define __NR_readlinkat 78
__SYSCALL(__NR_readlinkat, sys_readlinkat)
#if defined(__ARCH_WANT_NEW_STAT) || defined(__ARCH_WANT_STAT64)
#define __NR3264_fstatat 79
__SC_3264(__NR3264_fstatat, sys_fstatat64, sys_newfstatat)
#define __NR3264_fstat 80
__SC_3264(__NR3264_fstat, sys_fstat64, sys_newfstat)
#endif

/* fs/sync.c */
#define __NR_sync 81
__SYSCALL(__NR_sync, sys_sync)
#define __NR_fsync 82
__SYSCALL(__NR_fsync, sys_fsync)
#define __NR_fdatasync 83
__SYSCALL(__NR_fdatasync, sys_fdatasync)
#ifdef __ARCH_WANT_SYNC_FILE_RANGE2
#define __NR_sync_file_range2 84
__SC_COMP(__NR_sync_file_range2, sys_sync_file_range2, \
	  compat_sys_sync_file_range2)
#else
#define __NR_sync_file_range 84
__SC_COMP(__NR_sync_file_range, sys_sync_file_range, \
	  compat_sys_sync_file_range)
#endif

/* fs/timerfd.c */
#define __NR_timerfd_create 85
__SYSCALL(__NR_timerfd_create, sys_timerfd_create)
#if defined(__ARCH_WANT_TIME32_SYSCALLS) || __BITS_PER_LONG != 32
#define __NR_timerfd_settime 86
__SC_3264(__NR_timerfd_settime, sys_timerfd_settime32, \
	  sys_timerfd_settime)
#define __NR_timerfd_gettime 87
__SC_3264(__NR_timerfd_gettime, sys_timerfd_gettime32, \
	  sys_timerfd_gettime)
#endif

/* fs/utimes.c */
#if defined(__ARCH_WANT_TIME32_SYSCALLS) || __BITS_PER_LONG != 32
#define __NR_utimensat 88
__SC_3264(__NR_utimensat, sys_utimensat_time32, sys_utimensat)
#endif

/* kernel/acct.c */
#define __NR_acct 89
__SYSCALL(__NR_acct, sys_acct)

/* kernel/capability.c */
#define __NR_capget 90
__SYSCALL(__NR_capget, sys_capget)
#define __NR_capset 91
__SYSCALL(__NR_capset, sys_capset)

/* kernel/exec_domain.c */
#define __NR_personality 92
__SYSCALL(__NR_personality, sys_personality)

/* kernel/exit.c */
#define __NR_exit 93
__SYSCALL(__NR_exit, sys_exit)
#define __NR_exit_group 94
__SYSCALL(__NR_exit_group, sys_exit_group)
#define __NR_waitid 95
__SC_COMP(__NR_waitid, sys_waitid, compat_sys_waitid)

/* kernel/fork.c */
#define __NR_set_tid_address 96
__SYSCALL(__NR_set_tid_address, sys_set_tid_address)
#define __NR_unshare 97
__SYSCALL(__NR_unshare, sys_unshare)

/* kernel/futex.c */
#if defined(__ARCH_WANT_TIME32_SYSCALLS) || __BITS_PER_LONG != 32
#define __NR_futex 98
__SC_3264(__NR_futex, sys_futex_time32, sys_futex)
#endif
#define __NR_set_robust_list 99
__SC_COMP(__NR_set_robust_list, sys_set_robust_list, \
	  compat_sys_set_robust_list)
#define __NR_get_robust_list 100
__SC_COMP(__NR_get_robust_list, sys_get_robust_list, \
	  compat_sys_get_robust_list)

/* kernel/hrtimer.c */
#if defined(__ARCH_WANT_TIME32_SYSCALLS) || __BITS_PER_LONG != 32
#define __NR_nanosleep 101
__SC_3264(__NR_nanosleep, sys_nanosleep_time32, sys_nanosleep)
#endif

/* kernel/itimer.c */
#define __NR_getitimer 102
__SC_COMP(__NR_getitimer, sys_getitimer, compat_sys_getitimer)
#define __NR_setitimer 103
__SC_COMP(__NR_setitimer, sys_setitimer, compat_sys_setitimer)

/* kernel/kexec.c */
#define __NR_kexec_load 104
__SC_COMP(__NR_kexec_load, sys_kexec_load, compat_sys_kexec_load)

/* kernel/module.c */
#define __NR_init_module 105
__SYSCALL(__NR_init_module, sys_init_module)
#define __NR_delete_module 106
__SYSCALL(__NR_delete_module, sys_delete_module)

/* kernel/posix-timers.c */
#define __NR_timer_create 107
__SC_COMP(__NR_timer_create, sys_timer_create, compat_sys_timer_create)
#if defined(__ARCH_WANT_TIME32_SYSCALLS) || __BITS_PER_LONG != 32
#define __NR_timer_gettime 108
__SC_3264(__NR_timer_gettime, sys_timer_gettime32, sys_timer_gettime)
#endif
#define __NR_timer_getoverrun 109
__SYSCALL(__NR_timer_getoverrun, sys_timer_getoverrun)
#if defined(__ARCH_WANT_TIME32_SYSCALLS) || __BITS_PER_LONG != 32
#define __NR_timer_settime 110
__SC_3264(__NR_timer_settime, sys_timer_settime32, sys_timer_settime)
#endif
#define __NR_timer_delete 111
__SYSCALL(__NR_timer_delete, sys_timer_delete)
#if defined(__ARCH_WANT_TIME32_SYSCALLS) || __BITS_PER_LONG != 32
#define __NR_clock_settime 112
__SC_3264(__NR_clock_settime, sys_clock_settime32, sys_clock_settime)
#define __NR_clock_gettime 113
__SC_3264(__NR_clock_gettime, sys_clock_gettime32, sys_clock_gettime)
#define __NR_clock_getres 114
__SC_3264(__NR_clock_getres, sys_clock_getres_time32, sys_clock_getres)
#define __NR_clock_nanosleep 115
__SC_3264(__NR_clock_nanosleep, sys_clock_nanosleep_time32, \
	  sys_clock_nanosleep)
#endif

/* kernel/printk.c */
#define __NR_syslog 116
__SYSCALL(__NR_syslog, sys_syslog)

/* kernel/ptrace.c */
#define __NR_ptrace 117
__SC_COMP(__NR_ptrace, sys_ptrace, compat_sys_ptrace)

/* kernel/sched/core.c */
#define __NR_sched_setparam 118
__SYSCALL(__NR_sched_setparam, sys_sched_setparam)
#define __NR_sched_setscheduler 119
__SYSCALL(__NR_sched_setscheduler, sys_sched_setscheduler)
#define __NR_sched_getscheduler 120
__SYSCALL(__NR_sched_getscheduler, sys_sched_getscheduler)
#define __NR_sched_getparam 121
__SYSCALL(__NR_sched_getparam, sys_sched_getparam)
#define __NR_sched_setaffinity 122
__SC_COMP(__NR_sched_setaffinity, sys_sched_setaffinity, \
	  compat_sys_sched_setaffinity)
#define __NR_sched_getaffinity 123
__SC_COMP(__NR_sched_getaffinity, sys_sched_getaffinity, \
	  compat_sys_sched_getaffinity)
#define __NR_sched_yield 124
__SYSCALL(__NR_sched_yield, sys_sched_yield)
#define __NR_sched_get_priority_max 125
__SYSCALL(__NR_sched_get_priority_max, sys_sched_get_priority_max)
#define __NR_sched_get_priority_min 126
__SYSCALL(__NR_sched_get_priority_min, sys_sched_get_priority_min)
#if defined(__ARCH_WANT_TIME32_SYSCALLS) || __BITS_PER_LONG != 32
#define __NR_sched_rr_get_interval 127
__SC_3264(__NR_sched_rr_get_interval, sys_sched_rr_get_interval_time32, \
	  sys_sched_rr_get_interval)
#endif

/* kernel/signal.c */
#define __NR_restart_syscall 128
__SYSCALL(__NR_restart_syscall, sys_restart_syscall)
#define __NR_kill 129
__SYSCALL(__NR_kill, sys_kill)
#define __NR_tkill 130
__SYSCALL(__NR_tkill, sys_tkill)
#define __NR_tgkill 131
__SYSCALL(__NR_tgkill, sys_tgkill)
#define __NR_sigaltstack 132
__SC_COMP(__NR_sigaltstack, sys_sigaltstack, compat_sys_sigaltstack)
#define __NR_rt_sigsuspend 133
__SC_COMP(__NR_rt_sigsuspend, sys_rt_sigsuspend, compat_sys_rt_sigsuspend)
#define __NR_rt_sigaction 134
__SC_COMP(__NR_rt_sigaction, sys_rt_sigaction, compat_sys_rt_sigaction)
#define __NR_rt_sigprocmask 135
__SC_COMP(__NR_rt_sigprocmask, sys_rt_sigprocmask, compat_sys_rt_sigprocmask)
#define __NR_rt_sigpending 136
__SC_COMP(__NR_rt_sigpending, sys_rt_sigpending, compat_sys_rt_sigpending)
#if defined(__ARCH_WANT_TIME32_SYSCALLS) || __BITS_PER_LONG != 32
#define __NR_rt_sigtimedwait 137
__SC_COMP_3264(__NR_rt_sigtimedwait, sys_rt_sigtimedwait_time32, \
	  sys_rt_sigtimedwait, compat_sys_rt_sigtimedwait_time32)
#endif
#define __NR_rt_sigqueueinfo 138
__SC_COMP(__NR_rt_sigqueueinfo, sys_rt_sigqueueinfo, \
	  compat_sys_rt_sigqueueinfo)
#define __NR_rt_sigreturn 139
__SC_COMP(__NR_rt_sigreturn, sys_rt_sigreturn, compat_sys_rt_sigreturn)

/* kernel/sys.c */
#define __NR_setpriority 140
__SYSCALL(__NR_setpriority, sys_setpriority)
#define __NR_getpriority 141
__SYSCALL(__NR_getpriority, sys_getpriority)
#define __NR_reboot 142
__SYSCALL(__NR_reboot, sys_reboot)
#define __NR_setregid 143
__SYSCALL(__NR_setregid, sys_setregid)
#define __NR_setgid 144
__SYSCALL(__NR_setgid, sys_setgid)
#define __NR_setreuid 145
__SYSCALL(__NR_setreuid, sys_setreuid)
#define __NR_setuid 146
__SYSCALL(__NR_setuid, sys_setuid)
#define __NR_setresuid 147
__SYSCALL(__NR_setresuid, sys_setresuid)
#define __NR_getresuid 148
__SYSCALL(__NR_getresuid, sys_getresuid)
#define __NR_setresgid 149
__SYSCALL(__NR_setresgid, sys_setresgid)
#define __NR_getresgid 150
__SYSCALL(__NR_getresgid, sys_getresgid)
#define __NR_setfsuid 151
__SYSCALL(__NR_setfsuid, sys_setfsuid)
#define __NR_setfsgid 152
__SYSCALL(__NR_setfsgid, sys_setfsgid)
#define __NR_times 153
__SC_COMP(__NR_times, sys_times, compat_sys_times)
#define __NR_setpgid 154
__SYSCALL(__NR_setpgid, sys_setpgid)
#define __NR_getpgid 155
__SYSCALL(__NR_getpgid, sys_getpgid)
#define __NR_getsid 156
__SYSCALL(__NR_getsid, sys_getsid)
#define __NR_setsid 157
__SYSCALL(__NR_setsid, sys_setsid)
#define __NR_getgroups 158
__SYSCALL(__NR_getgroups, sys_getgroups)
#define __NR_setgroups 159
__SYSCALL(__NR_setgroups, sys_setgroups)
#define __NR_uname 160
__SYSCALL(__NR_uname, sys_newuname)
#define __NR_sethostname 161
__SYSCALL(__NR_sethostname, sys_sethostname)
#define __NR_setdomainname 162
__SYSCALL(__NR_setdomainname, sys_setdomainname)

#ifdef __ARCH_WANT_SET_GET_RLIMIT
/* getrlimit and setrlimit are superseded with prlimit64 */
#define __NR_getrlimit 163
__SC_COMP(__NR_getrlimit, sys_getrlimit, compat_sys_getrlimit)
#define __NR_setrlimit 164
__SC_COMP(__NR_setrlimit, sys_setrlimit, compat_sys_setrlimit)
#endif

#define __NR_getrusage 165
__SC_COMP(__NR_getrusage, sys_getrusage, compat_sys_getrusage)
#define __NR_umask 166
__SYSCALL(__NR_umask, sys_umask)
#define __NR_prctl 167
__SYSCALL(__NR_prctl, sys_prctl)
#define __NR_getcpu 168
__SYSCALL(__NR_getcpu, sys_getcpu)

/* kernel/time.c */
#if defined(__ARCH_WANT_TIME32_SYSCALLS) || __BITS_PER_LONG != 32
#define __NR_gettimeofday 169
__SC_COMP(__NR_gettimeofday, sys_gettimeofday, compat_sys_gettimeofday)
#define __NR_settimeofday 170
__SC_COMP(__NR_settimeofday, sys_settimeofday, compat_sys_settimeofday)
#define __NR_adjtimex 171
__SC_3264(__NR_adjtimex, sys_adjtimex_time32, sys_adjtimex)
#endif

/* kernel/sys.c */
#define __NR_getpid 172
__SYSCALL(__NR_getpid, sys_getpid)
#define __NR_getppid 173
__SYSCALL(__NR_getppid, sys_getppid)
#define __NR_getuid 174
__SYSCALL(__NR_getuid, sys_getuid)
#define __NR_geteuid 175
__SYSCALL(__NR_geteuid, sys_geteuid)
#define __NR_getgid 176
__SYSCALL(__NR_getgid, sys_getgid)
#define __NR_getegid 177
__SYSCALL(__NR_getegid, sys_getegid)
#define __NR_gettid 178
__SYSCALL(__NR_gettid, sys_gettid)
#define __NR_sysinfo 179
__SC_COMP(__NR_sysinfo, sys_sysinfo, compat_sys_sysinfo)

/* ipc/mqueue.c */
#define __NR_mq_open 180
__SC_COMP(__NR_mq_open, sys_mq_open, compat_sys_mq_open)
#define __NR_mq_unlink 181
__SYSCALL(__NR_mq_unlink, sys_mq_unlink)
#if defined(__ARCH_WANT_TIME32_SYSCALLS) || __BITS_PER_LONG != 32
#define __NR_mq_timedsend 182
__SC_3264(__NR_mq_timedsend, sys_mq_timedsend_time32, sys_mq_timedsend)
#define __NR_mq_timedreceive 183
__SC_3264(__NR_mq_timedreceive, sys_mq_timedreceive_time32, \
	  sys_mq_timedreceive)
#endif
#define __NR_mq_notify 184
__SC_COMP(__NR_mq_notify, sys_mq_notify, compat_sys_mq_notify)
#define __NR_mq_getsetattr 185
__SC_COMP(__NR_mq_getsetattr, sys_mq_getsetattr, compat_sys_mq_getsetattr)

/* ipc/msg.c */
#define __NR_msgget 186
__SYSCALL(__NR_msgget, sys_msgget)
#define __NR_msgctl 187
__SC_COMP(__NR_msgctl, sys_msgctl, compat_sys_msgctl)
#define __NR_msgrcv 188
__SC_COMP(__NR_msgrcv, sys_msgrcv, compat_sys_msgrcv)
#define __NR_msgsnd 189
__SC_COMP(__NR_msgsnd, sys_msgsnd, compat_sys_msgsnd)

/* ipc/sem.c */
#define __NR_semget 190
__SYSCALL(__NR_semget, sys_semget)
#define __NR_semctl 191
__SC_COMP(__NR_semctl, sys_semctl, compat_sys_semctl)
#if defined(__ARCH_WANT_TIME32_SYSCALLS) || __BITS_PER_LONG != 32
#define __NR_semtimedop 192
__SC_3264(__NR_semtimedop, sys_semtimedop_time32, sys_semtimedop)
#endif
#define __NR_semop 193
__SYSCALL(__NR_semop, sys_semop)

/* ipc/shm.c */
#define __NR_shmget 194
__SYSCALL(__NR_shmget, sys_shmget)
#define __NR_shmctl 195
__SC_COMP(__NR_shmctl, sys_shmctl, compat_sys_shmctl)
#define __NR_shmat 196
__SC_COMP(__NR_shmat, sys_shmat, compat_sys_shmat)
#define __NR_shmdt 197
__SYSCALL(__NR_shmdt, sys_shmdt)

/* net/socket.c */
#define __NR_socket 198
__SYSCALL(__NR_socket, sys_socket)
#define __NR_socketpair 199
__SYSCALL(__NR_socketpair, sys_socketpair)
#define __NR_bind 200
__SYSCALL(__NR_bind, sys_bind)
#define __NR_listen 201
__SYSCALL(__NR_listen, sys_listen)
#define __NR_accept 202
__SYSCALL(__NR_accept, sys_accept)
#define __NR_connect 203
__SYSCALL(__NR_connect, sys_connect)
#define __NR_getsockname 204
__SYSCALL(__NR_getsockname, sys_getsockname)
#define __NR_getpeername 205
__SYSCALL(__NR_getpeername, sys_getpeername)
#define __NR_sendto 206
__SYSCALL(__NR_sendto, sys_sendto)
#define __NR_recvfrom 207
__SC_COMP(__NR_recvfrom, sys_recvfrom, compat_sys_recvfrom)
#define __NR_setsockopt 208
__SC_COMP(__NR_setsockopt, sys_setsockopt, sys_setsockopt)
#define __NR_getsockopt 209
__SC_COMP(__NR_getsockopt, sys_getsockopt, sys_getsockopt)
#define __NR_shutdown 210
__SYSCALL(__NR_shutdown, sys_shutdown)
#define __NR_sendmsg 211
__SC_COMP(__NR_sendmsg, sys_sendmsg, compat_sys_sendmsg)
#define __NR_recvmsg 212
__SC_COMP(__NR_recvmsg, sys_recvmsg, compat_sys_recvmsg)

/* mm/filemap.c */
#define __NR_readahead 213
__SC_COMP(__NR_readahead, sys_readahead, compat_sys_readahead)

/* mm/nommu.c, also with MMU */
#define __NR_brk 214
__SYSCALL(__NR_brk, sys_brk)
#define __NR_munmap 215
__SYSCALL(__NR_munmap, sys_munmap)
#define __NR_mremap 216
__SYSCALL(__NR_mremap, sys_mremap)

/* security/keys/keyctl.c */
#define __NR_add_key 217
__SYSCALL(__NR_add_key, sys_add_key)
#define __NR_request_key 218
__SYSCALL(__NR_request_key, sys_request_key)
#define __NR_keyctl 219
__SC_COMP(__NR_keyctl, sys_keyctl, compat_sys_keyctl)

/* arch/example/kernel/sys_example.c */
#define __NR_clone 220
__SYSCALL(__NR_clone, sys_clone)
#define __NR_execve 221
__SC_COMP(__NR_execve, sys_execve, compat_sys_execve)

#define __NR3264_mmap 222
__SC_3264(__NR3264_mmap, sys_mmap2, sys_mmap)
/* mm/fadvise.c */
#define __NR3264_fadvise64 223
__SC_COMP(__NR3264_fadvise64, sys_fadvise64_64, compat_sys_fadvise64_64)

/* mm/, CONFIG_MMU only */
#ifndef __ARCH_NOMMU
#define __NR_swapon 224
__SYSCALL(__NR_swapon, sys_swapon)
#define __NR_swapoff 225
__SYSCALL(__NR_swapoff, sys_swapoff)
#define __NR_mprotect 226
__SYSCALL(__NR_mprotect, sys_mprotect)
#define __NR_msync 227
__SYSCALL(__NR_msync, sys_msync)
#define __NR_mlock 228
__SYSCALL(__NR_mlock, sys_mlock)
#define __NR_munlock 229
__SYSCALL(__NR_munlock, sys_munlock)
#define __NR_mlockall 230
__SYSCALL(__NR_mlockall, sys_mlockall)
#define __NR_munlockall 231
__SYSCALL(__NR_munlockall, sys_munlockall)
#define __NR_mincore 232
__SYSCALL(__NR_mincore, sys_mincore)
#define __NR_madvise 233
__SYSCALL(__NR_madvise, sys_madvise)
#define __NR_remap_file_pages 234
__SYSCALL(__NR_remap_file_pages, sys_remap_file_pages)
#define __NR_mbind 235
__SYSCALL(__NR_mbind, sys_mbind)
#define __NR_get_mempolicy 236
__SYSCALL(__NR_get_mempolicy, sys_get_mempolicy)
#define __NR_set_mempolicy 237
__SYSCALL(__NR_set_mempolicy, sys_set_mempolicy)
#define __NR_migrate_pages 238
__SYSCALL(__NR_migrate_pages, sys_migrate_pages)
#define __NR_move_pages 239
__SYSCALL(__NR_move_pages, sys_move_pages)
#endif

#define __NR_rt_tgsigqueueinfo 240
__SC_COMP(__NR_rt_tgsigqueueinfo, sys_rt_tgsigqueueinfo, \
	  compat_sys_rt_tgsigqueueinfo)
#define __NR_perf_event_open 241
__SYSCALL(__NR_perf_event_open, sys_perf_event_open)
#define __NR_accept4 242
__SYSCALL(__NR_accept4, sys_accept4)
#if defined(__ARCH_WANT_TIME32_SYSCALLS) || __BITS_PER_LONG != 32
#define __NR_recvmmsg 243
__SC_COMP_3264(__NR_recvmmsg, sys_recvmmsg_time32, sys_recvmmsg, compat_sys_recvmmsg_time32)
#endif

/*
 * Architectures may provide up to 16 syscalls of their own
 * starting with this value.
 */
#define __NR_arch_specific_syscall 244

#if defined(__ARCH_WANT_TIME32_SYSCALLS) || __BITS_PER_LONG != 32
#define __NR_wait4 260
__SC_COMP(__NR_wait4, sys_wait4, compat_sys_wait4)
#endif
#define __NR_prlimit64 261
__SYSCALL(__NR_prlimit64, sys_prlimit64)
#define __NR_fanotify_init 262
__SYSCALL(__NR_fanotify_init, sys_fanotify_init)
#define __NR_fanotify_mark 263
__SYSCALL(__NR_fanotify_mark, sys_fanotify_mark)
#define __NR_name_to_handle_at         264
__SYSCALL(__NR_name_to_handle_at, sys_name_to_handle_at)
#define __NR_open_by_handle_at         265
__SYSCALL(__NR_open_by_handle_at, sys_open_by_handle_at)
#if defined(__ARCH_WANT_TIME32_SYSCALLS) || __BITS_PER_LONG != 32
#define __NR_clock_adjtime 266
__SC_3264(__NR_clock_adjtime, sys_clock_adjtime32, sys_clock_adjtime)
#endif
#define __NR_syncfs 267
__SYSCALL(__NR_syncfs, sys_syncfs)
#define __NR_setns 268
__SYSCALL(__NR_setns, sys_setns)
#define __NR_sendmmsg 269
__SC_COMP(__NR_sendmmsg, sys_sendmmsg, compat_sys_sendmmsg)
#define __NR_process_vm_readv 270
__SYSCALL(__NR_process_vm_readv, sys_process_vm_readv)
#define __NR_process_vm_writev 271
__SYSCALL(__NR_process_vm_writev, sys_process_vm_writev)
#define __NR_kcmp 272
__SYSCALL(__NR_kcmp, sys_kcmp)
#define __NR_finit_module 273
__SYSCALL(__NR_finit_module, sys_finit_module)
#define __NR_sched_setattr 274
__SYSCALL(__NR_sched_setattr, sys_sched_setattr)
#define __NR_sched_getattr 275
__SYSCALL(__NR_sched_getattr, sys_sched_getattr)
#define __NR_renameat2 276
__SYSCALL(__NR_renameat2, sys_renameat2)
#define __NR_seccomp 277
__SYSCALL(__NR_seccomp, sys_seccomp)
#define __NR_getrandom 278
__SYSCALL(__NR_getrandom, sys_getrandom)
#define __NR_memfd_create 279
__SYSCALL(__NR_memfd_create, sys_memfd_create)
#define __NR_bpf 280
__SYSCALL(__NR_bpf, sys_bpf)
#define __NR_execveat 281
__SC_COMP(__NR_execveat, sys_execveat, compat_sys_execveat)
#define __NR_userfaultfd 282
__SYSCALL(__NR_userfaultfd, sys_userfaultfd)
#define __NR_membarrier 283
__SYSCALL(__NR_membarrier, sys_membarrier)
#define __NR_mlock2 284
__SYSCALL(__NR_mlock2, sys_mlock2)
#define __NR_copy_file_range 285
__SYSCALL(__NR_copy_file_range, sys_copy_file_range)
#define __NR_preadv2 286
__SC_COMP(__NR_preadv2, sys_preadv2, compat_sys_preadv2)
#define __NR_pwritev2 287
__SC_COMP(__NR_pwritev2, sys_pwritev2, compat_sys_pwritev2)
#define __NR_pkey_mprotect 288
__SYSCALL(__NR_pkey_mprotect, sys_pkey_mprotect)
#define __NR_pkey_alloc 289
__SYSCALL(__NR_pkey_alloc,    sys_pkey_alloc)
#define __NR_pkey_free 290
__SYSCALL(__NR_pkey_free,     sys_pkey_free)
#define __NR_statx 291
__SYSCALL(__NR_statx,     sys_statx)
#if defined(__ARCH_WANT_TIME32_SYSCALLS) || __BITS_PER_LONG != 32
#define __NR_io_pgetevents 292
__SC_COMP_3264(__NR_io_pgetevents, sys_io_pgetevents_time32, sys_io_pgetevents, compat_sys_io_pgetevents)
#endif
#define __NR_rseq 293
__SYSCALL(__NR_rseq, sys_rseq)
#define __NR_kexec_file_load 294
__SYSCALL(__NR_kexec_file_load,     sys_kexec_file_load)
/* 295 through 402 are unassigned to sync up with generic numbers, don't use */
#if defined(__SYSCALL_COMPAT) || __BITS_PER_LONG == 32
#define __NR_clock_gettime64 403
__SYSCALL(__NR_clock_gettime64, sys_clock_gettime)
#define __NR_clock_settime64 404
__SYSCALL(__NR_clock_settime64, sys_clock_settime)
#define __NR_clock_adjtime64 405
__SYSCALL(__NR_clock_adjtime64, sys_clock_adjtime)
#define __NR_clock_getres_time64 406
__SYSCALL(__NR_clock_getres_time64, sys_clock_getres)
#define __NR_clock_nanosleep_time64 407
__SYSCALL(__NR_clock_nanosleep_time64, sys_clock_nanosleep)
#define __NR_timer_gettime64 408
__SYSCALL(__NR_timer_gettime64, sys_timer_gettime)
#define __NR_timer_settime64 409
__SYSCALL(__NR_timer_settime64, sys_timer_settime)
#define __NR_timerfd_gettime64 410
__SYSCALL(__NR_timerfd_gettime64, sys_timerfd_gettime)
#define __NR_timerfd_settime64 411
__SYSCALL(__NR_timerfd_settime64, sys_timerfd_settime)
#define __NR_utimensat_time64 412
__SYSCALL(__NR_utimensat_time64, sys_utimensat)
#define __NR_pselect6_time64 413
__SC_COMP(__NR_pselect6_time64, sys_pselect6, compat_sys_pselect6_time64)
#define __NR_ppoll_time64 414
__SC_COMP(__NR_ppoll_time64, sys_ppoll, compat_sys_ppoll_time64)
#define __NR_io_pgetevents_time64 416
__SC_COMP(__NR_io_pgetevents_time64, sys_io_pgetevents, compat_sys_io_pgetevents_time64)
#define __NR_recvmmsg_time64 417
__SC_COMP(__NR_recvmmsg_time64, sys_recvmmsg, compat_sys_recvmmsg_time64)
#define __NR_mq_timedsend_time64 418
__SYSCALL(__NR_mq_timedsend_time64, sys_mq_timedsend)
#define __NR_mq_timedreceive_time64 419
__SYSCALL(__NR_mq_timedreceive_time64, sys_mq_timedreceive)
#define __NR_semtimedop_time64 420
__SYSCALL(__NR_semtimedop_time64, sys_semtimedop)
#define __NR_rt_sigtimedwait_time64 421
__SC_COMP(__NR_rt_sigtimedwait_time64, sys_rt_sigtimedwait, compat_sys_rt_sigtimedwait_time64)
#define __NR_futex_time64 422
__SYSCALL(__NR_futex_time64, sys_futex)
#define __NR_sched_rr_get_interval_time64 423
__SYSCALL(__NR_sched_rr_get_interval_time64, sys_sched_rr_get_interval)
#endif

#define __NR_pidfd_send_signal 424
__SYSCALL(__NR_pidfd_send_signal, sys_pidfd_send_signal)
#define __NR_io_uring_setup 425
__SYSCALL(__NR_io_uring_setup, sys_io_uring_setup)
#define __NR_io_uring_enter 426
__SYSCALL(__NR_io_uring_enter, sys_io_uring_enter)
#define __NR_io_uring_register 427
__SYSCALL(__NR_io_uring_register, sys_io_uring_register)
#define __NR_open_tree 428
__SYSCALL(__NR_open_tree, sys_open_tree)
#define __NR_move_mount 429
__SYSCALL(__NR_move_mount, sys_move_mount)
#define __NR_fsopen 430
__SYSCALL(__NR_fsopen, sys_fsopen)
#define __NR_fsconfig 431
__SYSCALL(__NR_fsconfig, sys_fsconfig)
#define __NR_fsmount 432
__SYSCALL(__NR_fsmount, sys_fsmount)
#define __NR_fspick 433
__SYSCALL(__NR_fspick, sys_fspick)
#define __NR_pidfd_open 434
__SYSCALL(__NR_pidfd_open, sys_pidfd_open)
#ifdef __ARCH_WANT_SYS_CLONE3
#define __NR_clone3 435
__SYSCALL(__NR_clone3, sys_clone3)
#endif
#define __NR_close_range 436
__SYSCALL(__NR_close_range, sys_close_range)

#define __NR_openat2 437
__SYSCALL(__NR_openat2, sys_openat2)
#define __NR_pidfd_getfd 438
__SYSCALL(__NR_pidfd_getfd, sys_pidfd_getfd)
#define __NR_faccessat2 439
__SYSCALL(__NR_faccessat2, sys_faccessat2)
#define __NR_process_madvise 440
__SYSCALL(__NR_process_madvise, sys_process_madvise)
#define __NR_epoll_pwait2 441
__SC_COMP(__NR_epoll_pwait2, sys_epoll_pwait2, compat_sys_epoll_pwait2)
#define __NR_mount_setattr 442
__SYSCALL(__NR_mount_setattr, sys_mount_setattr)
#define __NR_quotactl_fd 443
__SYSCALL(__NR_quotactl_fd, sys_quotactl_fd)

#define __NR_landlock_create_ruleset 444
__SYSCALL(__NR_landlock_create_ruleset, sys_landlock_create_ruleset)
#define __NR_landlock_add_rule 445
__SYSCALL(__NR_landlock_add_rule, sys_landlock_add_rule)
#define __NR_landlock_restrict_self 446
__SYSCALL(__NR_landlock_restrict_self, sys_landlock_restrict_self)

#ifdef __ARCH_WANT_MEMFD_SECRET
#define __NR_memfd_secret 447
__SYSCALL(__NR_memfd_secret, sys_memfd_secret)
#endif
#define __NR_process_mrelease 448
__SYSCALL(__NR_process_mrelease, sys_process_mrelease)

#define __NR_futex_waitv 449
__SYSCALL(__NR_futex_waitv, sys_futex_waitv)

#define __NR_set_mempolicy_home_node 450
__SYSCALL(__NR_set_mempolicy_home_node, sys_set_mempolicy_home_node)

#undef __NR_syscalls
#define __NR_syscalls 451

/*
 * 32 bit systems traditionally used different
 * syscalls for off_t and loff_t arguments, while
 * 64 bit systems only need the off_t version.
 * For new 32 bit platforms, there is no need to
 * implement the old 32 bit off_t syscalls, so
 * they take different names.
 * Here we map the numbers so that both versions
 * use the same syscall table layout.
 */
#if __BITS_PER_LONG == 64 && !defined(__SYSCALL_COMPAT)
#define __NR_fcntl __NR3264_fcntl
#define __NR_statfs __NR3264_statfs
#define __NR_fstatfs __NR3264_fstatfs
#define __NR_truncate __NR3264_truncate
#define __NR_ftruncate __NR3264_ftruncate
#define __NR_lseek __NR3264_lseek
#define __NR_sendfile __NR3264_sendfile
#if defined(__ARCH_WANT_NEW_STAT) || defined(__ARCH_WANT_STAT64)
#define __NR_newfstatat __NR3264_fstatat
#define __NR_fstat __NR3264_fstat
#endif
#define __NR_mmap __NR3264_mmap
#define __NR_fadvise64 __NR3264_fadvise64
#ifdef __NR3264_stat
#define __NR_stat __NR3264_stat
#define __NR_lstat __NR3264_lstat
#endif
#else
#define __NR_fcntl64 __NR3264_fcntl
#define __NR_statfs64 __NR3264_statfs
#define __NR_fstatfs64 __NR3264_fstatfs
#define __NR_truncate64 __NR3264_truncate
#define __NR_ftruncate64 __NR3264_ftruncate
#define __NR_llseek __NR3264_lseek
#define __NR_sendfile64 __NR3264_sendfile
#if defined(__ARCH_WANT_NEW_STAT) || defined(__ARCH_WANT_STAT64)
#define __NR_fstatat64 __NR3264_fstatat
#define __NR_fstat64 __NR3264_fstat
#endif
#define __NR_mmap2 __NR3264_mmap
#define __NR_fadvise64_64 __NR3264_fadvise64
#ifdef __NR3264_stat
#define __NR_stat64 __NR3264_stat
#define __NR_lstat64 __NR3264_lstat
#endif
#endif
