/* SPDX-License-Identifier: GPL-2.0 WITH Linux-syscall-note */
#ifndef _LINUX_ELF_EM_H
#define _LINUX_ELF_EM_H

/* These constants define the various ELF target machines */
#define EM_NONE		0
#define EM_M32		1
#define EM_SPARC	2
#define EM_386		3
#define EM_68K		4
#define EM_88K		5
#define EM_486		6	/* Perhaps disused */
#define EM_860		7
#define EM_MIPS		8	/* MIPS R3000 (officially, big-endian only) */
				/* Next two are historical and binaries and
				   modules of these types will be rejected by
				   Linux.  */
#define EM_MIPS_RS3_LE	10	/* MIPS R3000 little-endian */
#define EM_MIPS_RS4_BE	10	/* MIPS R4000 big-endian */

#define EM_PARISC	15	/* HPPA */
#define EM_SPARC32PLUS	18	/* Sun's "v8plus" */
#define EM_PPC		20	/* PowerPC */
#define EM_PPC64	21	 /* PowerPC64 */
#define EM_SPU		23	/* Cell BE SPU */
#define EM_ARM		40	/* ARM 32 bit */
#define EM_SH		42	/* SuperH */
#define EM_SPARCV9	43	/* SPARC v9 64-bit */
#define EM_H8_300	46	/* Renesas H8/300 */
#define EM_IA_64	50	/* HP/Intel IA-64 */
#define EM_X86_64	62	/* AMD x86-64 */
#define EM_S390		22	/* IBM S/390 */
#define EM_CRIS		76	/* Axis Communications 32-bit embedded processor */
#define EM_M32R		88	/* Renesas M32R */
#define EM_MN10300	89	/* Panasonic/MEI MN10300, AM33 */
#define EM_OPENRISC     92     /* OpenRISC 32-bit embedded processor */
#define EM_ARCOMPACT	93	/* ARCompact processor */
#define EM_XTENSA	94	/* Tensilica Xtensa Architecture */
#define EM_BLACKFIN     106     /* ADI Blackfin Processor */
#define EM_UNICORE	110	/* UniCore-32 */
#define EM_ALTERA_NIOS2	113	/* Altera Nios II soft-core processor */
#define EM_TI_C6000	140	/* TI C6X DSPs */
#define EM_HEXAGON	164	/* QUALCOMM Hexagon */
#define EM_NDS32	167	/* Andes Technology compact code size
				   embedded RISC processor family */
#define EM_AARCH64	183	/* ARM 64 bit */
#define EM_TILEPRO	188	/* Tilera TILEPro */
#define EM_MICROBLAZE	189	/* Xilinx MicroBlaze */
#define EM_TILEGX	191	/* Tilera TILE-Gx */
#define EM_ARCV2	195	/* ARCv2 Cores */
#define EM_RISCV	243	/* RISC-V */
#define EM_BPF		247	/* Linux BPF - in-kernel virtual machine */
#define EM_CSKY		252	/* C-SKY */
#define EM_LOONGARCH	258	/* LoongArch */
#define EM_FRV		0x5441	/* Fujitsu FR-V */

/*
 * This is an interim value that we will use until the committee comes
 * up with a final number.
 */
#define EM_ALPHA	0x9026

/* Bogus old m32r magic number, used by old tools. */
#define EM_CYGNUS_M32R	0x9041
/* This is the old interim value for S/390 architecture */
#define EM_S390_OLD	0xA390
/* Also Panasonic/MEI MN10300, AM33 */
#define EM_CYGNUS_MN10300 0xbeef


#endif /* _LINUX_ELF_EM_H */
