/* SPDX-License-Identifier: GPL-2.0 WITH Linux-syscall-note */
/*
 * The ARM private system calls, transcribed from the kernel's arch/arm/include/uapi/asm/unistd.h (unchanged since 2.6;
 * the sandbox has no ARM UAPI headers installed, so this block is vendored by hand - see oracle/README.md).
 * For the EABI, which the library's ARM table describes, __NR_SYSCALL_BASE is 0 (0x900000 is the OABI base).
 */
#define __NR_SYSCALL_BASE	0
#define __ARM_NR_BASE			(__NR_SYSCALL_BASE+0x0f0000)
#define __ARM_NR_breakpoint		(__ARM_NR_BASE+1)
#define __ARM_NR_cacheflush		(__ARM_NR_BASE+2)
#define __ARM_NR_usr26			(__ARM_NR_BASE+3)
#define __ARM_NR_usr32			(__ARM_NR_BASE+4)
#define __ARM_NR_set_tls		(__ARM_NR_BASE+5)
#define __ARM_NR_get_tls		(__ARM_NR_BASE+6)
