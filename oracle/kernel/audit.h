/* SPDX-License-Identifier: GPL-2.0+ WITH Linux-syscall-note */
/* audit.h -- Auditing support
 *
 * Copyright 2003-2004 Red Hat Inc., Durham, North Carolina.
 * All Rights Reserved.
 *
 * This program is free software; you can redistribute it and/or modify
 * it under the terms of the GNU General Public License as published by
 * the Free Software Foundation; either version 2 of the License, or
 * (at your option) any later version.
 *
 * This program is distributed in the hope that it will be useful,
 * but WITHOUT ANY WARRANTY; without even the implied warranty of
 * MERCHANTABILITY or FITNESS FOR A PARTICULAR PURPOSE.  See the
 * GNU General Public License for more details.
 *
 * You should have received a copy of the GNU General Public License
 * along with this program; if not, write to the Free Software
 * Foundation, Inc., 59 Temple Place, Suite 330, Boston, MA  02111-1307  USA
 *
 * Written by Rickard E. (Rik) Faith <faith@redhat.com>
 *
 */

#ifndef _LINUX_AUDIT_H_
#define _LINUX_AUDIT_H_

#include <linux/types.h>
#include <linux/elf-em.h>

/* The netlink messages for the audit system is divided into blocks:
 * 1000 - 1099 are for commanding the audit system
 * 1100 - 1199 user space trusted application messages
 * 1200 - 1299 messages internal to the audit daemon
 * 1300 - 1399 audit event messages
 * 1400 - 1499 SE Linux use
 * 1500 - 1599 kernel LSPP events
 * 1600 - 1699 kernel crypto events
 * 1700 - 1799 kernel anomaly records
 * 1800 - 1899 kernel integrity events
 * 1900 - 1999 future kernel use
 * 2000 is for otherwise unclassified kernel audit messages (legacy)
 * 2001 - 2099 unused (kernel)
 * 2100 - 2199 user space anomaly records
 * 2200 - 2299 user space actions taken in response to anomalies
 * 2300 - 2399 user space generated LSPP events
 * 2400 - 2499 user space crypto events
 * 2500 - 2999 future user space (maybe integrity labels and related events)
 *
 * Messages from 1000-1199 are bi-directional. 1200-1299 & 2100 - 2999 are
 * exclusively user space. 1300-2099 is kernel --> user space
 * communication.
 */
#define AUDIT_GET		1000	/* Get status */
#define AUDIT_SET		1001	/* Set status (enable/disable/auditd) */
#define AUDIT_LIST		1002	/* List syscall rules -- deprecated */
#define AUDIT_ADD		1003	/* Add syscall rule -- deprecated */
#define AUDIT_DEL		1004	/* Delete syscall rule -- deprecated */
#define AUDIT_USER		1005	/* Message from userspace -- deprecated */
#define AUDIT_LOGIN		1006	/* Define the login id and information */
#define AUDIT_WATCH_INS		1007	/* Insert file/dir watch entry */
#define AUDIT_WATCH_REM		1008	/* Remove file/dir watch entry */
#define AUDIT_WATCH_LIST	1009	/* List all file/dir watches */
#define AUDIT_SIGNAL_INFO	1010	/* Get info about sender of signal to auditd */
#define AUDIT_ADD_RULE		1011	/* Add syscall filtering rule */
#define AUDIT_DEL_RULE		1012	/* Delete syscall filtering rule */
#define AUDIT_LIST_RULES	1013	/* List syscall filtering rules */
#define AUDIT_TRIM		1014	/* Trim junk from watched tree */
#define AUDIT_MAKE_EQUIV	1015	/* Append to watched tree */
#define AUDIT_TTY_GET		1016	/* Get TTY auditing status */
#define AUDIT_TTY_SET		1017	/* Set TTY auditing status */
#define AUDIT_SET_FEATURE	1018	/* Turn an audit feature on or off */
#define AUDIT_GET_FEATURE	1019	/* Get which features are enabled */

#define AUDIT_FIRST_USER_MSG	1100	/* Userspace messages mostly uninteresting to kernel */
#define AUDIT_USER_AVC		1107	/* We filter this differently */
#define AUDIT_USER_TTY		1124	/* Non-ICANON TTY input meaning */
#define AUDIT_LAST_USER_MSG	1199
#define AUDIT_FIRST_USER_MSG2	2100	/* More user space messages */
#define AUDIT_LAST_USER_MSG2	2999

#define AUDIT_DAEMON_START      1200    /* Daemon startup record */
#define AUDIT_DAEMON_END        1201    /* Daemon normal stop record */
#define AUDIT_DAEMON_ABORT      1202    /* Daemon error stop record */
#define AUDIT_DAEMON_CONFIG     1203    /* Daemon config change */

#define AUDIT_SYSCALL		1300	/* Syscall event */
/* #define AUDIT_FS_WATCH	1301	 * Deprecated */
#define AUDIT_PATH		1302	/* Filename path information */
#define AUDIT_IPC		1303	/* IPC record */
#define AUDIT_SOCKETCALL	1304	/* sys_socketcall arguments */
#define AUDIT_CONFIG_CHANGE	1305	/* Audit system configuration change */
#define AUDIT_SOCKADDR		1306	/* sockaddr copied as syscall arg */
#define AUDIT_CWD		1307	/* Current working directory */
#define AUDIT_EXECVE		1309	/* execve arguments */
#define AUDIT_IPC_SET_PERM	1311	/* IPC new permissions record type */
#define AUDIT_MQ_OPEN		1312	/* POSIX MQ open record type */
#define AUDIT_MQ_SENDRECV	1313	/* POSIX MQ send/receive record type */
#define AUDIT_MQ_NOTIFY		1314	/* POSIX MQ notify record type */
#define AUDIT_MQ_GETSETATTR	1315	/* POSIX MQ get/set attribute record type */
#define AUDIT_KERNEL_OTHER	1316	/* For use by 3rd party modules */
#define AUDIT_FD_PAIR		1317    /* audit record for pipe/socketpair */
#define AUDIT_OBJ_PID		1318	/* ptrace target */
#define AUDIT_TTY		1319	/* Input on an administrative TTY */
#define AUDIT_EOE		1320	/* End of multi-record event */
#define AUDIT_BPRM_FCAPS	1321	/* Information about fcaps increasing perms */
#define AUDIT_CAPSET		1322	/* Record showing argument to sys_capset */
#define AUDIT_MMAP		1323	/* Record showing descriptor and flags in mmap */
#define AUDIT_NETFILTER_PKT	1324	/* Packets traversing netfilter chains */
#define AUDIT_NETFILTER_CFG	1325	/* Netfilter chain modifications */
#define AUDIT_SECCOMP		1326	/* Secure Computing event */
#define AUDIT_PROCTITLE		1327	/* Proctitle emit event */
#define AUDIT_FEATURE_CHANGE	1328	/* audit log listing feature changes */
#define AUDIT_REPLACE		1329	/* Replace auditd if this packet unanswerd */
#define AUDIT_KERN_MODULE	1330	/* Kernel Module events */
#define AUDIT_FANOTIFY		1331	/* Fanotify access decision */
#define AUDIT_TIME_INJOFFSET	1332	/* Timekeeping offset injected */
#define AUDIT_TIME_ADJNTPVAL	1333	/* NTP value adjustment */
#define AUDIT_BPF		1334	/* BPF subsystem */
#define AUDIT_EVENT_LISTENER	1335	/* Task joined multicast read socket */
#define AUDIT_URINGOP		1336	/* io_uring operation */
#define AUDIT_OPENAT2		1337	/* Record showing openat2 how args */
#define AUDIT_DM_CTRL		1338	/* Device Mapper target control */
#define AUDIT_DM_EVENT		1339	/* Device Mapper events */

#define AUDIT_AVC		1400	/* SE Linux avc denial or grant */
#define AUDIT_SELINUX_ERR	1401	/* Internal SE Linux Errors */
#define AUDIT_AVC_PATH		1402	/* dentry, vfsmount pair from avc */
#define AUDIT_MAC_POLICY_LOAD	1403	/* Policy file load */
#define AUDIT_MAC_STATUS	1404	/* Changed enforcing,permissive,off */
#define AUDIT_MAC_CONFIG_CHANGE	1405	/* Changes to booleans */
#define AUDIT_MAC_UNLBL_ALLOW	1406	/* NetLabel: allow unlabeled traffic */
#define AUDIT_MAC_CIPSOV4_ADD	1407	/* NetLabel: add CIPSOv4 DOI entry */
#define AUDIT_MAC_CIPSOV4_DEL	1408	/* NetLabel: del CIPSOv4 DOI entry */
#define AUDIT_MAC_MAP_ADD	1409	/* NetLabel: add LSM domain mapping */
#define AUDIT_MAC_MAP_DEL	1410	/* NetLabel: del LSM domain mapping */
#define AUDIT_MAC_IPSEC_ADDSA	1411	/* Not used */
#define AUDIT_MAC_IPSEC_DELSA	1412	/* Not used  */
#define AUDIT_MAC_IPSEC_ADDSPD	1413	/* Not used */
#define AUDIT_MAC_IPSEC_DELSPD	1414	/* Not used */
#define AUDIT_MAC_IPSEC_EVENT	1415	/* Audit an IPSec event */
#define AUDIT_MAC_UNLBL_STCADD	1416	/* NetLabel: add a static label */
#define AUDIT_MAC_UNLBL_STCDEL	1417	/* NetLabel: del a static label */
#define AUDIT_MAC_CALIPSO_ADD	1418	/* NetLabel: add CALIPSO DOI entry */
#define AUDIT_MAC_CALIPSO_DEL	1419	/* NetLabel: del CALIPSO DOI entry */

#define AUDIT_FIRST_KERN_ANOM_MSG   1700
#define AUDIT_LAST_KERN_ANOM_MSG    1799
#define AUDIT_ANOM_PROMISCUOUS      1700 /* Device changed promiscuous mode */
#define AUDIT_ANOM_ABEND            1701 /* Process ended abnormally */
#define AUDIT_ANOM_LINK		    1702 /* Suspicious use of file links */
#define AUDIT_ANOM_CREAT	    1703 /* Suspicious file creation */
#define AUDIT_INTEGRITY_DATA	    1800 /* Data integrity verification */
#define AUDIT_INTEGRITY_METADATA    1801 /* Metadata integrity verification */
#define AUDIT_INTEGRITY_STATUS	    1802 /* Integrity enable status */
#define AUDIT_INTEGRITY_HASH	    1803 /* Integrity HASH type */
#define AUDIT_INTEGRITY_PCR	    1804 /* PCR invalidation msgs */
#define AUDIT_INTEGRITY_RULE	    1805 /* policy rule */
#define AUDIT_INTEGRITY_EVM_XATTR   1806 /* New EVM-covered xattr */
#define AUDIT_INTEGRITY_POLICY_RULE 1807 /* IMA policy rules */

#define AUDIT_KERNEL		2000	/* Asynchronous audit record. NOT A REQUEST. */

/* Rule flags */
#define AUDIT_FILTER_USER	0x00	/* Apply rule to user-generated messages */
#define AUDIT_FILTER_TASK	0x01	/* Apply rule at task creation (not syscall) */
#define AUDIT_FILTER_ENTRY	0x02	/* Apply rule at syscall entry */
#define AUDIT_FILTER_WATCH	0x03	/* Apply rule to file system watches */
#define AUDIT_FILTER_EXIT	0x04	/* Apply rule at syscall exit */
#define AUDIT_FILTER_EXCLUDE	0x05	/* Apply rule before record creation */
#define AUDIT_FILTER_TYPE	AUDIT_FILTER_EXCLUDE /* obsolete misleading naming */
#define AUDIT_FILTER_FS		0x06	/* Apply rule at __audit_inode_child */
#define AUDIT_FILTER_URING_EXIT	0x07	/* Apply rule at io_uring op exit */

#define AUDIT_NR_FILTERS	8

#define AUDIT_FILTER_PREPEND	0x10	/* Prepend to front of list */

/* Rule actions */
#define AUDIT_NEVER    0	/* Do not build context if rule matches */
#define AUDIT_POSSIBLE 1	/* Build context if rule matches  */
#define AUDIT_ALWAYS   2	/* Generate audit record if rule matches */

/* Rule structure sizes -- if these change, different AUDIT_ADD and
 * AUDIT_LIST commands must be implemented. */
#define AUDIT_MAX_FIELDS   64
#define AUDIT_MAX_KEY_LEN  256
#define AUDIT_BITMASK_SIZE 64
#define AUDIT_WORD(nr) ((__u32)((nr)/32))
#define AUDIT_BIT(nr)  (1U << ((nr) - AUDIT_WORD(nr)*32))

#define AUDIT_SYSCALL_CLASSES 16
#define AUDIT_CLASS_DIR_WRITE 0
#define AUDIT_CLASS_DIR_WRITE_32 1
#define AUDIT_CLASS_CHATTR 2
#define AUDIT_CLASS_CHATTR_32 3
#define AUDIT_CLASS_READ 4
#define AUDIT_CLASS_READ_32 5
#define AUDIT_CLASS_WRITE 6
#define AUDIT_CLASS_WRITE_32 7
#define AUDIT_CLASS_SIGNAL 8
#define AUDIT_CLASS_SIGNAL_32 9

/* This bitmask is used to validate user input.  It represents all bits that
 * are currently used in an audit field constant understood by the kernel.
 * If you are adding a new #define AUDIT_<whatever>, please ensure that
 * AUDIT_UNUSED_BITS is updated if need be. */
#define AUDIT_UNUSED_BITS	0x07FFFC00

/* AUDIT_FIELD_COMPARE rule list */
#define AUDIT_COMPARE_UID_TO_OBJ_UID	1
#define AUDIT_COMPARE_GID_TO_OBJ_GID	2
#define AUDIT_COMPARE_EUID_TO_OBJ_UID	3
#define AUDIT_COMPARE_EGID_TO_OBJ_GID	4
#define AUDIT_COMPARE_AUID_TO_OBJ_UID	5
#define AUDIT_COMPARE_SUID_TO_OBJ_UID	6
#define AUDIT_COMPARE_SGID_TO_OBJ_GID	7
#define AUDIT_COMPARE_FSUID_TO_OBJ_UID	8
#define AUDIT_COMPARE_FSGID_TO_OBJ_GID	9

#define AUDIT_COMPARE_UID_TO_AUID	10
#define AUDIT_COMPARE_UID_TO_EUID	11
#define AUDIT_COMPARE_UID_TO_FSUID	12
#define AUDIT_COMPARE_UID_TO_SUID	13

#define AUDIT_COMPARE_AUID_TO_FSUID	14
#define AUDIT_COMPARE_AUID_TO_SUID	15
#define AUDIT_COMPARE_AUID_TO_EUID	16

#define AUDIT_COMPARE_EUID_TO_SUID	17
#define AUDIT_COMPARE_EUID_TO_FSUID	18

#define AUDIT_COMPARE_SUID_TO_FSUID	19

#define AUDIT_COMPARE_GID_TO_EGID	20
#define AUDIT_COMPARE_GID_TO_FSGID	21
#define AUDIT_COMPARE_GID_TO_SGID	22

#define AUDIT_COMPARE_EGID_TO_FSGID	23
#define AUDIT_COMPARE_EGID_TO_SGID	24
#define AUDIT_COMPARE_SGID_TO_FSGID	25

#define AUDIT_MAX_FIELD_COMPARE		AUDIT_COMPARE_SGID_TO_FSGID

/* Rule fields */
				/* These are useful when checking the
				 * task structure at task creation time
				 * (AUDIT_PER_TASK).  */
#define AUDIT_PID	0
#define AUDIT_UID	1
#define AUDIT_EUID	2
#define AUDIT_SUID	3
#define AUDIT_FSUID	4
#define AUDIT_GID	5
#define AUDIT_EGID	6
#define AUDIT_SGID	7
#define AUDIT_FSGID	8
#define AUDIT_LOGINUID	9
#define AUDIT_PERS	10
#define AUDIT_ARCH	11
#define AUDIT_MSGTYPE	12
#define AUDIT_SUBJ_USER	13	/* security label user */
#define AUDIT_SUBJ_ROLE	14	/* security label role */
#define AUDIT_SUBJ_TYPE	15	/* security label type */
#define AUDIT_SUBJ_SEN	16	/* security label sensitivity label */
#define AUDIT_SUBJ_CLR	17	/* security label clearance label */
#define AUDIT_PPID	18
#define AUDIT_OBJ_USER	19
#define AUDIT_OBJ_ROLE	20
#define AUDIT_OBJ_TYPE	21
#define AUDIT_OBJ_LEV_LOW	22
#define AUDIT_OBJ_LEV_HIGH	23
#define AUDIT_LOGINUID_SET	24
#define AUDIT_SESSIONID	25	/* Session ID */
#define AUDIT_FSTYPE	26	/* FileSystem Type */

				/* These are ONLY useful when checking
				 * at syscall exit time (AUDIT_AT_EXIT). */
#define AUDIT_DEVMAJOR	100
#define AUDIT_DEVMINOR	101
#define AUDIT_INODE	102
#define AUDIT_EXIT	103
#define AUDIT_SUCCESS   104	/* exit >= 0; value ignored */
#define AUDIT_WATCH	105
#define AUDIT_PERM	106
#define AUDIT_DIR	107
#define AUDIT_FILETYPE	108
#define AUDIT_OBJ_UID	109
#define AUDIT_OBJ_GID	110
#define AUDIT_FIELD_COMPARE	111
#define AUDIT_EXE	112
#define AUDIT_SADDR_FAM	113

#define AUDIT_ARG0      200
#define AUDIT_ARG1      (AUDIT_ARG0+1)
#define AUDIT_ARG2      (AUDIT_ARG0+2)
#define AUDIT_ARG3      (AUDIT_ARG0+3)

#define AUDIT_FILTERKEY	210

#define AUDIT_NEGATE			0x80000000

/* These are the supported operators.
 *	4  2  1  8
 *	=  >  <  ?
 *	----------
 *	0  0  0	 0	00	nonsense
 *	0  0  0	 1	08	&  bit mask
 *	0  0  1	 0	10	<
 *	0  1  0	 0	20	>
 *	0  1  1	 0	30	!=
 *	1  0  0	 0	40	=
 *	1  0  0	 1	48	&=  bit test
 *	1  0  1	 0	50	<=
 *	1  1  0	 0	60	>=
 *	1  1  1	 1	78	all operators
 */
#define AUDIT_BIT_MASK			0x08000000
#define AUDIT_LESS_THAN			0x10000000
#define AUDIT_GREATER_THAN		0x20000000
#define AUDIT_NOT_EQUAL			0x30000000
#define AUDIT_EQUAL			0x40000000
#define AUDIT_BIT_TEST			(AUDIT_BIT_MASK|AUDIT_EQUAL)
#define AUDIT_LESS_THAN_OR_EQUAL	(AUDIT_LESS_THAN|AUDIT_EQUAL)
#define AUDIT_GREATER_THAN_OR_EQUAL	(AUDIT_GREATER_THAN|AUDIT_EQUAL)
#define AUDIT_OPERATORS			(AUDIT_EQUAL|AUDIT_NOT_EQUAL|AUDIT_BIT_MASK)

enum {
	Audit_equal,
	Audit_not_equal,
	Audit_bitmask,
	Audit_bittest,
	Audit_lt,
	Audit_gt,
	Audit_le,
	Audit_ge,
	Audit_bad
};

/* Status symbols */
						/* Mask values */
#define AUDIT_STATUS_ENABLED			0x0001
#define AUDIT_STATUS_FAILURE			0x0002
#define AUDIT_STATUS_PID			0x0004
#define AUDIT_STATUS_RATE_LIMIT		0x0008
#define AUDIT_STATUS_BACKLOG_LIMIT		0x0010
#define AUDIT_STATUS_BACKLOG_WAIT_TIME		0x0020
#define AUDIT_STATUS_LOST			0x0040
#define AUDIT_STATUS_BACKLOG_WAIT_TIME_ACTUAL	0x0080

#define AUDIT_FEATURE_BITMAP_BACKLOG_LIMIT	0x00000001
#define AUDIT_FEATURE_BITMAP_BACKLOG_WAIT_TIME	0x00000002
#define AUDIT_FEATURE_BITMAP_EXECUTABLE_PATH	0x00000004
#define AUDIT_FEATURE_BITMAP_EXCLUDE_EXTEND	0x00000008
#define AUDIT_FEATURE_BITMAP_SESSIONID_FILTER	0x00000010
#define AUDIT_FEATURE_BITMAP_LOST_RESET		0x00000020
#define AUDIT_FEATURE_BITMAP_FILTER_FS		0x00000040

#define AUDIT_FEATURE_BITMAP_ALL (AUDIT_FEATURE_BITMAP_BACKLOG_LIMIT | \
				  AUDIT_FEATURE_BITMAP_BACKLOG_WAIT_TIME | \
				  AUDIT_FEATURE_BITMAP_EXECUTABLE_PATH | \
				  AUDIT_FEATURE_BITMAP_EXCLUDE_EXTEND | \
				  AUDIT_FEATURE_BITMAP_SESSIONID_FILTER | \
				  AUDIT_FEATURE_BITMAP_LOST_RESET | \
				  AUDIT_FEATURE_BITMAP_FILTER_FS)

/* deprecated: AUDIT_VERSION_* */
#define AUDIT_VERSION_LATEST 		AUDIT_FEATURE_BITMAP_ALL
#define AUDIT_VERSION_BACKLOG_LIMIT	AUDIT_FEATURE_BITMAP_BACKLOG_LIMIT
#define AUDIT_VERSION_BACKLOG_WAIT_TIME	AUDIT_FEATURE_BITMAP_BACKLOG_WAIT_TIME

				/* Failure-to-log actions */
#define AUDIT_FAIL_SILENT	0
#define AUDIT_FAIL_PRINTK	1
#define AUDIT_FAIL_PANIC	2

/*
 * These bits disambiguate different calling conventions that share an
 * ELF machine type, bitness, and endianness
 */
#define __AUDIT_ARCH_CONVENTION_MASK 0x30000000
#define __AUDIT_ARCH_CONVENTION_MIPS64_N32 0x20000000

/* distinguish syscall tables */
#define __AUDIT_ARCH_64BIT 0x80000000
#define __AUDIT_ARCH_LE	   0x40000000

#define AUDIT_ARCH_AARCH64	(EM_AARCH64|__AUDIT_ARCH_64BIT|__AUDIT_ARCH_LE)
#define AUDIT_ARCH_ALPHA	(EM_ALPHA|__AUDIT_ARCH_64BIT|__AUDIT_ARCH_LE)
#define AUDIT_ARCH_ARCOMPACT	(EM_ARCOMPACT|__AUDIT_ARCH_LE)
#define AUDIT_ARCH_ARCOMPACTBE	(EM_ARCOMPACT)
#define AUDIT_ARCH_ARCV2	(EM_ARCV2|__AUDIT_ARCH_LE)
#define AUDIT_ARCH_ARCV2BE	(EM_ARCV2)
#define AUDIT_ARCH_ARM		(EM_ARM|__AUDIT_ARCH_LE)
#define AUDIT_ARCH_ARMEB	(EM_ARM)
#define AUDIT_ARCH_C6X		(EM_TI_C6000|__AUDIT_ARCH_LE)
#define AUDIT_ARCH_C6XBE	(EM_TI_C6000)
#define AUDIT_ARCH_CRIS		(EM_CRIS|__AUDIT_ARCH_LE)
#define AUDIT_ARCH_CSKY		(EM_CSKY|__AUDIT_ARCH_LE)
#define AUDIT_ARCH_FRV		(EM_FRV)
#define AUDIT_ARCH_H8300	(EM_H8_300)
#define AUDIT_ARCH_HEXAGON	(EM_HEXAGON)
#define AUDIT_ARCH_I386		(EM_386|__AUDIT_ARCH_LE)
#define AUDIT_ARCH_IA64		(EM_IA_64|__AUDIT_ARCH_64BIT|__AUDIT_ARCH_LE)
#define AUDIT_ARCH_M32R		(EM_M32R)
#define AUDIT_ARCH_M68K		(EM_68K)
#define AUDIT_ARCH_MICROBLAZE	(EM_MICROBLAZE)
#define AUDIT_ARCH_MIPS		(EM_MIPS)
#define AUDIT_ARCH_MIPSEL	(EM_MIPS|__AUDIT_ARCH_LE)
#define AUDIT_ARCH_MIPS64	(EM_MIPS|__AUDIT_ARCH_64BIT)
#define AUDIT_ARCH_MIPS64N32	(EM_MIPS|__AUDIT_ARCH_64BIT|\
				 __AUDIT_ARCH_CONVENTION_MIPS64_N32)
#define AUDIT_ARCH_MIPSEL64	(EM_MIPS|__AUDIT_ARCH_64BIT|__AUDIT_ARCH_LE)
#define AUDIT_ARCH_MIPSEL64N32	(EM_MIPS|__AUDIT_ARCH_64BIT|__AUDIT_ARCH_LE|\
				 __AUDIT_ARCH_CONVENTION_MIPS64_N32)
#define AUDIT_ARCH_NDS32	(EM_NDS32|__AUDIT_ARCH_LE)
#define AUDIT_ARCH_NDS32BE	(EM_NDS32)
#define AUDIT_ARCH_NIOS2	(EM_ALTERA_NIOS2|__AUDIT_ARCH_LE)
#define AUDIT_ARCH_OPENRISC	(EM_OPENRISC)
#define AUDIT_ARCH_PARISC	(EM_PARISC)
#define AUDIT_ARCH_PARISC64	(EM_PARISC|__AUDIT_ARCH_64BIT)
#define AUDIT_ARCH_PPC		(EM_PPC)
/* do not define AUDIT_ARCH_PPCLE since it is not supported by audit */
#define AUDIT_ARCH_PPC64	(EM_PPC64|__AUDIT_ARCH_64BIT)
#define AUDIT_ARCH_PPC64LE	(EM_PPC64|__AUDIT_ARCH_64BIT|__AUDIT_ARCH_LE)
#define AUDIT_ARCH_RISCV32	(EM_RISCV|__AUDIT_ARCH_LE)
#define AUDIT_ARCH_RISCV64	(EM_RISCV|__AUDIT_ARCH_64BIT|__AUDIT_ARCH_LE)
#define AUDIT_ARCH_S390		(EM_S390)
#define AUDIT_ARCH_S390X	(EM_S390|__AUDIT_ARCH_64BIT)
#define AUDIT_ARCH_SH		(EM_SH)
#define AUDIT_ARCH_SHEL		(EM_SH|__AUDIT_ARCH_LE)
#define AUDIT_ARCH_SH64		(EM_SH|__AUDIT_ARCH_64BIT)
#define AUDIT_ARCH_SHEL64	(EM_SH|__AUDIT_ARCH_64BIT|__AUDIT_ARCH_LE)
#define AUDIT_ARCH_SPARC	(EM_SPARC)
#define AUDIT_ARCH_SPARC64	(EM_SPARCV9|__AUDIT_ARCH_64BIT)
#define AUDIT_ARCH_TILEGX	(EM_TILEGX|__AUDIT_ARCH_64BIT|__AUDIT_ARCH_LE)
#define AUDIT_ARCH_TILEGX32	(EM_TILEGX|__AUDIT_ARCH_LE)
#define AUDIT_ARCH_TILEPRO	(EM_TILEPRO|__AUDIT_ARCH_LE)
#define AUDIT_ARCH_UNICORE	(EM_UNICORE|__AUDIT_ARCH_LE)
#define AUDIT_ARCH_X86_64	(EM_X86_64|__AUDIT_ARCH_64BIT|__AUDIT_ARCH_LE)
#define AUDIT_ARCH_XTENSA	(EM_XTENSA)
#define AUDIT_ARCH_LOONGARCH32	(EM_LOONGARCH|__AUDIT_ARCH_LE)
#define AUDIT_ARCH_LOONGARCH64	(EM_LOONGARCH|__AUDIT_ARCH_64BIT|__AUDIT_ARCH_LE)

#define AUDIT_PERM_EXEC		1
#define AUDIT_PERM_WRITE	2
#define AUDIT_PERM_READ		4
#define AUDIT_PERM_ATTR		8

/* MAX_AUDIT_MESSAGE_LENGTH is set in audit:lib/libaudit.h as:
 * 8970 // PATH_MAX*2+CONTEXT_SIZE*2+11+256+1
 * max header+body+tailer: 44 + 29 + 32 + 262 + 7 + pad
 */
#define AUDIT_MESSAGE_TEXT_MAX	8560

/* Multicast Netlink socket groups (default up to 32) */
enum audit_nlgrps {
	AUDIT_NLGRP_NONE,	/* Group 0 not used */
	AUDIT_NLGRP_READLOG,	/* "best effort" read only socket */
	__AUDIT_NLGRP_MAX
};
#define AUDIT_NLGRP_MAX                (__AUDIT_NLGRP_MAX - 1)

struct audit_status {
	__u32		mask;		/* Bit mask for valid entries */
	__u32		enabled;	/* 1 = enabled, 0 = disabled */
	__u32		failure;	/* Failure-to-log action */
	__u32		pid;		/* pid of auditd process */
	__u32		rate_limit;	/* messages rate limit (per second) */
	__u32		backlog_limit;	/* waiting messages limit */
	__u32		lost;		/* messages lost */
	__u32		backlog;	/* messages waiting in queue */
	union {
		__u32	version;	/* deprecated: audit api version num */
		__u32	feature_bitmap;	/* bitmap of kernel audit features */
	};
	__u32		backlog_wait_time;/* message queue wait timeout */
	__u32           backlog_wait_time_actual;/* time spent waiting while
						  * message limit exceeded
						  */
};

struct audit_features {
#define AUDIT_FEATURE_VERSION	1
	__u32	vers;
	__u32	mask;		/* which bits we are dealing with */
	__u32	features;	/* which feature to enable/disable */
	__u32	lock;		/* which features to lock */
};

#define AUDIT_FEATURE_ONLY_UNSET_LOGINUID	0
#define AUDIT_FEATURE_LOGINUID_IMMUTABLE	1
#define AUDIT_LAST_FEATURE			AUDIT_FEATURE_LOGINUID_IMMUTABLE

#define audit_feature_valid(x)		((x) >= 0 && (x) <= AUDIT_LAST_FEATURE)
#define AUDIT_FEATURE_TO_MASK(x)	(1 << ((x) & 31)) /* mask for __u32 */

struct audit_tty_status {
	__u32		enabled;	/* 1 = enabled, 0 = disabled */
	__u32		log_passwd;	/* 1 = enabled, 0 = disabled */
};

#define AUDIT_UID_UNSET (unsigned int)-1
#define AUDIT_SID_UNSET ((unsigned int)-1)

/* audit_rule_data supports filter rules with both integer and string
 * fields.  It corresponds with AUDIT_ADD_RULE, AUDIT_DEL_RULE and
 * AUDIT_LIST_RULES requests.
 */
struct audit_rule_data {
	__u32		flags;	/* AUDIT_PER_{TASK,CALL}, AUDIT_PREPEND */
	__u32		action;	/* AUDIT_NEVER, AUDIT_POSSIBLE, AUDIT_ALWAYS */
	__u32		field_count;
	__u32		mask[AUDIT_BITMASK_SIZE]; /* syscall(s) affected */
	__u32		fields[AUDIT_MAX_FIELDS];
	__u32		values[AUDIT_MAX_FIELDS];
	__u32		fieldflags[AUDIT_MAX_FIELDS];
	__u32		buflen;	/* total length of string fields */
	char		buf[];	/* string fields buffer */
};

#endif /* _LINUX_AUDIT_H_ */
