/* SPDX-License-Identifier: GPL-2.0 WITH Linux-syscall-note */
#ifndef _ASM_GENERIC_ERRNO_BASE_H
#define _ASM_GENERIC_ERRNO_BASE_H

#define	EPERM		 1	/* Operation not permitted */
#define	ENOENT		 2	/* No such file or directory */
#define	ESRCH		 3	/* No such process */
#define	EINTR		 4	/* Interrupted system call */
#define	EIO		 5	/* I/O error */
#define	ENXIO		 6	/* No such device or address */
#define	E2BIG		 7	/* Argument list too long */
#define	ENOEXEC		 8	/* Exec format error */
#define	EBADF		 9	/* Bad file number */
#define	ECHILD		10	/* No child processes */
#define	EAGAIN		11	/* Try again */
#define	ENOMEM		12	/* Out of memory */
#define	EACCES		13	/* Permission denied */
#define	EFAULT		14	/* Bad address */
#define	ENOTBLK		15	/* Block device required */
#define	EBUSY		16	/* Device or resource busy */
#define	EEXIST		17	/* File exists */
#define	EXDEV		18	/* Cross-device link */
#define	ENODEV		19	/* No such device */
#define	ENOTDIR		20	/* Not a directory */
#define	EISDIR		21	/* Is a directory */
#define	EINVAL		22	/* Invalid argument */
#define	ENFILE		23	/* File table overflow */
#define	EMFILE		24	/* Too many open files */
#define	ENOTTY		25	/* Not a typewriter */
#define	ETXTBSY		26	/* Text file busy */
#define	EFBIG		27	/* File too large */
#define	ENOSPC		28	/* No space left on device */
#define	ESPIPE		29	/* Illegal seek */
#define	EROFS		30	/* Read-only file system */
#define	EMLINK		31	/* Too many links */
#define	EPIPE		32	/* Broken pipe */
#define	EDOM		33	/* Math argument out of domain of func */
#define	ERANGE		34	/* Math result not representable */

#endif
