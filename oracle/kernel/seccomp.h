/* SPDX-License-Identifier: GPL-2.0 WITH Linux-syscall-note */
#ifndef _LINUX_SECCOMP_H
#define _LINUX_SECCOMP_H


#include <linux/types.h>


/* Valid values for seccomp.mode and prctl(PR_SET_SECCOMP, <mode>) */
#define SECCOMP_MODE_DISABLED	0 /* seccomp is not in use. */
#define SECCOMP_MODE_STRICT	1 /* uses hard-coded filter. */
#define SECCOMP_MODE_FILTER	2 /* uses user-supplied filter. */

/* Valid operations for seccomp syscall. */
#define SECCOMP_SET_MODE_STRICT		0
#define SECCOMP_SET_MODE_FILTER		1
#define SECCOMP_GET_ACTION_AVAIL	2
#define SECCOMP_GET_NOTIF_SIZES		3

/* Valid flags for SECCOMP_SET_MODE_FILTER */
#define SECCOMP_FILTER_FLAG_TSYNC		(1UL << 0)
#define SECCOMP_FILTER_FLAG_LOG			(1UL << 1)
#define SECCOMP_FILTER_FLAG_SPEC_ALLOW		(1UL << 2)
#define SECCOMP_FILTER_FLAG_NEW_LISTENER	(1UL << 3)
#define SECCOMP_FILTER_FLAG_TSYNC_ESRCH		(1UL << 4)
/* Received notifications wait in killable state (only respond to fatal signals) */
#define SECCOMP_FILTER_FLAG_WAIT_KILLABLE_RECV	(1UL << 5)

/*
 * All BPF programs must return a 32-bit value.
 * The bottom 16-bits are for optional return data.
 * The upper 16-bits are ordered from least permissive values to most,
 * as a signed value (so 0x8000000 is negative).
 *
 * The ordering ensures that a min_t() over composed return values always
 * selects the least permissive choice.
 */
#define SECCOMP_RET_KILL_PROCESS 0x80000000U /* kill the process */
#define SECCOMP_RET_KILL_THREAD	 0x00000000U /* kill the thread */
#define SECCOMP_RET_KILL	 SECCOMP_RET_KILL_THREAD
#define SECCOMP_RET_TRAP	 0x00030000U /* disallow and force a SIGSYS */
#define SECCOMP_RET_ERRNO	 0x00050000U /* returns an errno */
#define SECCOMP_RET_USER_NOTIF	 0x7fc00000U /* notifies userspace */
#define SECCOMP_RET_TRACE	 0x7ff00000U /* pass to a tracer or disallow */
#define SECCOMP_RET_LOG		 0x7ffc0000U /* allow after logging */
#define SECCOMP_RET_ALLOW	 0x7fff0000U /* allow */

/* Masks for the return value sections. */
#define SECCOMP_RET_ACTION_FULL	0xffff0000U
#define SECCOMP_RET_ACTION	0x7fff0000U
#define SECCOMP_RET_DATA	0x0000ffffU

/**
 * struct seccomp_data - the format the BPF program executes over.
 * @nr: the system call number
 * @arch: indicates system call convention as an AUDIT_ARCH_* value
 *        as defined in <linux/audit.h>.
 * @instruction_pointer: at the time of the system call.
 * @args: up to 6 system call arguments always stored as 64-bit values
 *        regardless of the architecture.
 */
struct seccomp_data {
	int nr;
	__u32 arch;
	__u64 instruction_pointer;
	__u64 args[6];
};

struct seccomp_notif_sizes {
	__u16 seccomp_notif;
	__u16 seccomp_notif_resp;
	__u16 seccomp_data;
};

struct seccomp_notif {
	__u64 id;
	__u32 pid;
	__u32 flags;
	struct seccomp_data data;
};

/*
 * Valid flags for struct seccomp_notif_resp
 *
 * Note, the SECCOMP_USER_NOTIF_FLAG_CONTINUE flag must be used with caution!
 * If set by the process supervising the syscalls of another process the
 * syscall will continue. This is problematic because of an inherent TOCTOU.
 * An attacker can exploit the time while the supervised process is waiting on
 * a response from the supervising process to rewrite syscall arguments which
 * are passed as pointers of the intercepted syscall.
 * It should be absolutely clear that this means that the seccomp notifier
 * _cannot_ be used to implement a security policy! It should only ever be used
 * in scenarios where a more privileged process supervises the syscalls of a
 * lesser privileged process to get around kernel-enforced security
 * restrictions when the privileged process deems this safe. In other words,
 * in order to continue a syscall the supervising process should be sure that
 * another security mechanism or the kernel itself will sufficiently block
 * syscalls if arguments are rewritten to something unsafe.
 *
 * Similar precautions should be applied when stacking SECCOMP_RET_USER_NOTIF
 * or SECCOMP_RET_TRACE. For SECCOMP_RET_USER_NOTIF filters acting on the
 * same syscall, the most recently added filter takes precedence. This means
 * that the new SECCOMP_RET_USER_NOTIF filter can override any
 * SECCOMP_IOCTL_NOTIF_SEND from earlier filters, essentially allowing all
 * such filtered syscalls to be executed by sending the response
 * SECCOMP_USER_NOTIF_FLAG_CONTINUE. Note that SECCOMP_RET_TRACE can equally
 * be overriden by SECCOMP_USER_NOTIF_FLAG_CONTINUE.
 */
#define SECCOMP_USER_NOTIF_FLAG_CONTINUE (1UL << 0)

struct seccomp_notif_resp {
	__u64 id;
	__s64 val;
	__s32 error;
	__u32 flags;
};

/* valid flags for seccomp_notif_addfd */
#define SECCOMP_ADDFD_FLAG_SETFD	(1UL << 0) /* Specify remote fd */
#define SECCOMP_ADDFD_FLAG_SEND		(1UL << 1) /* Addfd and return it, atomically */

/**
 * struct seccomp_notif_addfd
 * @id: The ID of the seccomp notification
 * @flags: SECCOMP_ADDFD_FLAG_*
 * @srcfd: The local fd number
 * @newfd: Optional remote FD number if SETFD option is set, otherwise 0.
 * @newfd_flags: The O_* flags the remote FD should have applied
 */
struct seccomp_notif_addfd {
	__u64 id;
	__u32 flags;
	__u32 srcfd;
	__u32 newfd;
	__u32 newfd_flags;
};

#define SECCOMP_IOC_MAGIC		'!'
#define SECCOMP_IO(nr)			_IO(SECCOMP_IOC_MAGIC, nr)
#define SECCOMP_IOR(nr, type)		_IOR(SECCOMP_IOC_MAGIC, nr, type)
#define SECCOMP_IOW(nr, type)		_IOW(SECCOMP_IOC_MAGIC, nr, type)
#define SECCOMP_IOWR(nr, type)		_IOWR(SECCOMP_IOC_MAGIC, nr, type)

/* Flags for seccomp notification fd ioctl. */
#define SECCOMP_IOCTL_NOTIF_RECV	SECCOMP_IOWR(0, struct seccomp_notif)
#define SECCOMP_IOCTL_NOTIF_SEND	SECCOMP_IOWR(1,	\
						struct seccomp_notif_resp)
#define SECCOMP_IOCTL_NOTIF_ID_VALID	SECCOMP_IOW(2, __u64)
/* On success, the return value is the remote process's added fd number */
#define SECCOMP_IOCTL_NOTIF_ADDFD	SECCOMP_IOW(3, \
						struct seccomp_notif_addfd)

#endif /* _LINUX_SECCOMP_H */
